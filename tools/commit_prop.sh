#!/bin/bash
# tools/commit_prop.sh Cxx "<lean files relative to lean/PynguinModel, space separated>" "<message>"
p=$1; low=$(echo $p | tr A-Z a-z); shift
cd /verif
for f in $1; do git add lean/PynguinModel/$f; done
for f in harness/$low.py harness/corpus/$p lean/Driver/$p.lean lean/PynguinModel/Props/$p.lean tools/manifest_entries/$p.json design_notes/$p.md evidence/$p.json known_findings.d/$p.jsonl proposed_fixes/$p-* lean/PynguinModel/Generated/$p* harness/${low}_*.py; do
  [ -e "$f" ] && git add "$f"
done
grep -qx "$p" tools/integrated.txt || echo "$p" >> tools/integrated.txt; git add tools/integrated.txt; python3 tools/gen_manifest.py; git add MANIFEST.json
git commit -qm "$2"; git log --oneline | head -1
