#!/usr/bin/env python3
"""Evaluate the committed seeded changes (seeded/<id>/patch.diff) against the checks.

usage: tools/seeded_eval.py [--tier quick|thorough] [--jobs N] [id ...]

For every seeded change: make a scratch worktree of /repo HEAD outside /repo and /verif, apply the
patch, run the demonstration (must fail) and `VERIF_REPO=<worktree> ./check <property> --tier <tier>`
(must exit 1 with a VIOLATION line), remove the worktree. Nothing is applied to /repo itself, so this can
run next to other work. Results: seeded/RESULTS.json and a table on stdout. Runs with VERIF_REPO set write their
evidence to evidence-scratch/ (ignored), never to evidence/.
"""
import concurrent.futures as cf
import json, os, pathlib, shutil, subprocess, sys, tempfile, time

ROOT = pathlib.Path(__file__).resolve().parent.parent
REPO = "/repo"


def sh(cmd, **kw):
    return subprocess.run(cmd, shell=isinstance(cmd, str), capture_output=True, text=True, **kw)


def evaluate(sid: str, tier: str) -> dict:
    d = ROOT / "seeded" / sid
    meta = json.loads((d / "meta.json").read_text())
    prop = meta["property"]
    props = [prop] + [p for p in meta.get("also_check", []) if p != prop]
    wt = pathlib.Path(tempfile.mkdtemp(prefix=f"seval-{sid}-")) / "wt"
    res = {"id": sid, "property": prop, "tier": tier}
    try:
        r = sh(["git", "-C", REPO, "worktree", "add", "--detach", "-f", str(wt), "HEAD"])
        if r.returncode:
            res["error"] = "worktree: " + r.stderr[-300:]
            return res
        r = sh(["git", "-C", str(wt), "apply", str(d / "patch.diff")])
        if r.returncode:
            res["error"] = "apply: " + r.stderr[-300:]
            return res
        env = dict(os.environ, PYTHONPATH=str(wt / "src"), PYNGUIN_DANGER_AWARE="1", PYTHONHASHSEED="0")
        demo = next((p for p in sorted(d.glob("demo*.py"))), None)
        if demo is not None:
            try:
                r = sh(["/venv/bin/python", str(demo)], env=env, timeout=900, cwd=str(wt.parent))
                res["demo_exit_mutated"] = r.returncode
            except subprocess.TimeoutExpired:
                res["demo_exit_mutated"] = "timeout"
        res["checks"] = {}
        for p in props:
            t0 = time.time()
            env2 = dict(os.environ, VERIF_REPO=str(wt), VERIF_SEEDED_EVAL="1")
            env2.pop("PYTHONPATH", None)
            try:
                r = sh([str(ROOT / "check"), p, "--tier", tier], env=env2, timeout=3600, cwd=str(ROOT))
                out = r.stdout + r.stderr
                lines = [l for l in out.splitlines() if l.startswith(("VIOLATION", "KNOWN-FINDING"))]
                viol = [l for l in lines if l.startswith("VIOLATION")]
                known = [l for l in lines if not l.startswith("VIOLATION")]
                res["checks"][p] = {"exit": r.returncode, "lines": [l[:300] for l in viol[:4] + known[:3]],
                                    "wall_s": round(time.time() - t0, 1)}
            except subprocess.TimeoutExpired:
                res["checks"][p] = {"exit": "timeout", "lines": [], "wall_s": round(time.time() - t0, 1)}
        res["caught"] = any(c["exit"] == 1 and any(l.startswith("VIOLATION") for l in c["lines"])
                            for c in res["checks"].values())
        res["caught_with_input"] = any(
            c["exit"] == 1 and any(l.startswith("VIOLATION") and "no-failing-input-found" not in l for l in c["lines"])
            for c in res["checks"].values())
    finally:
        sh(["git", "-C", REPO, "worktree", "remove", "--force", str(wt)])
        shutil.rmtree(wt.parent, ignore_errors=True)
        sh(["git", "-C", REPO, "worktree", "prune"])
    return res


def main():
    args = sys.argv[1:]
    tier, jobs, ids = "quick", 4, []
    while args:
        a = args.pop(0)
        if a == "--tier":
            tier = args.pop(0)
        elif a == "--jobs":
            jobs = int(args.pop(0))
        else:
            ids.append(a)
    if not ids:
        ids = sorted(p.name for p in (ROOT / "seeded").iterdir() if (p / "patch.diff").exists())
    # replays written while checking mutated trees are not evidence about /repo: keep the directory as it was
    results = []
    with cf.ThreadPoolExecutor(max_workers=jobs) as ex:
        for res in ex.map(lambda s: evaluate(s, tier), ids):
            results.append(res)
            print(json.dumps(res), flush=True)
    # translator checks rewrite lean/PynguinModel/Generated/*.lean from the tree they run against: put the
    # committed tables (generated from /repo itself) back after evaluating mutated trees
    sh(["git", "-C", str(ROOT), "checkout", "--", "lean/PynguinModel/Generated"])
    out = ROOT / "seeded" / "RESULTS.json"
    old = {}
    if out.exists():
        old = {r["id"] + "/" + r["tier"]: r for r in json.loads(out.read_text())}
    for r in results:
        old[r["id"] + "/" + r["tier"]] = r
    out.write_text(json.dumps([old[k] for k in sorted(old)], indent=1) + "\n")
    print()
    for r in results:
        print(f"{r['id']:28s} {r['property']} caught={r.get('caught')} with_input={r.get('caught_with_input')} "
              f"demo={r.get('demo_exit_mutated')} {r.get('error', '')}")


if __name__ == "__main__":
    main()
