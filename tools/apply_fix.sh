#!/bin/bash
# tools/apply_fix.sh <diff> <commit message starting with "fix:"> [more diffs...]
# Validates a proposed fix in a scratch worktree (pinned suite must stay green), then applies it to /repo
# as ONE unguarded commit. Usage by the integrator only.
set -u
diff="$1"; msg="$2"
case "$msg" in fix:*) ;; *) echo "message must start with fix:"; exit 2;; esac
tmp=$(mktemp -d /tmp/applyfix-XXXX); wt=$tmp/wt
git -C /repo worktree add --detach -f "$wt" HEAD -q || exit 2
trap 'git -C /repo worktree remove --force "$wt"; rm -rf "$tmp"; git -C /repo worktree prune' EXIT
git -C "$wt" apply "$diff" || { echo "does not apply"; exit 1; }
python3 /verif/tools/baseline_check.py "$wt" | tail -4 > $tmp/out; cat $tmp/out
grep -q "missing=0" $tmp/out || { echo "SUITE NOT GREEN - not applied"; exit 1; }
git -C /repo apply "$diff" && git -C /repo add -A && git -C /repo commit -q -m "$msg" && git -C /repo log --oneline | head -1
