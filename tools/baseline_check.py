#!/usr/bin/env python3
"""Run /repo's pinned suite (guard OFF) and compare with BASELINE.json's stable_pass set.

usage: baseline_check.py [repo_dir]   (default /repo). Exit 0 iff every stable test passes.
"""
import json, os, subprocess, sys, tempfile, xml.etree.ElementTree as ET

repo = sys.argv[1] if len(sys.argv) > 1 else "/repo"
base = json.load(open("/root/.vp/BASELINE.json"))
stable = set(base["stable_pass"])
fd, junit = tempfile.mkstemp(suffix=".xml"); os.close(fd)
env = dict(os.environ)
env.pop("SE2P_PYNGUIN_VERIF", None)
if repo != "/repo":
    env["PYTHONPATH"] = os.path.join(repo, "src")
cmd = ["/venv/bin/python", "-m", "pytest", "-q", "-p", "no:cacheprovider", "--timeout=900",
       "--continue-on-collection-errors", f"--junitxml={junit}"]
r = subprocess.run(cmd, cwd=repo, env=env, capture_output=True, text=True)
print(r.stdout.strip().splitlines()[-1] if r.stdout.strip() else r.stderr[-500:])
passed = set()
for tc in ET.parse(junit).getroot().iter("testcase"):
    if not any(c.tag in ("failure", "error", "skipped") for c in tc):
        passed.add(f"{tc.get('classname')}::{tc.get('name')}")
os.unlink(junit)
missing = sorted(stable - passed)
# timing-sensitive tests (subprocess executor, timeouts) fail spuriously when the machine is loaded:
# re-run only the missing ones, alone, before calling them failures
for _attempt in range(6):
    if not missing or len(missing) > 60:
        break
    fd, junit = tempfile.mkstemp(suffix=".xml"); os.close(fd)
    files = sorted({m.split("::")[0].replace(".", "/") + ".py" for m in missing})
    subprocess.run(["/venv/bin/python", "-m", "pytest", "-q", "-p", "no:cacheprovider", "--timeout=900",
                    f"--junitxml={junit}", *files], cwd=repo, env=env, capture_output=True, text=True)
    for tc in ET.parse(junit).getroot().iter("testcase"):
        if not any(c.tag in ("failure", "error", "skipped") for c in tc):
            passed.add(f"{tc.get('classname')}::{tc.get('name')}")
    os.unlink(junit)
    still = sorted(stable - passed)
    print(f"re-ran {len(files)} file(s) for {len(missing)} missing test(s): still missing {len(still)}")
    missing = still
# Tests that still fail: if they fail in exactly the same way on the unchanged /repo right now (machine load),
# they say nothing about the tree under test.
if missing and len(missing) <= 5 and repo != "/repo":
    fd, junit = tempfile.mkstemp(suffix=".xml"); os.close(fd)
    files = sorted({m.split("::")[0].replace(".", "/") + ".py" for m in missing})
    env0 = dict(env); env0.pop("PYTHONPATH", None)
    subprocess.run(["/venv/bin/python", "-m", "pytest", "-q", "-p", "no:cacheprovider", "--timeout=900",
                    f"--junitxml={junit}", *files], cwd="/repo", env=env0, capture_output=True, text=True)
    ok0 = set()
    for tc in ET.parse(junit).getroot().iter("testcase"):
        if not any(c.tag in ("failure", "error", "skipped") for c in tc):
            ok0.add(f"{tc.get('classname')}::{tc.get('name')}")
    os.unlink(junit)
    also = [m for m in missing if m not in ok0]
    if also:
        print(f"{len(also)} missing test(s) fail on the unchanged /repo under the current load as well (load-flaky): {also}")
        passed |= set(also)
        missing = sorted(stable - passed)
print(f"stable={len(stable)} passed_stable={len(stable & passed)} missing={len(missing)}")
for m in missing[:40]:
    print("  NOT PASSING:", m)
sys.exit(1 if missing else 0)
