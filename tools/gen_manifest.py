#!/usr/bin/env python3
"""Regenerate MANIFEST.json from tools/manifest_table.json (one entry per property)."""
import json, pathlib
root = pathlib.Path(__file__).resolve().parent.parent
table = {}
for f in sorted((root / "tools" / "manifest_entries").glob("C*.json")):
    table[f.stem] = json.loads(f.read_text())
props = [json.loads(l)["id"] for l in (root / "properties.jsonl").read_text().splitlines() if l.strip()]
# Only properties the integrator has merged (committed files, check green on /repo) are claimed.
integrated = set((root / "tools" / "integrated.txt").read_text().split())
checks, na = [], []
for pid in props:
    e = table.get(pid)
    if e and e.get("claimed") and pid in integrated:
        checks.append({
            "property_id": pid,
            "quick_cmd": f"./check {pid} --tier quick",
            "thorough_cmd": f"./check {pid} --tier thorough",
            "evidence_file": f"evidence/{pid}.json",
            "replay_cmd_template": f"./check {pid} --replay {{path}}",
            "engine": "lean4-model+correspondence",
            "level_claimed": {"category": e.get("category", "proof"), "text": e["text"],
                              "design_ref": f"DESIGN.md §5 {pid}"},
            "level_note": e["note"],
            "technique": e["technique"],
        })
    else:
        na.append({"property_id": pid, "reason": (e or {}).get("reason", "not yet implemented: no Lean model/tie committed for this property yet (planned, DESIGN.md §8)")})
hooks = json.loads((root / "tools" / "hooks.json").read_text())
m = {
    "version": 1,
    "setup_cmd": "cd lean && lake build",
    "hooks": hooks,
    "engines": [{"name": "lean4-model+correspondence", "path": "lean/ + harness/",
                 "serves_properties": [c["property_id"] for c in checks],
                 "kind_free_text": "Lean 4 models with kernel-checked theorems (lake build + axiom audit) tied to /repo by "
                                   "line-protocol correspondence runs and source translators (harness/*.py)"}],
    "checks": checks,
    "notes": "See DESIGN.md. Exit 0 held / 1 VIOLATION / 2 machinery error. KNOWN_FINDINGS.jsonl lists recorded defects.",
    "not_applicable": na,
}
(root / "MANIFEST.json").write_text(json.dumps(m, indent=1) + "\n")
print(f"claimed={len(checks)} not_applicable={len(na)}")
