#!/bin/bash
# tools/run_all.sh [--tier quick|thorough] [--jobs N] [Cxx ...]   run checks on /repo, N at a time; summary at the end
cd "$(dirname "$0")/.."
tier=quick; jobs=5; ids=()
while [ $# -gt 0 ]; do case "$1" in --tier) tier=$2; shift 2;; --jobs) jobs=$2; shift 2;; *) ids+=("$1"); shift;; esac; done
[ ${#ids[@]} -eq 0 ] && ids=($(cat tools/integrated.txt | sort))
out=${VERIF_RUNALL_DIR:-/tmp/vrun-all}; mkdir -p $out
printf "%s\n" "${ids[@]}" | xargs -P $jobs -I{} bash -c "s=\$(date +%s); ./check {} --tier $tier > $out/{}.$tier.log 2>&1; rc=\$?; echo \"{} rc=\$rc wall=\$((\$(date +%s)-s))s\" >> $out/{}.$tier.log; echo \"{} rc=\$rc wall=\$((\$(date +%s)-s))s\""
echo "--- non-zero exits / violations:"
for i in "${ids[@]}"; do grep -H -E "^VIOLATION|MACHINERY" $out/$i.$tier.log | cut -c1-200; done
