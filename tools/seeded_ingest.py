#!/usr/bin/env python3
"""Confirm and ingest a seeded change produced by an independent sub-agent.

usage: tools/seeded_ingest.py <prop> <k> [--skip-suite]
reads  /tmp/mut/<prop>/out/{patch<k>.diff,demo<k>.py,meta<k>.json}
Confirms in a fresh scratch worktree of /repo HEAD (outside /repo and /verif):
  * demo passes (exit 0) without the change, fails (non-zero) with it,
  * the patch applies, the tree still imports, the pinned suite still passes (tools/baseline_check.py → missing=0),
then writes /verif/seeded/<prop>-<k>/{patch.diff,demo.py,meta.json}. The scratch worktree is removed.
"""
import json, os, pathlib, shutil, subprocess, sys, tempfile

ROOT = pathlib.Path(__file__).resolve().parent.parent


def sh(cmd, **kw):
    return subprocess.run(cmd, capture_output=True, text=True, **kw)


def main():
    prop, k = sys.argv[1], sys.argv[2]
    skip = "--skip-suite" in sys.argv
    note = sys.argv[sys.argv.index("--note") + 1] if "--note" in sys.argv else None
    src = pathlib.Path(f"/tmp/mut/{prop}/out")
    patch, demo, metaf = src / f"patch{k}.diff", src / f"demo{k}.py", src / f"meta{k}.json"
    meta = json.loads(metaf.read_text()) if metaf.exists() else {"property": prop}
    tmp = pathlib.Path(tempfile.mkdtemp(prefix=f"ingest-{prop}-{k}-"))
    wt = tmp / "wt"
    ran = []
    try:
        r = sh(["git", "-C", "/repo", "worktree", "add", "--detach", "-f", str(wt), "HEAD"])
        assert r.returncode == 0, r.stderr
        env = dict(os.environ, PYTHONPATH=str(wt / "src"), PYNGUIN_DANGER_AWARE="1", PYTHONHASHSEED="0")
        env.pop("SE2P_PYNGUIN_VERIF", None)
        shutil.copy(demo, tmp / "demo.py")
        r0 = sh(["/venv/bin/python", str(tmp / "demo.py")], env=env, cwd=str(tmp), timeout=1800)
        ran.append(f"demo on unchanged worktree: exit {r0.returncode}")
        r = sh(["git", "-C", str(wt), "apply", str(patch)])
        assert r.returncode == 0, "patch does not apply: " + r.stderr
        r1 = sh(["/venv/bin/python", str(tmp / "demo.py")], env=env, cwd=str(tmp), timeout=1800)
        ran.append(f"demo with change applied: exit {r1.returncode}")
        print(ran)
        if r0.returncode != 0 or r1.returncode == 0:
            print("REJECT: demo does not discriminate", r0.stdout[-500:], r0.stderr[-500:], r1.stdout[-300:], r1.stderr[-300:])
            return 1
        if not skip:
            r = sh(["python3", str(ROOT / "tools" / "baseline_check.py"), str(wt)], timeout=3600)
            line = [l for l in r.stdout.splitlines() if l.startswith("stable=")]
            ran.append("python3 tools/baseline_check.py <worktree with change>: " + (line[0] if line else "no result"))
            print(ran[-1])
            if r.returncode != 0:
                print("REJECT: suite no longer passes", r.stdout[-1500:])
                return 1
        if note:
            ran.append(note)
        out = ROOT / "seeded" / f"{prop}-{k}"
        out.mkdir(parents=True, exist_ok=True)
        shutil.copy(patch, out / "patch.diff")
        shutil.copy(demo, out / "demo.py")
        m = {
            "property": prop,
            "summary": meta.get("summary", ""),
            "site": meta.get("site", ""),
            "needs_to_manifest": meta.get("needs_to_manifest", ""),
            "why_tests_pass": meta.get("why_tests_pass", ""),
            "author": "independent sub-agent given only the property text and a scratch worktree",
            "confirmed_by_integrator": ran,
        }
        (out / "meta.json").write_text(json.dumps(m, indent=1) + "\n")
        print("INGESTED", out)
        return 0
    finally:
        sh(["git", "-C", "/repo", "worktree", "remove", "--force", str(wt)])
        shutil.rmtree(tmp, ignore_errors=True)
        sh(["git", "-C", "/repo", "worktree", "prune"])


if __name__ == "__main__":
    sys.exit(main())
