"""C26 — generator selection offers only type-compatible generators (DESIGN §5 C26).

One case = one generated module (random class hierarchy over builtins as in C25, optionally a user generic class,
5-10 annotated functions / methods returning classes, generic containers, tuples, unions, None, primitives or
nothing) analysed by the REAL `generate_test_cluster`, plus a pool of requested types and a HISTORY of operations on
the real `TypeSystem` and on both real providers (`GeneratorProvider`, `RandomGeneratorProvider`, filled by `add`
with every accessible of the cluster):

  ["q", [kind, [i, j]]]      memoised type query  (kind: subclass sub maybe dist subs sups)
  ["edge", ["", [a, b]]]     `add_subclass_edge(super=a, sub=b)` between known classes  (a late graph update;
                             the harness then calls `clear_generator_cache()` as `update_return_type` does).  Kinds:
                             random, shortcut beside an existing path (`class C(B, A)` with `class B(A)`), repeated,
                             second parent, chain-then-shortcut; the class-level queries, `subtype_distance` on the end
                             points / containers, tuples, unions built on them / an ancestor-descendant pair and a
                             provider look-up for the super class are asked right before and right after
  ["gens", ["", [i, 0]]]     `_get_generators_for(pool[i])` on both providers (+ three `select_generator_for` picks)
  ["upd", [name, [i, 0]]]    a run-time return-type observation: the REAL `ModuleTestCluster.update_return_type(acc, pool[i])`
                             (what `ReturnTypeObserver` does after every execution) for the function `g3` / method
                             `K1.r0_k1` / constructor `K1` called `name`, once per provider (the cluster's
                             `generator_provider` is pointed at each of the two providers in turn); a constructor is
                             always observed to return its own class, as `type(K1(...))` is
  ["add", [name, [0, 0]]]    a late `ModuleTestCluster.add_generator(acc)` (provider caches cleared by the harness)

followed by `final`: every query of the history is asked again (served by the caches) and compared by the oracle
with a recomputation on a brand-new `TypeSystem` holding the final graph.  Every answer given ALONG the history is
compared in the same way with a recomputation on the graph of that moment, and so is the subtype distance the
heuristic provider stores with every generator it hands out.

The Lean model (`Driver/C26.lean`) gets Python's own `__bases__` table (not pynguin's graph), every accessible's
signature return type and fixed generated type, the sequence of `add` calls and the same history; it answers with
`Model/Generators.lean` (`ask`/`addSubclassEdge`/`offeredHeuristic`/`offeredRandom`/`addGenerator`/`updateReturnType`);
after every `upd`/`add` the WHOLE generator table of both providers and the signature's return type are compared.

Oracle = the property in its own words on the implementation's answers only (see `oracle`).
"""
from __future__ import annotations

import atexit
import hashlib
import importlib
import json
import shutil
import sys
import tempfile
from pathlib import Path

import vcommon
from c25 import ARITY, BUILTIN_PARENTS, C25, INST_BUILTINS, TOWER, _full, contains_none, has_args, t_any
from vcommon import Failure, PropertyCheck, jdump, run_main

PRIM_NAMES = ["builtins.int", "builtins.str", "builtins.bool", "builtins.float", "builtins.complex",
              "builtins.bytes", "builtins.type"]
CACHED = ["get_subclasses", "get_superclasses", "is_subclass", "is_subtype", "is_maybe_subtype", "subtype_distance"]
GENERIC = "G0"


def contains_tuple(t):
    return t_any(lambda x: isinstance(x, dict) and "t" in x, t)


def render(t, top=True):
    """Type description -> annotation source (None = leave unannotated).  Descriptions are sanitised first."""
    if t == "A":
        return None if top else "object"
    if t == "N":
        return "None"
    if "i" in t:
        c, args = t["i"]
        name = c.split(".")[-1]
        if not args:
            return name
        if all(a == "A" for a in args) and c in ARITY:
            return name  # bare `list` = list[Any]
        return f"{name}[{', '.join(render(a, False) for a in args)}]"
    if "t" in t:
        unk, args = t["t"]
        if unk:
            return "tuple"
        if not args:
            return "tuple[()]"
        return f"tuple[{', '.join(render(a, False) for a in args)}]"
    return " | ".join(render(m, False) for m in t["u"])


class C26(PropertyCheck):
    prop_id = "C26"
    prop_modules = ["PynguinModel.Props.C26"]
    extra_modules = ["PynguinModel.Model.Generators"]
    driver = "Driver/C26.lean"
    n_quick = 40
    n_thorough = 500
    n_search = 150
    rule = ("one case = one generated module (3-9 classes over builtins, optional user generic, 5-10 annotated "
            "generators) analysed by generate_test_cluster + 10-16 requested types + a history of 40-90 memoised "
            "type queries / provider queries / 0-5 late add_subclass_edge calls (random, shortcut, repeated, second "
            "parent, chain-then-shortcut; distances and look-ups asked before and after) / run-time return-type observations "
            "(update_return_type on functions, methods, constructors) / late add_generator calls, then all queries "
            "asked again; "
            "non-trivial = distinct case with a non-Any request answered by >= 2 generators from >= 2 buckets and a "
            "late edge that changes an answer")
    assumptions = [
        "types are well-formed (known classes, list/set/dict with 1/1/2 arguments, non-empty unions); StringSubtype, "
        "Unsupported and type-hint conversion are outside the model",
        "clause 3 covers the functools.lru_cache'd TypeSystem queries; the providers' own lru_caches "
        "(_get_generators_for, _get_for_type, _sorted_generators, compute_fitness) are cleared by the harness after a "
        "late edge and a late add_generator; after a return-type observation they are cleared by the real "
        "ModuleTestCluster.update_return_type (a stale provider cache there is reported by the oracle)",
        "a constructor call is observed to return the constructed class (type(C(...)) is C): observations of "
        "another type for a constructor are not generated (theorem hypothesis WOp.realistic)",
        "both providers go through the real update_return_type: the cluster's generator_provider attribute is "
        "pointed at each provider in turn and the signature's return type is reset in between",
        "lru_cache eviction (maxsize) is not modelled: an evicted entry is recomputed, which the invariant covers",
    ]
    trusted_base_extra = [
        "networkx has_path / shortest_path_length / descendants / ancestors are re-implemented as a level BFS "
        "(proved = reachability in C25) and compared on every query",
    ]

    # the hierarchy / type generators of C25 (they recurse through `self`)
    _gen_classes = C25._gen_classes  # noqa: SLF001
    _gen_ty = C25._gen_ty  # noqa: SLF001
    _variant = C25._variant  # noqa: SLF001

    def __init__(self, tier, seed):
        super().__init__(tier, seed)
        self.tmp = Path(tempfile.mkdtemp(prefix="c26-"))
        atexit.register(shutil.rmtree, self.tmp, True)
        self.light: dict[str, dict] = {}

    # -- generation -----------------------------------------------------------------------------
    def _sanitize(self, rng, t, user, generic, top=True):
        """Make a description renderable as an annotation: no explicit nested Any, arguments only on list/set/dict
        and the user generic class."""
        if isinstance(t, str):
            return t if (top or t == "N") else {"i": ["builtins.object", []]}
        if "i" in t:
            c, args = t["i"]
            if c in ARITY:
                if all(a == "A" for a in args):
                    return {"i": [c, ["A"] * ARITY[c]]}
                return {"i": [c, [self._sanitize(rng, a, user, generic, False) for a in args]]}
            if c == GENERIC and generic and args:
                return {"i": [c, [self._sanitize(rng, args[0], user, generic, False)]]}
            return {"i": [c, []]}
        if "t" in t:
            unk, args = t["t"]
            if unk:
                return {"t": [True, ["A"]]}
            return {"t": [False, [self._sanitize(rng, a, user, generic, False) for a in args]]}
        items = []
        for m in t["u"]:
            m = self._sanitize(rng, m, user, generic, False)
            if isinstance(m, dict) and "u" in m:
                items += m["u"]
            else:
                items.append(m)
        return {"u": items}

    def gen_case(self, rng):
        specs = self._gen_classes(rng)  # noqa: SLF001 - same hierarchy generator as C25
        generic = rng.random() < 0.4
        parents = {k: list(v) for k, v in BUILTIN_PARENTS.items()}
        for name, bases in specs:
            parents[name] = [_full(b) for b in bases if _full(b) != "builtins.tuple"] or ["builtins.object"]
        user = [s[0] for s in specs]
        classes = user * 3 + INST_BUILTINS + ["builtins.int", "builtins.float", "builtins.bool", "builtins.object"]
        if generic:
            classes += [GENERIC] * 3
            parents[GENERIC] = ["builtins.object"]
        parents = {k: [p for p in v if p in classes] for k, v in parents.items() if k in classes}
        # return types of the generators
        rets = []
        for _ in range(rng.randint(5, 10)):
            t = self._gen_ty(rng, classes, rng.choice([0, 1, 1, 2]))  # noqa: SLF001
            if isinstance(t, dict) and "i" in t and t["i"][0] == GENERIC:
                t = {"i": [GENERIC, [self._gen_ty(rng, classes, 0)]]}  # noqa: SLF001
            rets.append(self._sanitize(rng, t, user, generic))
        if generic and rng.random() < 0.7:  # two instantiations of the user generic
            a, b = rng.choice(user + ["builtins.int"]), rng.choice(user + ["builtins.str"])
            rets += [{"i": [GENERIC, [{"i": [a, []]}]]}, {"i": [GENERIC, [{"i": [b, []]}]]}]
        if rng.random() < 0.5:
            rets.append("A")
        methods = []
        for name in user:
            if rng.random() < 0.35:
                t = self._sanitize(rng, self._gen_ty(rng, classes, 1), user, generic)  # noqa: SLF001
                methods.append([name, t])
        # requested types: the return types, relatives of them, primitives, Any, None, random ones
        pool = []
        for t in rng.sample(rets, min(len(rets), 5)):
            pool.append(t)
            for _ in range(rng.choice([1, 1, 2])):
                t = self._variant(rng, t, classes, parents)  # noqa: SLF001
                pool.append(t)
        for _ in range(3):
            pool.append(self._gen_ty(rng, classes, rng.choice([0, 1, 2])))  # noqa: SLF001
        pool = pool[:13] + [{"i": [rng.choice(PRIM_NAMES[:5]), []]}, "A", "N"]
        # late graph updates, decided first so that the classes involved are in the pool
        edge_cands = user + ["builtins.object", "builtins.int", "builtins.str", "builtins.list", "builtins.float"]
        if generic:
            edge_cands.append(GENERIC)
        edges = self._gen_edges(rng, user, edge_cands, parents)

        def inst(c):
            return {"i": [c, ["A"] * ARITY[c] if c in ARITY else []]}

        def pool_ix(t):
            for k, x in enumerate(pool):
                if x == t:
                    return k
            pool.append(t)
            return len(pool) - 1

        edge_ix = {}
        for a, b, _kind, _rel in edges:
            for c in (a, b):
                if c not in edge_ix:
                    edge_ix[c] = pool_ix(inst(c))
        # the queries asked right before (memoised) and right after every late edge: the class-level queries, the
        # type-level ones on the two end points, distances on containers / tuples / unions built on them and on
        # relatives further up and down (a shortcut edge shortens those paths too), and a provider look-up for the
        # super class (the rank provider stores the distance to every generator it hands out)
        arounds = []
        for a, b, _kind, (up, down) in edges:  # a = super, b = sub
            base = [["q", ["subclass", [b, a]]], ["q", ["subs", [a, 0]]], ["q", ["sups", [b, 0]]],
                    ["q", [rng.choice(["sub", "maybe"]), [edge_ix[b], edge_ix[a]]]]]
            around = rng.sample(base, rng.randint(1, 4)) + [["q", ["dist", [edge_ix[a], edge_ix[b]]]]]
            ia, ib = inst(a), inst(b)
            shapes = [
                lambda x, y: ({"i": ["builtins.list", [x]]}, {"i": ["builtins.list", [y]]}),
                lambda x, y: ({"i": ["builtins.dict", [x, x]]}, {"i": ["builtins.dict", [y, y]]}),
                lambda x, y: ({"i": ["builtins.set", [x]]}, {"i": ["builtins.set", [y]]}),
                lambda x, y: ({"t": [False, [x, x]]}, {"t": [False, [y, y]]}),
                lambda x, y: ({"u": [x, {"i": ["builtins.str", []]}]}, y),
                lambda x, y: (x, {"u": [y, "N"]}),
                lambda x, y: ({"i": ["builtins.list", [{"i": ["builtins.list", [x]]}]]},
                              {"i": ["builtins.list", [{"i": ["builtins.list", [y]]}]]}),
            ]
            for shape in rng.sample(shapes, rng.choice([1, 1, 2, 3])):
                x, y = shape(ia, ib)
                around.append(["q", ["dist", [pool_ix(x), pool_ix(y)]]])
            for x, y in ([(up, b)] if up else []) + ([(a, down)] if down else []) + (
                    [(up, down)] if up and down else []):
                around.append(["q", ["dist", [pool_ix(inst(x)), pool_ix(inst(y))]]])
            if rng.random() < 0.8:
                around.append(["gens", ["", [edge_ix[a], 0]]])
            if up and rng.random() < 0.5:
                around.append(["gens", ["", [pool_ix(inst(up)), 0]]])
            arounds.append(around)
        n = len(pool)
        # history
        ops = []
        length = rng.randint(40, 90)
        edge_at = dict(zip(sorted(rng.sample(range(8, length), len(edges))), range(len(edges))))
        cls_pairs = [(a, b) for a in edge_cands for b in edge_cands]
        for k in range(length):
            if k in edge_at:
                a, b, _kind, _rel = edges[edge_at[k]]  # super, sub
                around = arounds[edge_at[k]]
                # asked before the edge (memoised), then the edge, then asked again
                ops += around + [["edge", ["", [a, b]]]] + around
                continue
            r = rng.random()
            if r < 0.25:
                ops.append(["gens", ["", [rng.randrange(n), 0]]])
            elif r < 0.40:
                a, b = rng.choice(cls_pairs)
                ops.append(["q", ["subclass", [a, b]]])
            elif r < 0.50:
                ops.append(["q", [rng.choice(["subs", "sups"]), [rng.choice(edge_cands), 0]]])
            else:
                kind = rng.choice(["sub", "maybe", "maybe", "dist", "dist"])
                ops.append(["q", [kind, [rng.randrange(n), rng.randrange(n)]]])
        # repeat some early queries late (cache hits across edges)
        early = [o for o in ops[:30] if o[0] != "edge"]
        for o in rng.sample(early, min(len(early), 10)):
            ops.append(o)
        ops = self._with_updates(rng, ops, specs, generic, rets, methods, pool, classes)
        return {"classes": specs, "generic": generic, "rets": rets, "methods": methods, "pool": pool, "ops": ops}

    @staticmethod
    def _gen_edges(rng, user, edge_cands, parents):
        """Late `add_subclass_edge` calls as (super, sub, kind, (ancestor of super | None, descendant of sub | None)).
        Kinds, decided on the generator's own view of the inheritance graph as it grows with the late edges:
        `random` (any two classes, either direction: may connect, repeat, shortcut or close a cycle), `shortcut`
        (sub already reachable from super over >= 2 edges: `class C(B, A)` with `class B(A)`), `repeat` (an edge
        that exists), `join` (a second parent for a class: completes a diamond under `object`), `chain`
        (x -> y, y -> z, then the shortcut x -> z, all late)."""
        succ = {}
        for c, ps in parents.items():
            succ.setdefault(c, set())
            for q in ps:
                succ.setdefault(q, set()).add(c)
        for c in edge_cands:
            succ.setdefault(c, set())

        def levels(a):
            seen, frontier, out = {a}, [a], {a: 0}
            d = 0
            while frontier:
                d += 1
                nxt = []
                for x in frontier:
                    for y in sorted(succ.get(x, ())):
                        if y not in seen:
                            seen.add(y)
                            out[y] = d
                            nxt.append(y)
                frontier = nxt
            return out

        edges = []

        def put(a, b, kind):
            if a == b:
                return
            ups = sorted(x for x in succ if x != a and x in edge_cands and a in levels(x))
            downs = sorted(y for y in levels(b) if y != b and y in edge_cands)
            edges.append((a, b, kind, (rng.choice(ups) if ups else None, rng.choice(downs) if downs else None)))
            succ.setdefault(a, set()).add(b)

        for _ in range(rng.choice([0, 1, 1, 2, 2, 3])):
            kind = rng.choice(["random", "random", "shortcut", "shortcut", "shortcut", "repeat", "join", "chain"])
            if kind == "shortcut":
                pairs = [(a, c) for a in edge_cands for c, d in sorted(levels(a).items())
                         if d >= 2 and c in edge_cands and (a in user or c in user)]
                if pairs:
                    put(*rng.choice(pairs), kind)
                    continue
                kind = "chain"
            if kind == "repeat":
                pairs = [(a, c) for a in edge_cands for c in sorted(succ[a]) if c in edge_cands]
                if pairs:
                    put(*rng.choice(pairs), kind)
                    continue
                kind = "random"
            if kind == "join" and len(user) >= 2:
                d, c = rng.sample(user, 2)
                if c not in levels(d):  # no cycle
                    put(c, d, kind)
                    continue
                kind = "random"
            if kind == "chain" and len(user) >= 3:
                x, y, z = rng.sample(user, 3)
                put(x, y, kind)
                put(y, z, kind)
                put(x, z, kind)
                continue
            a, b = rng.choice(user), rng.choice(edge_cands)
            if rng.random() < 0.3:
                a, b = b, a
            put(a, b, "random")
        return edges[:5]

    def _with_updates(self, rng, ops, specs, generic, rets, methods, pool, classes):
        """Interleave run-time return-type observations (and a few late add_generator calls) with the history.  Every
        observation is preceded by a provider query (fills the providers' caches with the old knowledge) and followed
        by queries for the observed type, for the type the accessible was filed under, and for unrelated types."""
        user = [s[0] for s in specs]
        funcs = [f"g{k}" for k in range(len(rets))]
        unann = [f"g{k}" for k, t in enumerate(rets) if t == "A"]
        meths, seen_m = [], {}
        for name, t in methods:
            k = seen_m.get(name, 0)
            seen_m[name] = k + 1
            meths.append(f"{name}.r{k}_{name.lower()}")
        meths += [f"{name}.m_{name.lower()}" for name in user]
        ctors = user + ([GENERIC] if generic else [])

        def pool_ix(t):
            for k, x in enumerate(pool):
                if x == t:
                    return k
            pool.append(t)
            return len(pool) - 1

        def observed():
            r = rng.random()
            if r < 0.55:
                return {"i": [rng.choice(user), []]}
            if r < 0.65:
                return "N"
            if r < 0.80:
                return {"i": [rng.choice(["builtins.int", "builtins.str", "builtins.float", "builtins.object"]), []]}
            if r < 0.95:
                c = rng.choice(["builtins.list", "builtins.set", "builtins.dict"])
                return {"i": [c, [{"i": [rng.choice(user + ["builtins.int", "builtins.str"]), []]}
                                  for _ in range(ARITY[c])]]}
            return {"t": [False, [{"i": [rng.choice(user + ["builtins.int"]), []]} for _ in range(rng.randint(1, 2))]]}

        n_upd = rng.choice([0, 1, 2, 3, 4, 6, 8])
        blocks = []
        targets = []
        for _ in range(n_upd):
            r = rng.random()
            if targets and r < 0.25:
                name = rng.choice(targets)  # the same accessible observed again: the union grows (up to five members)
            elif unann and r < 0.55:
                name = rng.choice(unann)
            elif r < 0.75:
                name = rng.choice(funcs)
            elif r < 0.88:
                name = rng.choice(meths)
            else:
                name = rng.choice(ctors)
            targets.append(name)
            obs = {"i": [name, []]} if name in ctors else observed()
            oi = pool_ix(obs)
            others = [pool_ix({"i": [c, []]}) for c in rng.sample(user, min(len(user), 2))]
            asked = [oi] + others + [rng.randrange(len(pool))]
            before = [["gens", ["", [i, 0]]] for i in rng.sample(asked, rng.randint(1, len(asked)))]
            after = [["gens", ["", [i, 0]]] for i in asked]
            blocks.append(before + [["upd", [name, [oi, 0]]]] + after)
        for _ in range(rng.choice([0, 0, 1, 2])):
            name = rng.choice(targets + funcs + ctors)
            i = rng.randrange(len(pool))
            blocks.append([["add", [name, [0, 0]]], ["gens", ["", [i, 0]]]])
        # splice the blocks into the history (behind the first few operations, keeping each block together)
        if not blocks:
            return ops
        cuts = sorted(rng.randint(min(4, len(ops)), len(ops)) for _ in blocks)
        out, prev = [], 0
        for cut, block in zip(cuts, blocks):
            out += ops[prev:cut] + block
            prev = cut
        return out + ops[prev:]

    # -- implementation adapter -----------------------------------------------------------------
    def _source(self, case):
        src = ["from __future__ import annotations"]
        if case["generic"]:
            src += ["from typing import Generic, TypeVar", 'T = TypeVar("T")']
        src.append("")
        meths = {}
        for name, t in case["methods"]:
            meths.setdefault(name, []).append(t)
        for name, bases in case["classes"]:
            src.append(f"class {name}({', '.join(bases)}):" if bases else f"class {name}:")
            src.append(f"    def m_{name.lower()}(self, x: int) -> int:\n        return x\n")
            for k, t in enumerate(meths.get(name, [])):
                ann = render(t)
                src.append(f"    def r{k}_{name.lower()}(self){' -> ' + ann if ann else ''}:\n        raise ValueError\n")
        if case["generic"]:
            src.append(f"class {GENERIC}(Generic[T]):\n    def get(self) -> T:\n        raise ValueError\n")
        for k, t in enumerate(case["rets"]):
            ann = render(t)
            src.append(f"def g{k}(){' -> ' + ann if ann else ''}:\n    raise ValueError\n")
        return "\n".join(src)

    def _build(self, case):
        """Analyse the generated module with the real pynguin; return the heavy context (fresh on every call)."""
        from types import GenericAlias

        import pynguin.analyses.typesystem as tsm
        import pynguin.configuration as config
        from pynguin.analyses.generator import GeneratorProvider, RandomGeneratorProvider
        from pynguin.analyses.module import generate_test_cluster
        from pynguin.ga.operators.selection import RandomSelection, RankSelection
        from pynguin.utils import randomness

        key = hashlib.sha1(jdump(case).encode()).hexdigest()[:16]
        modname = f"c26m_{key}"
        (self.tmp / f"{modname}.py").write_text(self._source(case))
        if str(self.tmp) not in sys.path:
            sys.path.insert(0, str(self.tmp))
        importlib.invalidate_caches()
        sys.modules.pop(modname, None)
        importlib.import_module(modname)
        config.configuration.module_name = modname
        randomness.RNG.seed(int(key[:8], 16))
        for fn in CACHED:
            getattr(tsm.TypeSystem, fn).cache_clear()
        cluster = generate_test_cluster(modname)
        ts = cluster.type_system
        build_queries = sum(getattr(tsm.TypeSystem, fn).cache_info().misses for fn in CACHED)
        sys.modules.pop(modname, None)

        def fname(info):
            fn = info.full_name
            return fn[len(modname) + 1:] if fn.startswith(modname + ".") else fn

        nodes = sorted(ts._graph.nodes, key=lambda i: i.full_name)  # noqa: SLF001
        names = [fname(i) for i in nodes]
        ids = {n: k for k, n in enumerate(names)}
        string_sub = {k for k, i in enumerate(nodes) if i.raw_type in tsm.STRING_SUBTYPES}
        table, extra = [], []
        for k, info in enumerate(nodes):
            if k in string_sub:
                table.append([k, []])
                extra.append([ids["builtins.str"], k])
                continue
            bases = []
            for b in getattr(info.raw_type, "__bases__", ()):
                if isinstance(b, GenericAlias):
                    b = b.__origin__
                bn = fname(tsm.TypeInfo(b))
                if bn not in ids:
                    ids[bn] = len(ids)
                    names.append(bn)
                bases.append(ids[bn])
            table.append([k, bases])
        # every accessible the analysis produced: the generators it stored + the accessibles under test
        accs, seen = [], set()
        for gens in cluster.generators.values():
            for a in gens:
                if id(a) not in seen:
                    seen.add(id(a))
                    accs.append(a)
        for a in cluster.accessible_objects_under_test:
            if id(a) not in seen:
                seen.add(id(a))
                accs.append(a)
        hp = GeneratorProvider(ts, RankSelection(1.7))
        rp = RandomGeneratorProvider(ts, RandomSelection())
        for a in accs:
            hp.add(a)
            rp.add(a)
        any_d = __import__("inspect").signature(tsm._SubtypeDistanceVisitor.__init__).parameters[  # noqa: SLF001
            "any_distance"].default
        from pynguin.analyses.module import ModuleTestCluster
        from pynguin.utils.generic import genericaccessibleobject as gao

        max_u = __import__("inspect").signature(ModuleTestCluster._add_or_make_union).parameters[  # noqa: SLF001
            "max_size"].default
        by_name = {}
        for k, a in enumerate(accs):
            if isinstance(a, gao.GenericConstructor):
                by_name.setdefault(a.owner.name, k)
            elif isinstance(a, gao.GenericMethod):
                by_name.setdefault(f"{a.owner.name}.{a.method_name}", k)
            elif isinstance(a, gao.GenericFunction):
                by_name.setdefault(a.function_name, k)
        # `str(Instance)` names a class by its name (builtins) or full name: the sort key of `_add_or_make_union`
        strs = [(i.name if i.module == "builtins" else i.full_name) for i in nodes]
        strs += ["?"] * (len(names) - len(strs))
        return {"maxU": max_u, "by_name": by_name, "strs": strs, "gao": gao, "tsm": tsm, "ts": ts, "cluster": cluster, "nodes": nodes, "names": names, "ids": ids,
                "table": table, "extra": extra, "accs": accs, "hp": hp, "rp": rp, "anyD": any_d,
                "build_queries": build_queries, "key": key,
                "generics": [[k, i.num_hardcoded_generic_parameters] for k, i in enumerate(nodes)
                             if i.num_hardcoded_generic_parameters is not None],
                "tower": [ids[n] for n in TOWER], "prims": [ids[n] for n in PRIM_NAMES if n in ids]}

    @staticmethod
    def _mk(ctx, t):
        tsm = ctx["tsm"]
        if t == "A":
            return tsm.AnyType()
        if t == "N":
            return tsm.NoneType()
        if "i" in t:
            c, args = t["i"]
            return tsm.Instance(ctx["nodes"][ctx["ids"][c]], tuple(C26._mk(ctx, a) for a in args))
        if "t" in t:
            unk, args = t["t"]
            return tsm.TupleType(tuple(C26._mk(ctx, a) for a in args), unknown_size=unk)
        return tsm.UnionType(tuple(C26._mk(ctx, a) for a in t["u"]))

    @staticmethod
    def _unmk(ctx, p):
        """ProperType -> description over class IDS."""
        tsm = ctx["tsm"]
        if isinstance(p, tsm.AnyType):
            return "A"
        if isinstance(p, tsm.NoneType):
            return "N"
        if isinstance(p, tsm.Instance):
            return {"i": [ctx["nodes"].index(p.type), [C26._unmk(ctx, a) for a in p.args]]}
        if isinstance(p, tsm.TupleType):
            return {"t": [p.unknown_size, [C26._unmk(ctx, a) for a in p.args]]}
        if isinstance(p, tsm.UnionType):
            return {"u": [C26._unmk(ctx, a) for a in p.items]}
        raise TypeError(f"type outside the model: {p!r}")

    def _ids_ty(self, ctx, t):
        if isinstance(t, str):
            return t
        if "i" in t:
            return {"i": [ctx["ids"][t["i"][0]], [self._ids_ty(ctx, a) for a in t["i"][1]]]}
        if "t" in t:
            return {"t": [t["t"][0], [self._ids_ty(ctx, a) for a in t["t"][1]]]}
        return {"u": [self._ids_ty(ctx, a) for a in t["u"]]}

    @staticmethod
    def _call(f, *a, **kw):
        try:
            return f(*a, **kw)
        except Exception as e:  # noqa: BLE001 - the exception type is the canonical result
            return {"err": type(e).__name__}

    @staticmethod
    def _fresh(ctx):
        """A brand-new TypeSystem holding a copy of the current inheritance graph (recomputation reference)."""
        ts = ctx["ts"]
        cls = ctx["tsm"].TypeSystem
        # no __init__: the constructor itself adds edges (string subtypes), which on the repaired code would clear
        # the caches of the type system under test in the middle of the history
        fresh = cls.__new__(cls)
        fresh._graph = ts._graph.copy()  # noqa: SLF001
        fresh._types = dict(ts._types)  # noqa: SLF001
        return fresh

    def _query(self, ctx, ts, pool, kind, i, j):
        nodes = ctx["nodes"]
        if kind == "subclass":
            return self._call(ts.is_subclass, nodes[i], nodes[j])
        if kind == "sub":
            return self._call(ts.is_subtype, pool[i], pool[j])
        if kind == "maybe":
            return self._call(ts.is_maybe_subtype, pool[i], pool[j])
        if kind == "dist":
            return self._call(ts.subtype_distance, pool[i], pool[j])
        f = ts.get_subclasses if kind == "subs" else ts.get_superclasses
        r = self._call(f, nodes[i])
        return r if isinstance(r, dict) else sorted(nodes.index(x) for x in r)

    def _ref_cov(self, fresh, s, t):
        """May `s` be a subtype of `t` with generic arguments read covariantly (classification aid, own code)."""
        tsm = self._tsm
        rc = lambda a, b: self._ref_cov(fresh, a, b)  # noqa: E731
        if isinstance(t, tsm.AnyType):
            return True
        if isinstance(s, tsm.UnionType):
            return any(rc(m, t) for m in s.items)
        if isinstance(t, tsm.UnionType):
            return any(rc(s, m) for m in t.items)
        if isinstance(s, tsm.AnyType):
            return True
        if isinstance(s, tsm.NoneType):
            return isinstance(t, tsm.NoneType)
        if isinstance(s, tsm.Instance):
            if not isinstance(t, tsm.Instance):
                return False
            import networkx as nx
            if not nx.has_path(fresh._graph, t.type, s.type):  # noqa: SLF001
                return False
            k = s.type.num_hardcoded_generic_parameters
            if k is not None and k == t.type.num_hardcoded_generic_parameters:
                return all(rc(a, b) for a, b in zip(s.args, t.args))
            return True
        if not isinstance(t, tsm.TupleType) or len(s.args) != len(t.args):
            return False
        return all(rc(a, b) for a, b in zip(s.args, t.args))

    def impl(self, case):
        ctx = self._build(case)
        self._tsm = ctx["tsm"]
        gao = ctx["gao"]
        ts, nodes, ids, hp, rp, accs = ctx["ts"], ctx["nodes"], ctx["ids"], ctx["hp"], ctx["rp"], ctx["accs"]
        cluster = ctx["cluster"]
        gid = {id(a): k for k, a in enumerate(accs)}
        callable_ = [isinstance(a, gao.GenericCallableAccessibleObject) for a in accs]
        gens0 = [a.generated_type() for a in accs]
        sigs0 = [a.inferred_signature.return_type if c else a.generated_type() for a, c in zip(accs, callable_)]
        # functions and methods generate what their signature returns; everything else has a fixed generated type
        fixed = [not (c and isinstance(a, (gao.GenericFunction, gao.GenericMethod))) for a, c in zip(accs, callable_)]
        req = [self._mk(ctx, t) for t in case["pool"]]
        n_req, n_acc = len(req), len(accs)
        pool_ids = ([self._ids_ty(ctx, t) for t in case["pool"]] + [self._unmk(ctx, r) for r in gens0]
                    + [self._unmk(ctx, r) for r in sigs0])
        acc_desc = [[n_req + n_acc + k, (n_req + k) if fixed[k] else None] for k in range(n_acc)]
        adds = list(range(n_acc))
        # the table the analysis itself built must be the one `add` builds from the same accessibles
        def tbl(provider):
            return [[self._unmk(ctx, t), [gid[id(a)] for a in gens]] for t, gens in provider.get_all().items()]
        table_h, table_r = tbl(hp), tbl(rp)
        cl_tbl = {jdump(self._unmk(ctx, t)): sorted(gid[id(a)] for a in gens)
                  for t, gens in cluster.generators.items()}
        same_as_cluster = cl_tbl == {jdump(t): sorted(g) for t, g in table_h}
        ops = []
        for op, (kind, (a, b)) in case["ops"]:
            if op == "edge":
                ops.append([op, [kind, [ids[a], ids[b]]]])
            elif op == "q" and kind in ("subclass",):
                ops.append([op, [kind, [ids[a], ids[b]]]])
            elif op == "q" and kind in ("subs", "sups"):
                ops.append([op, [kind, [ids[a], 0]]])
            elif op in ("upd", "add"):
                k = ctx["by_name"].get(kind)
                if k is None or not callable_[k]:
                    self.count(f"{op}-target-not-in-cluster")
                    continue
                if op == "upd" and fixed[k]:
                    a = n_req + k  # `type(C(...)) is C`: a constructor is observed to return its own class
                ops.append([op, ["", [k, a if op == "upd" else 0]]])
            else:
                ops.append([op, [kind, [a, b]]])
        all_types = req + gens0 + sigs0
        import networkx as nx

        out, gens_aux, upd_aux, rec_now = [], [], [], []
        fresh = None
        n_edges = 0
        last_q, before_shortcut = {}, {}

        def both(f):
            """Run `f` with the cluster's `generator_provider` pointed at each of the two providers in turn."""
            res = []
            for prov in (hp, rp):
                cluster.generator_provider = prov
                res.append(self._call(f))
            return res

        for op, (kind, (a, b)) in ops:
            if op == "q":
                out.append(self._query(ctx, ts, req, kind, a, b))
                # the same query recomputed on a brand-new type system holding the graph of this moment
                if fresh is None:
                    fresh = self._fresh(ctx)
                rec_now.append(self._query(ctx, fresh, req, kind, a, b))
                key = (kind, a, b)
                if kind == "dist" and key in before_shortcut and before_shortcut.pop(key) != out[-1]:
                    self.count("shortcut-edge-changed-a-memoised-distance")
                last_q[key] = out[-1]
            elif op == "edge":
                try:
                    d = nx.shortest_path_length(ts._graph, nodes[a], nodes[b])  # noqa: SLF001
                except (nx.NetworkXNoPath, nx.NodeNotFound):
                    d = None
                self.count("late-edge:" + ("connects-unrelated" if d is None else "self" if d == 0 else
                                           "repeated" if d == 1 else "shortcut"))
                before_shortcut = dict(last_q) if d is not None and d >= 2 else {}
                ts.add_subclass_edge(super_class=nodes[a], sub_class=nodes[b])
                hp.clear_generator_cache()
                rp.clear_generator_cache()
                fresh = None
                n_edges += 1
                out.append(None)
            elif op == "upd":
                acc, obs = accs[a], all_types[b]
                sig = acc.inferred_signature
                old = sig.return_type
                results = []

                def run_update():
                    sig.return_type = old  # both providers see the same observation on the same old knowledge
                    cluster.update_return_type(acc, obs)
                    return self._unmk(ctx, sig.return_type)

                results = both(run_update)
                self.count("upd:" + type(acc).__name__)
                self.count("upd-changed" if sig.return_type != old else "upd-unchanged")
                out.append({"tbl": tbl(hp), "ret": results[0]})
                upd_aux.append({"tbl_r": tbl(rp), "ret_r": results[1]})
            elif op == "add":
                acc = accs[a]
                both(lambda: cluster.add_generator(acc))
                hp.clear_generator_cache()
                rp.clear_generator_cache()
                self.count("late-add:" + type(acc).__name__)
                out.append({"tbl": tbl(hp), "ret": self._unmk(ctx, sigs0[a] if not callable_[a]
                                                               else acc.inferred_signature.return_type)})
                upd_aux.append({"tbl_r": tbl(rp), "ret_r": out[-1]["ret"]})
            else:
                T = req[a]
                h = self._call(lambda: [[gid[id(g.generator)], g._subtype_distance]  # noqa: SLF001
                                        for g in hp._get_generators_for(T)])  # noqa: SLF001
                r = self._call(lambda: [gid[id(g.generator)] for g in rp._get_generators_for(T)])  # noqa: SLF001
                picks_h = [self._call(lambda: (lambda x: None if x is None else gid[id(x)])(hp.select_generator_for(T)))
                           for _ in range(3)]
                picks_r = [self._call(lambda: (lambda x: None if x is None else gid[id(x)])(rp.select_generator_for(T)))
                           for _ in range(3)]
                out.append({"h": h, "r": r})
                if fresh is None:
                    fresh = self._fresh(ctx)
                # the type every offered generator returns NOW (`generated_type()` at the moment of the request)
                offered = set()
                if isinstance(h, list):
                    offered |= {x[0] for x in h}
                if isinstance(r, list):
                    offered |= set(r)
                cur, maybe, cov = {}, {}, {}
                for i in sorted(offered):
                    S = accs[i].generated_type()
                    d = self._unmk(ctx, S)
                    cur[str(i)] = d
                    k = jdump(d)
                    if k not in maybe:
                        maybe[k] = self._call(fresh.is_maybe_subtype, S, T)
                        cov[k] = self._ref_cov(fresh, S, T)
                # the distance the heuristic provider stores with every generator it hands out (rank, fitness) is an
                # answer of the memoised `subtype_distance`: recomputed for the buckets the generator sits in
                dnow = {}
                if isinstance(h, list) and not isinstance(T, ctx["tsm"].AnyType):
                    by_bucket = {}
                    for i in sorted({x[0] for x in h}):
                        ds = []
                        for S, gens in hp.get_all().items():
                            if accs[i] in gens:
                                kS = jdump(self._unmk(ctx, S))
                                if kS not in by_bucket:
                                    by_bucket[kS] = self._call(fresh.subtype_distance, T, S)
                                ds.append(by_bucket[kS])
                        dnow[str(i)] = ds
                gens_aux.append({"cur": cur, "maybe": maybe, "cov": cov, "picks_h": picks_h, "picks_r": picks_r,
                                 "dnow": dnow,
                                 "prim": bool(T.accept(ctx["tsm"].is_primitive_type))})
        # ask everything again (served by the caches), then recompute on a brand-new type system with the final graph
        final_q, seen = [], set()
        for op, (kind, (a, b)) in ops:
            if op == "q" and (kind, a, b) not in seen:
                seen.add((kind, a, b))
                final_q.append([kind, [a, b]])
        final = [self._query(ctx, ts, req, kind, a, b) for kind, (a, b) in final_q]
        fresh = self._fresh(ctx)
        recomputed = [self._query(ctx, fresh, req, kind, a, b) for kind, (a, b) in final_q]
        edges = sorted({(nodes.index(x), nodes.index(y)) for x, y in ts._graph.edges})  # noqa: SLF001
        self.light[ctx["key"]] = {
            "classes": ctx["table"], "extra": ctx["extra"], "tower": ctx["tower"], "generics": ctx["generics"],
            "anyD": ctx["anyD"], "maxU": ctx["maxU"], "prims": ctx["prims"], "strs": ctx["strs"], "pool": pool_ids,
            "accs": acc_desc, "adds": adds, "ops": ops, "final": final_q}
        if len(self.light) > 3000:
            self.light.clear()
        self.count("classes:%d" % len(case["classes"]))
        self.count("late-edges:%d" % n_edges)
        self.count("updates:%d" % sum(1 for o in ops if o[0] == "upd"))
        self.count("build-order-cached-queries:%d" % ctx["build_queries"])
        self.count("generators:%d" % min(len(accs), 30))
        for a, g, sg, fx in zip(accs, gens0, sigs0, fixed):
            self.count("acc:" + type(a).__name__)
            if fx and g != sg:
                self.count("fixed-accessible-whose-signature-returns-another-type")
        return {"edges": [list(e) for e in edges], "table": table_h, "out": out, "final": final,
                "table_end": tbl(hp),
                "rets": [self._unmk(ctx, a.inferred_signature.return_type if c else g)
                         for a, c, g in zip(accs, callable_, gens0)],
                "aux": {"table_r": table_r, "same_as_cluster": same_as_cluster, "recomputed": recomputed,
                        "rec_now": rec_now,
                        "final_q": final_q, "gens": gens_aux, "upd": upd_aux, "table_end_r": tbl(rp), "ops": ops,
                        "pool": pool_ids, "n_req": n_req, "names": ctx["names"],
                        "build_queries": ctx["build_queries"], "prims": ctx["prims"]}}

    def model_line(self, case):
        key = hashlib.sha1(jdump(case).encode()).hexdigest()[:16]
        light = self.light.get(key)
        if light is None:
            self.impl(case)
            light = self.light[key]
        return jdump(light)

    def compare(self, case, impl_out, model_out) -> bool:
        if "bad-op" in model_out:
            return False
        ops = impl_out["aux"]["ops"]
        mout = list(model_out.get("out", []))
        if len(mout) != len(ops):
            return False
        for k, (op, (kind, _)) in enumerate(ops):
            if op == "q" and kind in ("subs", "sups") and isinstance(mout[k], list):
                mout[k] = sorted(mout[k])
        mfin = list(model_out.get("final", []))
        for k, (kind, _) in enumerate(impl_out["aux"]["final_q"]):
            if kind in ("subs", "sups") and k < len(mfin) and isinstance(mfin[k], list):
                mfin[k] = sorted(mfin[k])
        # after every update / late add the WHOLE table of the random provider too, and the signature it left behind
        u = 0
        for k, (op, _) in enumerate(ops):
            if op in ("upd", "add"):
                ua = impl_out["aux"]["upd"][u]
                u += 1
                if not isinstance(mout[k], dict) or mout[k].get("tbl") != ua["tbl_r"] or mout[k].get("ret") != ua["ret_r"]:
                    return False
        return (sorted({tuple(e) for e in model_out.get("edges", [])}) == [tuple(e) for e in impl_out["edges"]]
                and model_out.get("table") == impl_out["table"] and model_out.get("table") == impl_out["aux"]["table_r"]
                and model_out.get("table_end") == impl_out["table_end"]
                and model_out.get("table_end") == impl_out["aux"]["table_end_r"]
                and model_out.get("rets") == impl_out["rets"]
                and mout == impl_out["out"] and mfin == impl_out["final"])

    # -- the property in its own words --------------------------------------------------------------
    def oracle(self, case, impl_out):
        fails, seen = [], set()
        aux = impl_out["aux"]
        names = aux["names"]
        pool = aux["pool"]

        def show(t):
            if isinstance(t, str):
                return {"A": "Any", "N": "None"}[t]
            if "i" in t:
                c, args = t["i"]
                return names[c].split(".")[-1] + (f"[{', '.join(show(a) for a in args)}]" if args else "")
            if "t" in t:
                return "tuple[" + ", ".join(show(a) for a in t["t"][1]) + "]"
            return " | ".join(show(m) for m in t["u"])

        def fail(sig, what, **detail):
            s = jdump(sig)
            if s not in seen:
                seen.add(s)
                fails.append(Failure(sig, what, detail=detail))

        # the generator table never holds None or a primitive type (GeneratorProvider.add)
        for which, table in (("heuristic", impl_out["table"]), ("random", aux["table_r"])):
            for t, _gens in table:
                if t == "N" or (isinstance(t, dict) and "i" in t and t["i"][0] in aux["prims"]):
                    fail({"clause": "table", "class": "none-or-primitive-key"},
                         f"{which} provider stores generators under {show(t)}", key=t)
        if not aux["same_as_cluster"]:
            fail({"clause": "table", "class": "analysis-differs-from-add"},
                 "the generator table built by the module analysis differs from `add` applied to the same accessibles")
        g = 0
        for k, (op, (_kind, (a, _b))) in enumerate(aux["ops"]):
            if op != "gens":
                continue
            ga = aux["gens"][g]
            g += 1
            T = pool[a]
            o = impl_out["out"][k]
            if isinstance(o["h"], dict) or isinstance(o["r"], dict):
                fail({"clause": "sound", "class": "raises"}, f"_get_generators_for({show(T)}) raised {o}", T=T)
                continue
            hset, rset = {x[0] for x in o["h"]}, set(o["r"])
            cur = {int(i): S for i, S in ga["cur"].items()}
            # clause 1: every generator that may be picked returns a type that may be a subtype of T — the type it
            # returns NOW (`generated_type()` when the request is made), whatever it was filed under earlier
            for prov, offered in (("heuristic", hset), ("random", rset)):
                for i in sorted(offered):
                    S = cur[i]
                    if ga["maybe"][jdump(S)] is not True:
                        kl = ("generic-args-invariance" if prov == "heuristic" and has_args(T) and has_args(S)
                              and ga["cov"][jdump(S)] else "other")
                        fail({"clause": "sound", "provider": prov, "class": kl},
                             f"{prov} provider offers generator {i} returning {show(S)} for requested {show(T)}, "
                             f"but is_maybe_subtype({show(S)}, {show(T)}) is {ga['maybe'][jdump(S)]}", T=T, S=S, gen=i)
            for prov, offered, picks in (("heuristic", hset, ga["picks_h"]), ("random", rset, ga["picks_r"])):
                for p in picks:
                    if isinstance(p, dict) or (p is None) != (not offered) or (p is not None and p not in offered):
                        fail({"clause": "sound", "provider": prov, "class": "picked-not-offered"},
                             f"{prov}.select_generator_for({show(T)}) returned {p}, offered set {sorted(offered)}", T=T)
            # clause 3 for the look-up: the distance handed out with a generator is a cached `subtype_distance` answer
            for i, d in o["h"]:
                ds = ga.get("dnow", {}).get(str(i))
                if ds is not None and d not in ds:
                    fail({"clause": "cache", "class": "provider-distance"},
                         f"requested {show(T)}: the heuristic provider hands out generator {i} (returning "
                         f"{show(cur[i])}) with stored subtype distance {d}, a recomputation on the type graph of that "
                         f"moment gives {ds}", T=T, gen=i, op=k)
            # clause 2: both providers offer the same set
            for i in sorted(hset ^ rset):
                S = cur[i]
                if i in hset:
                    kl = ("generic-args-invariance" if has_args(T) and has_args(S) and ga["cov"][jdump(S)]
                          else "other")
                    who = "only the heuristic provider"
                else:
                    who = "only the random provider"
                    if ga["prim"]:
                        kl = "primitive-request"
                    elif contains_none(T) or contains_tuple(T):
                        kl = "distance-undefined-for-none-or-tuple"
                    elif has_args(T) and has_args(S):
                        kl = "generic-args-compared-by-distance"
                    else:
                        kl = "other"
                fail({"clause": "same-set", "class": kl},
                     f"requested {show(T)}: {who} offers generator {i} returning {show(S)}", T=T, S=S, gen=i)
        # clause 3 along the history: every answer served equals a recomputation on the graph of that moment (the final
        # graph of the history up to there)
        q = 0
        for k, (op, (kind, (a, b))) in enumerate(aux["ops"]):
            if op != "q":
                continue
            rec = aux["rec_now"][q] if q < len(aux.get("rec_now", [])) else impl_out["out"][k]
            q += 1
            if impl_out["out"][k] != rec:
                args = (f"{names[a]}, {names[b]}" if kind == "subclass" else names[a] if kind in ("subs", "sups")
                        else f"{show(pool[a])}, {show(pool[b])}")
                n_e = sum(1 for o in aux["ops"][:k] if o[0] == "edge")
                fail({"clause": "cache", "class": kind},
                     f"operation {k} of the history (after {n_e} late edges): the cached {kind}({args}) answers "
                     f"{impl_out['out'][k]}, a recomputation on the type graph of that moment gives {rec}",
                     kind=kind, a=a, b=b, op=k)
        # clause 3: cached answers agree with a recomputation on the final type graph
        for (kind, (a, b)), cached, rec in zip(aux["final_q"], impl_out["final"], aux["recomputed"]):
            if cached != rec:
                args = (f"{names[a]}, {names[b]}" if kind == "subclass" else names[a] if kind in ("subs", "sups")
                        else f"{show(pool[a])}, {show(pool[b])}")
                fail({"clause": "cache", "class": kind},
                     f"after the history the cached {kind}({args}) answers {cached}, a recomputation on the final "
                     f"type graph gives {rec}", kind=kind, a=a, b=b)
        return fails

    def classify(self, case, impl_out):
        aux = impl_out["aux"]
        rich = False
        g = 0
        for k, (op, (_kind, (a, _b))) in enumerate(aux["ops"]):
            if op != "gens":
                continue
            g += 1
            o = impl_out["out"][k]
            T = aux["pool"][a]
            self.count("request:" + (T if isinstance(T, str) else next(iter(T))))
            if T != "A" and isinstance(o["r"], list) and len(o["r"]) >= 2:
                if len({jdump(aux["gens"][g - 1]["cur"][str(i)]) for i in o["r"]}) >= 2:
                    rich = True
        # a late edge that changed an answer: the first answer to some query differs from the recomputation on the
        # final graph (independent of whether the caches went stale)
        first = {}
        for k, (op, (kind, ab)) in enumerate(aux["ops"]):
            if op == "q":
                first.setdefault(jdump([kind, ab]), impl_out["out"][k])
        changed = any(first.get(jdump(q)) != rec for q, rec in zip(aux["final_q"], aux["recomputed"]))
        self.count("kind:rich-offer" if rich else "kind:no-rich-offer")
        self.count("kind:edge-changed-answer" if changed else "kind:no-answer-changed")
        return jdump([case["classes"], case["rets"], case["ops"]]) if rich and changed else None

    def witnesses(self):
        """Replay the known-finding witnesses (corpus case `known-witnesses.json`) on the implementation."""
        p = vcommon.ROOT / "harness" / "corpus" / "C26" / "known-witnesses.json"
        if not p.exists():
            return []
        case = json.loads(p.read_text())
        known = {jdump(k["signature"]) for k in vcommon.load_known(self.prop_id)}
        fs = [f for f in self.oracle(case, self.impl(case)) if jdump(f.signature) in known]
        for f in fs:
            f.case = case
        self.extra_coverage["known_witnesses_still_failing"] = sorted(jdump(f.signature) for f in fs)
        return fs


if __name__ == "__main__":
    run_main(C26)
