"""C03 — reported branch outcomes equal the branches actually taken (DESIGN §5 C03).

Three ties between the Lean model (`Model/BranchInstr.lean`, theorems in `Props/C03.lean`) and pynguin:

1. translator: `Generated/C03Jumps.lean` is rewritten on every run from the *live* version module
   (`get_branch_type`, `is_conditional_jump`, `Instr.is_cond_jump`, `NONE_BASED_JUMPS_MAPPING`,
   `COND_BRANCH_NAMES`, `COMPARE_NAMES`, opcode numbers); `label_agrees` / `dispatch_total` are
   `decide`d on that table, so a wrong table breaks the build.
2. structural correspondence (`kind: gen | stdlib | src`): one code object is instrumented by the real
   `InstrumentationTransformer` + `BranchCoverageInstrumentation`; raw blocks before, blocks after
   (inserted snippets decoded from the artificial instructions), CFG edge labels, predicate registry and
   `BranchGoalPool` are compared with what the model computes from the blocks before.
3. end-to-end (`kind: run | runsrc`): a generated module is executed uninstrumented under
   `sys.monitoring` (BRANCH, PY_START) and instrumented through pynguin's import hook on the same inputs;
   the oracle demands: goal (p, v) is reported covered  <=>  the interpreter followed the CFG edge labelled
   v out of p's node at least once; branch-less goal covered <=> code object entered; every conditional
   jump / for-loop has a predicate with both goals.  The recorded tracer callbacks are replayed on the
   model's trace (`Trace.update`, `branchCovered`) and compared with `BranchGoal.is_covered`.
   Every callback on the real `ExecutionTracer` is recorded with its nesting, how it ended (distances /
   the evaluation raised / dropped by `_early_return`) and the `enabled` flag after it; the model tracer
   (`TState.call`, Lean) replays the records and must accept them, end every callback with the same flag
   and arrive at the same coverage.  `kind: xrun` programs (generator `XGen` below) compare operands of
   mixed types, raising dunders (defined in an uninstrumented helper module) and almost-equal floats inside
   `try/except`, loops, callers that catch, and go on evaluating predicates afterwards.
4. tracer-level histories (`kind: cb`): callbacks on a real `ExecutionTracer` with values whose comparison /
   truth value raises or is a near miss, each followed by the operation the interpreter itself performs
   (ground truth = the outcome Python yields); `kind: hist`: histories of C04-good records with boundary
   distances (5e-324 … 1e-9 … inf) through the real `ExecutionTrace` and goals.  Same oracle: reported <=> taken.
"""
from __future__ import annotations

import dis
import hashlib
import math
import random
import sys
import types
from fractions import Fraction
from pathlib import Path

import instr as instr_helper
import progen
import vcommon
from vcommon import Failure, PropertyCheck, run_main

GEN_PATH = vcommon.LEAN / "PynguinModel" / "Generated" / "C03Jumps.lean"
MON_TOOL = 4
CMP_LEAN = {"LT": "lt", "LE": "le", "EQ": "eq", "NE": "ne", "GT": "gt", "GE": "ge", "IN": "isIn",
            "NOT_IN": "notIn", "IS": "is", "IS_NOT": "isNot"}
COMPARE_ARG = {"LT": 0, "LE": 1, "EQ": 2, "NE": 3, "GT": 4, "GE": 5}
#: conditional branch instructions of CPython 3.12 (independent of pynguin; used by the oracle only)
CPY_COND = {"POP_JUMP_IF_TRUE", "POP_JUMP_IF_FALSE", "POP_JUMP_IF_NONE", "POP_JUMP_IF_NOT_NONE", "FOR_ITER"}


# ---------------------------------------------------------------------------------------------
# translator
# ---------------------------------------------------------------------------------------------
def build_table() -> dict:
    import opcode

    from bytecode import Instr
    from bytecode.instr import UNSET

    from pynguin.instrumentation import version
    from pynguin.instrumentation.version import python3_10

    mapping = version.BranchCoverageInstrumentation.NONE_BASED_JUMPS_MAPPING
    ops = []
    for code, name in enumerate(opcode.opname):
        # opcodes that can occur in `co_code` / `Bytecode.from_code`: no unused slots, no pseudo-opcodes
        # (>= 256, compiler-internal), no INSTRUMENTED_* (they only exist in the interpreter's live copy)
        if name.startswith("<") or code >= 256 or name.startswith("INSTRUMENTED_"):
            continue
        ins = object.__new__(Instr)
        ins._name, ins._opcode, ins._arg = name, code, UNSET  # noqa: SLF001
        bt = version.get_branch_type(code)
        nc = mapping.get(name)
        ops.append({
            "opcode": code, "name": name,
            "branchType": bt,
            "versionCond": bool(version.is_conditional_jump(ins)),
            "bytecodeCond": bool(ins.is_cond_jump()),
            "noneCmp": None if nc is None else CMP_LEAN[nc.name],
            "inCondNames": name in version.COND_BRANCH_NAMES,
        })
    om = opcode.opmap
    unknown = [n for n in version.COND_BRANCH_NAMES if n not in om]
    if unknown:
        raise ValueError(f"COND_BRANCH_NAMES holds names that are no opcodes: {unknown}")
    return {
        "ops": ops,
        "forIter": om["FOR_ITER"], "endFor": om["END_FOR"], "checkExcMatch": om["CHECK_EXC_MATCH"],
        "compareOp": om["COMPARE_OP"], "isOp": om["IS_OP"], "containsOp": om["CONTAINS_OP"],
        "compareNames": [om[n] for n in python3_10.COMPARE_NAMES],
        "python": ".".join(map(str, sys.version_info[:3])),
    }


def render(table: dict) -> str:
    def ob(x):
        return "none" if x is None else f"some {'true' if x else 'false'}"

    def lb(x):
        return "true" if x else "false"

    rows = []
    for o in table["ops"]:
        nc = "none" if o["noneCmp"] is None else f"some .{o['noneCmp']}"
        rows.append(f"  ⟨{o['opcode']}, \"{o['name']}\", {ob(o['branchType'])}, {lb(o['versionCond'])}, "
                    f"{lb(o['bytecodeCond'])}, {nc}, {lb(o['inCondNames'])}⟩")
    body = ",\n".join(rows)
    digest = hashlib.sha256(vcommon.jdump(table).encode()).hexdigest()[:16]
    return f"""import PynguinModel.Model.BranchInstr
/-! GENERATED by harness/c03.py (`translate`) from the live `pynguin.instrumentation.version` module —
do not edit.  Python {table['python']}; table digest {digest}.
Columns: opcode, name, get_branch_type, version.is_conditional_jump, Instr.is_cond_jump,
NONE_BASED_JUMPS_MAPPING.get(name), name in COND_BRANCH_NAMES. -/
namespace PynguinModel.BranchInstr.Generated
open PynguinModel.BranchInstr

def ops : List OpInfo := [
{body}
]

def liveTable : Table :=
  {{ ops := ops, forIter := {table['forIter']}, endFor := {table['endFor']},
    checkExcMatch := {table['checkExcMatch']}, compareOp := {table['compareOp']}, isOp := {table['isOp']},
    containsOp := {table['containsOp']}, compareNames := {table['compareNames']} }}

end PynguinModel.BranchInstr.Generated
"""


# ---------------------------------------------------------------------------------------------
# exporting real blocks
# ---------------------------------------------------------------------------------------------
def _const(v):
    import enum
    if isinstance(v, enum.Enum):
        return ["enum", v.name]
    if v is None or isinstance(v, (bool, int, str)):
        return ["c", v]
    return ["obj", type(v).__name__]


def decode_run(run) -> list:
    """Decode a run of ArtificialInstr into snippet entries (Lean `Entry.art`), 3.12 shape:
    LOAD_CONST tracer; LOAD_ATTR (True, method); args (LOAD_CONST v | COPY k); CALL n; POP_TOP."""
    out, i = [], 0
    other = lambda: [{"art": {"s": {"other": [f"{x.name} {x.arg!r}"[:60] for x in run]}}}]  # noqa: E731
    while i < len(run):
        if not (i + 3 < len(run) and run[i].name == "LOAD_CONST" and run[i + 1].name == "LOAD_ATTR"
                and isinstance(run[i + 1].arg, tuple) and run[i + 1].arg[0] is True):
            return other()
        if type(run[i].arg).__name__ != "InstrumentationExecutionTracer":
            return other()
        method = run[i + 1].arg[1]
        i += 2
        args = []
        while i < len(run) and run[i].name in ("LOAD_CONST", "COPY"):
            if run[i].name == "LOAD_CONST":
                args.append(_const(run[i].arg))
            else:
                args.append(["s", run[i].arg - len(args) - 2])
            i += 1
        if not (i + 1 < len(run) and run[i].name == "CALL" and run[i].arg == len(args)
                and run[i + 1].name == "POP_TOP"):
            return other()
        i += 2
        out.append({"art": {"s": snippet(method, args)}})
    return out


def snippet(method: str, a: list) -> dict:
    def pid(x):
        return x[0] == "c" and isinstance(x[1], int) and not isinstance(x[1], bool)

    if method == "executed_code_object" and len(a) == 1 and pid(a[0]):
        return {"codeObject": {"id": a[0][1]}}
    if method == "executed_bool_predicate" and len(a) == 2 and pid(a[1]):
        if a[0] == ["s", 1]:
            return {"boolPred": {"pid": a[1][1]}}
        if a[0][0] == "c" and isinstance(a[0][1], bool):
            return {"forPred": {"v": a[0][1], "pid": a[1][1]}}
    if method == "executed_compare_predicate" and len(a) == 4 and pid(a[2]) and a[3][0] == "enum" \
            and a[3][1] in CMP_LEAN:
        if a[0] == ["s", 2] and a[1] == ["s", 1]:
            return {"cmpPred": {"pid": a[2][1], "op": CMP_LEAN[a[3][1]]}}
        if a[0] == ["s", 1] and a[1] == ["c", None]:
            return {"nonePred": {"pid": a[2][1], "op": CMP_LEAN[a[3][1]]}}
    if method == "executed_exception_match" and len(a) == 3 and a[0] == ["s", 2] and a[1] == ["s", 1] and pid(a[2]):
        return {"excPred": {"pid": a[2][1]}}
    return {"other": [method, a]}


def export_block(block, index_of) -> dict:
    from bytecode import Instr
    from bytecode.instr import TryBegin

    from pynguin.instrumentation.controlflow import ArtificialInstr

    entries, run = [], []
    for x in list.__iter__(block):
        if isinstance(x, ArtificialInstr):
            run.append(x)
            continue
        if run:
            entries += decode_run(run)
            run = []
        if isinstance(x, Instr):
            arg = 0
            if x.name == "COMPARE_OP":
                arg = COMPARE_ARG.get(getattr(x.arg, "name", None), 99)
            elif x.name in ("IS_OP", "CONTAINS_OP") and isinstance(x.arg, int):
                arg = x.arg
            entries.append({"orig": {"i": {"opc": x.opcode, "arg": arg}}})
        elif isinstance(x, TryBegin):
            entries.append({"pseudo": {"tryTarget": index_of.get(id(x.target))}})
        else:
            entries.append({"pseudo": {"tryTarget": None}})
    if run:
        entries += decode_run(run)
    nb = block.next_block
    last = block.get_last_non_artificial_instruction()
    tg = last.arg if last is not None and last.has_jump() else None
    return {"entries": entries, "next": None if nb is None else index_of[id(nb)],
            "target": None if tg is None else index_of[id(tg)], "cover": True}


def strip_nested(code: types.CodeType) -> types.CodeType:
    """Drop nested code objects (instrumented in their own cases) and detach the code from its source
    file: with a readable file pynguin applies its exclusions (`if __name__ == "__main__":` blocks,
    `# pragma: no cover`), which are C08's subject; without one every line is to be covered."""
    return code.replace(co_consts=tuple(None if isinstance(c, types.CodeType) else c for c in code.co_consts),
                        co_filename="<verif-c03-no-source>")


def export_code_object(code: types.CodeType) -> dict:
    """Instrument one code object with the real transformer and export before / after."""
    from bytecode import Bytecode

    from pynguin.ga.coveragegoals import BranchGoalPool
    from pynguin.instrumentation import controlflow as cf
    from pynguin.instrumentation import version
    from pynguin.instrumentation.tracer import SubjectProperties
    from pynguin.instrumentation.transformer import InstrumentationTransformer

    flat = strip_nested(code)
    cfg0 = cf.CFG.from_bytecode(version.add_for_loop_no_yield_nodes(Bytecode.from_code(flat)))
    blocks0 = list(cfg0.bytecode_cfg)
    ix0 = {id(b): i for i, b in enumerate(blocks0)}
    before = [export_block(b, ix0) for b in blocks0]
    live = sorted(n.index for n in cfg0.basic_block_nodes)
    edges = {}
    for n in cfg0.basic_block_nodes:
        es = []
        for _, tnode, data in cfg0.graph.out_edges(n, data=True):
            if isinstance(tnode, cf.BasicBlockNode):
                es.append([tnode.index, data.get(cf.EDGE_DATA_BRANCH_VALUE)])
        edges[n.index] = sorted(es, key=lambda e: e[0])
    sp = SubjectProperties()
    transformer = InstrumentationTransformer(sp, [version.BranchCoverageInstrumentation(sp)])
    try:
        transformer.instrument_code(flat)
    except Exception as e:  # noqa: BLE001 - the real instrumentation failed: that is an observation
        return {"before": before, "live": live, "edges": edges, "err": type(e).__name__, "msg": str(e)[:200]}
    (coid, meta), = sp.existing_code_objects.items()
    blocks1 = list(meta.cfg.bytecode_cfg)
    ix1 = {id(b): i for i, b in enumerate(blocks1)}
    after = [export_block(b, ix1) for b in blocks1]
    order = [n.index for n in meta.cfg.basic_block_nodes]
    preds = []
    for pid, pm in sorted(sp.existing_predicates.items()):
        assert pid == len(preds)
        preds.append(pm.node.index)
    pool = BranchGoalPool(sp)
    return {
        "before": before, "after": after, "live": live, "edges": edges, "order": order, "coid": coid,
        "preds": preds, "err": None,
        "pool": {"branch": [[g.predicate_id, g.value] for g in pool.branch_goals],
                 "branchless": [g.code_object_id for g in pool.branchless_code_object_goals]},
    }


# ---------------------------------------------------------------------------------------------
# values whose comparison / truth value / membership test raises or is a near miss
# ---------------------------------------------------------------------------------------------
VALS_MODULE = "verif_c03_vals"
#: Source of an *uninstrumented* helper module the generated programs import.  Operator code that raises
#: must live outside the module under test: the tracer evaluates a comparison itself before the program
#: does, so a dunder of the module under test that raises is entered only while the tracer is disabled
#: (design limit of the tracer, see design_notes/C03.md) — the oracle would (rightly) report it.
VALS_SRC = '''
class Unorderable:
    """ordering raises TypeError (like unrelated builtins), ==/!= raise ValueError, the truth value raises
    ValueError, membership raises KeyError; all pure"""
    def __init__(self, k):
        self.k = k
    def __lt__(self, other):
        raise TypeError("unorderable")
    __le__ = __gt__ = __ge__ = __lt__
    def __eq__(self, other):
        raise ValueError("no equality")
    __ne__ = __eq__
    __hash__ = None
    def __bool__(self):
        raise ValueError("no truth value")
    def __contains__(self, item):
        raise KeyError(item)
    def __repr__(self):
        return "Unorderable(%d)" % self.k

class Weird:
    """comparisons never raise: ordering and equality by k; falsy when k == 0"""
    def __init__(self, k):
        self.k = k
    def __lt__(self, other):
        return self.k < getattr(other, "k", 0)
    def __le__(self, other):
        return self.k <= getattr(other, "k", 0)
    def __eq__(self, other):
        return self.k == getattr(other, "k", None)
    def __hash__(self):
        return hash(self.k)
    def __bool__(self):
        return self.k != 0
    def __repr__(self):
        return "Weird(%d)" % self.k

MIXED = [0, 1, -2, "a", "b", "", None, 2.5, (1, 2), [1], {"a": 1}, Unorderable(1), 5, True, b"x", 1j,
         Weird(0), Weird(3), {1, 2}, 10 ** 400]
NEAR = [0.1 + 0.2, 0.3, 1.0, 1.0 + 1e-12, 1.0 - 1e-12, 2.5, 2.5 - 1e-10, 1e-300, 5e-324, 0.0, -0.0,
        -1e-300, 1e-9, 1e-10, 3, 1, 0, 2 ** 53 + 1, float(2 ** 53), float("inf")]
BOTH = MIXED + NEAR
'''
#: values a call can pass directly (they survive JSON unchanged)
DIRECT_MIXED = [0, 1, -2, "a", "b", "", None, 2.5, [1], [1, 2], {"a": 1}, True, 5, 10 ** 30]
DIRECT_NEAR = [0.1 + 0.2, 0.3, 1.0, 1.0 + 1e-12, 1.0 - 1e-12, 2.5, 2.5 - 1e-10, 1e-300, 5e-324, 0.0, -0.0,
               -1e-300, 1e-9, 1e-10, 3, 1, 0]


def vals_module():
    """The helper module, created once per process and registered in `sys.modules` (never instrumented:
    pynguin's import hook only instruments the module it is installed for)."""
    mod = sys.modules.get(VALS_MODULE)
    if mod is None:
        mod = types.ModuleType(VALS_MODULE)
        exec(compile(VALS_SRC, "<verif-c03-vals>", "exec"), mod.__dict__)  # noqa: S102
        sys.modules[VALS_MODULE] = mod
    return mod


class CallRecorder:
    """Records every callback made on the real `ExecutionTracer` (patched at class level, outside the
    `_early_return` wrapper): nesting, how it ended, and — for top-level callbacks — the `enabled` flag
    right after it.  JSON shape = the Lean driver's `CallJ`."""

    METHODS = {
        "executed_code_object": ("enter", 0, "code_object_id"),
        "executed_compare_predicate": ("pred", 2, "predicate"),
        "executed_bool_predicate": ("pred", 1, "predicate"),
        "executed_in_presence_predicate": ("pred", 2, "predicate"),
        "executed_exception_match": ("pred", 2, "predicate"),
    }

    def __init__(self):
        self.top: list = []
        self.after: list = []
        self.stack: list = []
        self.orphan_updates = 0
        self._saved: dict = {}

    def install(self):
        from pynguin.instrumentation.tracer import ExecutionTrace, ExecutionTracer

        rec = self
        for name, (kind, pos, kw) in self.METHODS.items():
            orig = getattr(ExecutionTracer, name)
            self._saved[name] = orig

            def wrapper(tracer, *a, _orig=orig, _kind=kind, _pos=pos, _kw=kw, **k):
                r = {"kind": _kind, "id": a[_pos] if len(a) > _pos else k[_kw], "body": [], "upd": None,
                     "raised": False}
                is_top = not rec.stack
                parent = rec.top if is_top else rec.stack[-1]["body"]
                rec.stack.append(r)
                try:
                    return _orig(tracer, *a, **k)
                except BaseException:
                    r["raised"] = True
                    raise
                finally:
                    rec.stack.pop()
                    parent.append(r)
                    if is_top:
                        rec.after.append(not tracer.is_disabled())

            setattr(ExecutionTracer, name, wrapper)
        orig_update = ExecutionTrace.update_predicate_distances
        self._saved["update"] = orig_update

        def rec_update(trace, distance_true, distance_false, predicate):
            if rec.stack:
                rec.stack[-1]["upd"] = (distance_true, distance_false)
            else:
                rec.orphan_updates += 1
            return orig_update(trace, distance_true, distance_false, predicate)

        ExecutionTrace.update_predicate_distances = rec_update

    def uninstall(self):
        from pynguin.instrumentation.tracer import ExecutionTrace, ExecutionTracer

        for name in self.METHODS:
            if name in self._saved:
                setattr(ExecutionTracer, name, self._saved[name])
        if "update" in self._saved:
            ExecutionTrace.update_predicate_distances = self._saved["update"]
        self._saved = {}

    @staticmethod
    def to_json(r) -> dict:
        if r["kind"] == "enter":
            return {"enter": {"coid": r["id"]}}
        if r["raised"]:
            res = "raised"
        elif r["upd"] is not None:
            res = {"ok": {"dT": num_json(r["upd"][0]), "dF": num_json(r["upd"][1])}}
        else:
            res = "skipped"
        return {"pred": {"p": r["id"], "body": [CallRecorder.to_json(b) for b in r["body"]], "res": res}}

    def calls_json(self) -> list:
        return [self.to_json(r) for r in self.top]

    def stats(self) -> dict:
        out = {"ok": 0, "raised": 0, "skipped": 0, "nested": 0}

        def walk(rs, depth):
            for r in rs:
                if r["kind"] == "pred":
                    out["raised" if r["raised"] else "ok" if r["upd"] is not None else "skipped"] += 1
                if depth:
                    out["nested"] += 1
                walk(r["body"], depth + 1)

        walk(self.top, 0)
        return out


class XGen:
    """Small programs whose predicates compare values of mixed types / almost-equal floats: comparisons that
    raise and are caught inside the function, inside a loop, by a caller — or not at all — followed by
    further predicates.  `style` table: the int parameters select values from the helper module's tables
    (plus objects of an in-module class whose operators never raise, so that callbacks nest);
    `style` direct: the parameters are the operands."""

    HANDLERS = ["TypeError", "ValueError", "KeyError", "(TypeError, ValueError)", "Exception", "LookupError",
                "(KeyError, TypeError)", "ArithmeticError", "BaseException"]
    CMPS = ["<", "<=", ">", ">=", "==", "!=", "<", "<=", "==", "in", "not in", "is", "is not"]

    def __init__(self, rng: random.Random, theme: str, style: str):
        self.rng, self.theme, self.style = rng, theme, style
        self.tmp = 0

    def lit(self):
        pool = {"mixed": ["1", "'a'", "None", "2.5", "(1, 2)", "5"],
                "near": ["0.3", "1.0", "0.0", "2.5", "1e-300", "(0.1 + 0.2)"],
                "both": ["1", "'a'", "None", "0.3", "1.0", "0.0"]}[self.theme]
        return self.rng.choice(pool)

    def opnd(self):
        return self.rng.choice(["x", "y", "z", "x", "y"]) if self.rng.random() < 0.85 else self.lit()

    def cond(self, depth=0):
        r = self.rng
        k = r.random()
        if k < 0.5:
            op = r.choice(self.CMPS)
            if op in ("is", "is not"):  # identity only between variables (a literal operand is a SyntaxWarning)
                return f"{r.choice(['x', 'y', 'z'])} {op} {r.choice(['x', 'y', 'z'])}"
            return f"{self.opnd()} {op} {self.opnd()}"
        if k < 0.6:
            return (f"{self.opnd()} {r.choice(['<', '<=', '=='])} {self.opnd()} "
                    f"{r.choice(['<', '<=', '!='])} {self.opnd()}")
        if k < 0.72:
            return f"{r.choice(['', 'not '])}{r.choice(['x', 'y', 'z'])}"
        if k < 0.82 and depth < 1:
            return f"({self.cond(depth + 1)}) {r.choice(['and', 'or'])} ({self.cond(depth + 1)})"
        if k < 0.9:
            return f"{r.choice(['x', 'y', 'z'])} is {r.choice(['', 'not '])}None"
        return f"{self.opnd()} - {self.opnd()} {r.choice(['==', '<=', '>'])} 0"

    def plain(self):
        r = self.rng
        return r.choice([f"r > {r.randint(0, 40)}", "r % 2 == 0", "not r", "r", f"r != {r.randint(0, 9)}",
                         f"r < {r.randint(1, 60)} and r != 3", f"n == {r.randint(0, 3)}"])

    def inc(self):
        return f"r += {self.rng.choice([1, 2, 4, 8, 16, 32])}"

    @staticmethod
    def ind(lines):
        return ["    " + l for l in lines]

    def body(self, depth, in_loop, n=None):
        out = []
        for _ in range(n if n is not None else self.rng.choice([1, 1, 2])):
            out += self.stmt(depth, in_loop)
        return out

    def branch(self, depth, in_loop):
        r = self.rng
        if depth < 1 and r.random() < 0.15:
            return self.body(depth + 1, in_loop, 1)
        if r.random() < 0.12:
            return [self.inc(), "return r"]
        if in_loop and r.random() < 0.15:
            return [self.inc(), r.choice(["break", "continue"])]
        return [self.inc()]

    def if_stmt(self, cond, depth, in_loop):
        r = self.rng
        out = [f"if {cond}:"] + self.ind(self.branch(depth, in_loop))
        k = r.random()
        if k < 0.25:
            out += [f"elif {self.cond()}:"] + self.ind(self.branch(depth, in_loop))
        if k < 0.6:
            out += ["else:"] + self.ind(self.branch(depth, in_loop))
        return out

    def handlers(self, depth, in_loop):
        r = self.rng
        out = [f"except {r.choice(self.HANDLERS)}:"] + self.ind(self.branch(depth, in_loop))
        if r.random() < 0.4:
            out += [f"except {r.choice(self.HANDLERS)} as err:"] + self.ind([self.inc()])
        if r.random() < 0.2:
            out += ["else:"] + self.ind([self.inc()])
        if r.random() < 0.2:
            out += ["finally:"] + self.ind(["r += 1"])
        return out

    def guarded(self, inner, depth, in_loop):
        return ["try:"] + self.ind(inner) + self.handlers(depth, in_loop)

    def stmt(self, depth, in_loop):
        r = self.rng
        kinds = ["guard"] * 5 + ["plain"] * 3 + ["bare", "ternary", "assert", "tryfinally"]
        if depth < 1:
            kinds += ["for", "for", "while", "comp", "nested", "reselect"]
            if self.style == "table":
                kinds += ["call"]
        k = r.choice(kinds)
        if k == "guard":
            inner = self.if_stmt(self.cond(), depth, in_loop)
            if r.random() < 0.3:
                inner += self.if_stmt(self.plain(), depth, in_loop)
            return self.guarded(inner, depth, in_loop)
        if k == "plain":
            return self.if_stmt(self.plain(), depth, in_loop)
        if k == "bare":
            return self.if_stmt(self.cond(), depth, in_loop)
        if k == "ternary":
            line = f"r += (1 if {self.cond()} else 2)"
            return self.guarded([line], depth, in_loop) if r.random() < 0.7 else [line]
        if k == "assert":
            return self.guarded([f"assert {self.cond()}", self.inc()], depth, in_loop)
        if k == "tryfinally":
            return ["try:"] + self.ind(self.if_stmt(self.cond(), depth + 1, in_loop)) + ["finally:", "    r += 1"]
        if k == "for":
            self.tmp += 1
            i = f"i{self.tmp}"
            sel = [f"x = T[(a + {i}) % N]"] if self.style == "table" else ["x, y = y, x"]
            out = [f"for {i} in range({r.randint(1, 3)}):"] + self.ind(
                ["n += 1"] + sel + self.body(depth + 1, True) + self.if_stmt(self.plain(), depth + 1, True))
            if r.random() < 0.3:
                out += ["else:"] + self.ind([self.inc()])
            return out
        if k == "while":
            self.tmp += 1
            w = f"w{self.tmp}"
            loop = [f"while {w} < {r.randint(1, 3)} and ({self.cond()}):", f"    {w} += 1"] + self.ind(
                self.body(depth + 1, True, 1))
            return [f"{w} = 0"] + self.guarded(loop, depth, in_loop)
        if k == "comp":
            src = "T[:6]" if self.style == "table" else "(x, y, z, 1)"
            line = f"r += len([e for e in {src} if e {r.choice(['<', '==', '<=', '!='])} {self.opnd()}])"
            return self.guarded([line], depth, in_loop) if r.random() < 0.8 else [line]
        if k == "nested":
            inner = ["try:"] + self.ind(self.if_stmt(self.cond(), depth + 1, in_loop)) + [
                f"except {r.choice(['KeyError', 'ZeroDivisionError', 'ValueError', 'TypeError'])}:", "    r += 64"]
            return self.guarded(inner + self.if_stmt(self.plain(), depth + 1, in_loop), depth, in_loop)
        if k == "reselect":
            v = r.choice(["x", "y", "z"])
            return [f"{v} = T[(r + c) % N]"] if self.style == "table" else [f"{v} = {self.lit()}"]
        if k == "call":
            line = f"r += h0({self.opnd()}, {self.opnd()})"
            return self.guarded([line], depth, in_loop) if r.random() < 0.8 else [line]
        raise AssertionError(k)

    def module(self, n_funcs: int) -> str:
        r = self.rng
        table = {"mixed": "MIXED", "near": "NEAR", "both": "BOTH"}[self.theme]
        lines = [f"from {VALS_MODULE} import {table}", "", "",
                 "class Box:", "    def __init__(self, k):", "        self.k = k",
                 "    def __lt__(self, other):",
                 "        if isinstance(other, Box):", "            return self.k < other.k",
                 "        return False",
                 "    def __eq__(self, other):", "        return isinstance(other, Box) and self.k == other.k",
                 "    def __hash__(self):", "        return self.k",
                 "    def __bool__(self):", "        if self.k > 1:", "            return True",
                 "        return False", "", "",
                 f"T = list({table}) + [Box(1), Box(2), Box(2)]", "N = len(T)", "", "",
                 "def h0(p, q):", f"    if p {r.choice(['<', '<=', '==', 'in'])} q:", "        return 1",
                 "    if not q:", "        return 2", "    return 3", "", ""]
        for i in range(n_funcs):
            pre = (["x = T[a % N]", "y = T[b % N]", "z = T[c % N]"] if self.style == "table"
                   else ["x, y, z = a, b, c"])
            bodyl = (pre + ["r = 0", "n = 0"] + self.body(0, False, r.randint(2, 3))
                     + self.if_stmt(self.plain(), 0, False) + ["return r"])
            lines += [f"def f{i}(a, b, c):"] + self.ind(bodyl) + ["", ""]
        # a caller that catches whatever the callee lets through and goes on
        arg = "a + k" if self.style == "table" else "a"
        handler = r.choice(["Exception", "TypeError", "(TypeError, ValueError, KeyError)"])
        lines += ["def f9(a, b, c):", "    r = 0", "    for k in range(2):", "        try:",
                  f"            r += f0({arg}, b, c)", f"        except {handler}:",
                  "            r += 100", "        if r > 50:", "            r -= 1", "        else:",
                  "            r += 3", "    return r", ""]
        return "\n".join(lines) + "\n"


XRUN_TABLE_SIZE = {"mixed": 23, "near": 23, "both": 43}


def gen_xrun(seed: int):
    rng = random.Random(seed)
    theme = rng.choice(["mixed", "mixed", "near", "near", "both"])
    style = rng.choice(["table", "table", "direct"])
    nf = rng.choice([1, 1, 1, 2])
    src = XGen(rng, theme, style).module(nf)
    n_tab = XRUN_TABLE_SIZE[theme]
    direct = {"mixed": DIRECT_MIXED, "near": DIRECT_NEAR, "both": DIRECT_MIXED + DIRECT_NEAR}[theme]

    def args():
        if style == "table":
            return [rng.randrange(2 * n_tab) for _ in range(3)]
        return [rng.choice(direct) for _ in range(3)]

    calls = []
    for i in range(nf):
        for _ in range(rng.randint(2, 4)):
            calls.append(["f", f"f{i}", args()])
    for _ in range(rng.randint(1, 2)):
        calls.append(["f", "f9", args()])
    return src, calls


# ---------------------------------------------------------------------------------------------
# end-to-end runs
# ---------------------------------------------------------------------------------------------
def code_keys(code):
    out, seen = [], {}
    for c in progen.all_code_objects(code):
        k = (c.co_qualname, c.co_firstlineno)
        n = seen.get(k, 0)
        seen[k] = n + 1
        out.append((f"{k[0]}@{k[1]}#{n}", c))
    return out


def run_call(ns, call):
    get = ns.get if isinstance(ns, dict) else (lambda n: getattr(ns, n, None))
    try:
        kind, name, args = call
        if kind == "f":
            return ["ok", repr(get(name)(*args))]
        if kind == "g":
            return ["ok", repr(list(get(name)(*args)))]
        if kind == "m":
            o = get(name)(args[0])
            return ["ok", repr((o.method(*args), o.get()))]
        raise ValueError(kind)
    except Exception as e:  # noqa: BLE001 - behaviour of the generated program
        return ["exc", type(e).__name__]


def ground_truth(src: str, calls, filename: str):
    """Run the uninstrumented program under sys.monitoring; returns (code, branches, entered, results)."""
    mon = sys.monitoring
    code = compile(src, filename, "exec")
    keys = {id(c): k for k, c in code_keys(code)}
    branches: dict = {}
    entered: set = set()

    def on_branch(co, src_off, dst_off):
        k = keys.get(id(co))
        if k is None:
            return mon.DISABLE
        branches.setdefault(k, {}).setdefault(src_off, set()).add(dst_off)
        return None

    def on_start(co, _off):
        k = keys.get(id(co))
        if k is None:
            return mon.DISABLE
        entered.add(k)
        return None

    mon.use_tool_id(MON_TOOL, "verif-c03")
    try:
        mon.register_callback(MON_TOOL, mon.events.BRANCH, on_branch)
        mon.register_callback(MON_TOOL, mon.events.PY_START, on_start)
        mon.set_events(MON_TOOL, mon.events.BRANCH | mon.events.PY_START)
        ns = {"__name__": "verif_c03_plain"}
        exec(code, ns)  # noqa: S102 - generated program
        results = [run_call(ns, c) for c in calls]
    finally:
        mon.set_events(MON_TOOL, 0)
        mon.register_callback(MON_TOOL, mon.events.BRANCH, None)
        mon.register_callback(MON_TOOL, mon.events.PY_START, None)
        mon.free_tool_id(MON_TOOL)
    return code, branches, entered, results


def cond_jumps(code):
    ins = list(dis.get_instructions(code))
    out = []
    for i, x in enumerate(ins):
        if x.opname in CPY_COND:
            out.append({"off": x.offset, "op": x.opname, "fall": ins[i + 1].offset if i + 1 < len(ins) else None})
    return out


def num_json(x: float) -> dict:
    # (`n`, `d` are always present: the driver's derived parser does not fill in defaults)
    if isinstance(x, float) and math.isnan(x):
        return {"k": "nan", "n": 0, "d": 1}
    if x == math.inf:
        return {"k": "inf", "n": 0, "d": 1}
    if x == -math.inf:
        return {"k": "ninf", "n": 0, "d": 1}
    fr = Fraction(x)
    return {"k": "fin", "n": fr.numerator, "d": fr.denominator}


def run_program(src: str, calls) -> dict:
    """Instrumented run through the real import hook + uninstrumented monitored run."""
    from pynguin.ga.coveragegoals import BranchGoalPool
    from pynguin.instrumentation import controlflow as cf
    from pynguin.testcase.execution import ExecutionResult

    vals_module()
    rec = CallRecorder()
    try:
        rec.install()
        mod, sp, tmp = instr_helper.instrument_module(src)
    except Exception as e:  # noqa: BLE001 - instrumentation/import failed: an observation
        rec.uninstall()
        return {"err": type(e).__name__, "msg": str(e)[:300]}
    try:
        tracer = sp.instrumentation_tracer.tracer
        with sp.instrumentation_tracer:
            res_instr = [run_call(mod, c) for c in calls]
        trace = tracer.get_trace()
        final_enabled = not tracer.is_disabled()
        rec.uninstall()
        code, branches, entered, res_plain = ground_truth(src, calls, mod.__file__)
        result = ExecutionResult()
        result.execution_trace = trace
        pool = BranchGoalPool(sp)
        # code-object keys on both sides
        okeys, seen = {}, {}
        for cid, meta in sorted(sp.existing_code_objects.items()):
            c = meta.code_object
            k = (c.co_qualname, c.co_firstlineno)
            n = seen.get(k, 0)
            seen[k] = n + 1
            okeys[cid] = f"{k[0]}@{k[1]}#{n}"
        plain = dict(code_keys(code))
        jumps = {k: cond_jumps(c) for k, c in plain.items()}
        preds = []
        for pid, pm in sorted(sp.existing_predicates.items()):
            meta = sp.existing_code_objects[pm.code_object_id]
            blocks = list(meta.cfg.bytecode_cfg)
            kth, found = 0, None
            for b in blocks:
                last = b.get_last_non_artificial_instruction()
                is_cond = last is not None and last.name in CPY_COND
                if b is pm.node.basic_block:
                    found = kth if is_cond else None
                    break
                kth += int(is_cond)
            labels = {}
            for _, tnode, data in meta.cfg.graph.out_edges(pm.node, data=True):
                if isinstance(tnode, cf.BasicBlockNode):
                    labels[tnode.index] = data.get(cf.EDGE_DATA_BRANCH_VALUE)
            bcfg = meta.cfg.bytecode_cfg
            tb, nb = pm.node.basic_block.get_jump(), pm.node.basic_block.next_block
            goals = {v: [g.is_covered(result) for g in pool.branch_goals
                         if g.predicate_id == pid and g.value is v] for v in (True, False)}
            preds.append({
                "pid": pid, "co": okeys[pm.code_object_id], "kth": found,
                "targetLabel": None if tb is None else labels.get(bcfg.get_block_index(tb)),
                "nextLabel": None if nb is None else labels.get(bcfg.get_block_index(nb)),
                "sameSucc": tb is nb,
                "covered": {"true": goals[True], "false": goals[False]},
            })
        pred_cos = {pm.code_object_id for pm in sp.existing_predicates.values()}
        # conditional jumps sitting in blocks that pynguin's CFG dropped as dead code (never executable)
        dead = {}
        for cid, meta in sp.existing_code_objects.items():
            live_blocks = {id(n.basic_block) for n in meta.cfg.basic_block_nodes}
            kth = 0
            for b in meta.cfg.bytecode_cfg:
                last = b.get_last_non_artificial_instruction()
                if last is not None and last.name in CPY_COND:
                    if id(b) not in live_blocks:
                        dead.setdefault(okeys[cid], []).append(kth)
                    kth += 1
        return {
            "err": None,
            "same_behaviour": res_instr == res_plain, "res_instr": res_instr, "res_plain": res_plain,
            "cos": sorted(okeys.values()), "plain_cos": sorted(plain),
            "jumps": jumps, "dead_jumps": dead,
            "branches": {k: {str(o): sorted(d) for o, d in v.items()} for k, v in branches.items()},
            "entered": sorted(entered),
            "preds": preds,
            "branchless": [{"co": okeys[g.code_object_id], "coid": g.code_object_id,
                            "covered": g.is_covered(result)} for g in pool.branchless_code_object_goals],
            "cos_with_pred": sorted(okeys[c] for c in pred_cos),
            "coids": {okeys[c]: c for c in okeys},
            "executed_cos": sorted(okeys[c] for c in trace.executed_code_objects),
            "calls": rec.calls_json(), "after": rec.after, "final_enabled": final_enabled,
            "callstats": rec.stats(), "orphan_updates": rec.orphan_updates,
            "npreds": len(sp.existing_predicates),
            "executed_preds": sorted(trace.executed_predicates),
        }
    finally:
        rec.uninstall()
        instr_helper.cleanup(tmp, mod)


class RunWorker:
    """`run_program` in a forked worker process (forked once, fed through pipes): a wrong instrumentation
    can crash the interpreter (a tracer call entered in the middle corrupts the value stack); that must
    become an observation on the offending program, not a dead check."""

    def __init__(self):
        self.pid = None
        self.to_child = None
        self.from_child = None

    def _start(self):
        import os
        # import everything the worker needs in the parent, once
        import pynguin.analyses.constants  # noqa: F401
        import pynguin.configuration  # noqa: F401
        import pynguin.ga.coveragegoals  # noqa: F401
        import pynguin.instrumentation.machinery  # noqa: F401
        import pynguin.testcase.execution  # noqa: F401

        p2c_r, p2c_w = os.pipe()
        c2p_r, c2p_w = os.pipe()
        pid = os.fork()
        if pid == 0:  # worker
            code = 0
            try:
                import json
                import signal
                os.close(p2c_w)
                os.close(c2p_r)
                fin, fout = os.fdopen(p2c_r, "r"), os.fdopen(c2p_w, "w")
                for line in fin:
                    req = json.loads(line)
                    signal.alarm(300)
                    out = run_program(req["src"], req["calls"])
                    signal.alarm(0)
                    fout.write(json.dumps(out) + "\n")
                    fout.flush()
            except BaseException:  # noqa: BLE001 - reported to the parent as adapter failure
                import traceback
                traceback.print_exc()
                code = 3
            finally:
                os._exit(code)
        os.close(p2c_r)
        os.close(c2p_w)
        self.pid, self.to_child, self.from_child = pid, os.fdopen(p2c_w, "w"), os.fdopen(c2p_r, "r")

    def run(self, src: str, calls) -> dict:
        import json
        import os
        if self.pid is None:
            self._start()
        try:
            self.to_child.write(json.dumps({"src": src, "calls": calls}) + "\n")
            self.to_child.flush()
            line = self.from_child.readline()
        except BrokenPipeError:
            line = ""
        if line:
            return json.loads(line)
        _, status = os.waitpid(self.pid, 0)
        self.close(wait=False)
        if os.WIFSIGNALED(status):
            return {"err": "InterpreterCrash", "msg": f"the instrumented run died with signal {os.WTERMSIG(status)}"}
        raise RuntimeError(f"end-to-end adapter failed in the worker (exit {os.WEXITSTATUS(status)})")

    def close(self, wait=True):
        import os
        if self.pid is None:
            return
        for f in (self.to_child, self.from_child):
            try:
                f.close()
            except OSError:
                pass
        if wait:
            os.waitpid(self.pid, 0)
        self.pid = None


_WORKER = RunWorker()
import atexit  # noqa: E402
atexit.register(_WORKER.close)


def run_program_forked(src: str, calls) -> dict:
    return _WORKER.run(src, calls)


# ---------------------------------------------------------------------------------------------
# tracer-level histories (no instrumentation): callbacks on a real ExecutionTracer / records on a real trace
# ---------------------------------------------------------------------------------------------
CB_NPREDS = 48          # predicate ids 0..3 are the program's, 40..43 belong to the simulated operator code
CB_COIDS = [0, 1, 2, 3, 50, 51, 52, 53]
CB_OPS = ["LT", "LE", "EQ", "NE", "GT", "GE", "IN", "NOT_IN", "IS", "IS_NOT"]
CB_ERRS = ["KeyError('k')", "ValueError()", "TypeError()", "ZeroDivisionError()", "IndexError()", "OverflowError()"]
CB_EXCS = ["KeyError", "LookupError", "(TypeError, ValueError)", "Exception", "ArithmeticError", "OSError",
           "BaseException"]
#: index clusters of `BOTH` (= MIXED + NEAR, NEAR starts at 20) holding almost-equal values
CB_NEAR_CLUSTERS = [[20, 21], [22, 23, 24], [25, 26], [27, 28, 29, 30, 31, 32, 33, 36], [37, 38], [35, 22, 1, 13]]


def _py_ops():
    import operator
    return {"LT": operator.lt, "LE": operator.le, "EQ": operator.eq, "NE": operator.ne, "GT": operator.gt,
            "GE": operator.ge, "IN": lambda a, b: a in b, "NOT_IN": lambda a, b: a not in b,
            "IS": operator.is_, "IS_NOT": operator.is_not}


def run_callbacks(evs: list) -> dict:
    """What instrumented code does around a predicate, without the instrumentation: the callback on a real
    `ExecutionTracer`, then the operation the interpreter performs itself (its outcome is the branch taken;
    if it raises no branch is taken and the program may go on)."""
    from pynguin.ga.coveragegoals import BranchGoal, BranchlessCodeObjectGoal
    from pynguin.instrumentation import PynguinCompare
    from pynguin.instrumentation.tracer import ExecutionTracer
    from pynguin.testcase.execution import ExecutionResult

    vals = vals_module()
    tracer = ExecutionTracer()
    tracer.__enter__()

    class Cb:
        """An operand of a class of the module under test whose operator code is instrumented: it makes
        callbacks of its own (code object 50+k, predicate 40+k); k == 3 raises afterwards."""

        def __init__(self, k):
            self.k = k

        def _code(self):
            tracer.executed_code_object(50 + self.k)
            tracer.executed_bool_predicate(self.k % 2 == 0, 40 + self.k)
            if self.k == 3:
                raise TypeError("Cb(3)")

        def __lt__(self, other):
            self._code()
            return self.k < getattr(other, "k", 1)

        __gt__ = __le__ = __ge__ = __lt__

        def __eq__(self, other):
            self._code()
            return self.k == getattr(other, "k", None)

        def __ne__(self, other):
            self._code()
            return self.k != getattr(other, "k", None)

        __hash__ = None

        def __bool__(self):
            self._code()
            return self.k > 0

        def __contains__(self, item):
            self._code()
            return item == 1

    allv = list(vals.BOTH) + [Cb(0), Cb(1), Cb(2), Cb(3)]
    ops = _py_ops()
    taken: dict = {}
    entered: set = set()
    diverged = False
    rec = CallRecorder()
    rec.install()
    try:
        for ev in evs:
            if ev[0] == "enter":
                tracer.executed_code_object(ev[1])
                entered.add(ev[1])
                continue
            pid = ev[1]
            if ev[0] == "cmp":
                v1, v2 = allv[ev[3] % len(allv)], allv[ev[4] % len(allv)]
                callback = lambda: tracer.executed_compare_predicate(v1, v2, pid, PynguinCompare[ev[2]])  # noqa: E731,B023
                python = lambda: bool(ops[ev[2]](v1, v2))  # noqa: E731,B023
            elif ev[0] == "bool":
                v = allv[ev[2] % len(allv)]
                callback = lambda: tracer.executed_bool_predicate(v, pid)  # noqa: E731,B023
                python = lambda: bool(v)  # noqa: E731,B023
            elif ev[0] == "exc":
                err, exc = eval(CB_ERRS[ev[2]]), eval(CB_EXCS[ev[3]])  # noqa: S307 - fixed literals above
                callback = lambda: tracer.executed_exception_match(err, exc, pid)  # noqa: E731,B023
                python = lambda: isinstance(err, exc)  # noqa: E731,B023
            else:
                raise ValueError(ev[0])
            try:
                callback()
                cb_raised = None
            except Exception as e:  # noqa: BLE001 - the evaluation inside the callback raised
                cb_raised = type(e).__name__
            try:
                outcome = python()
                py_raised = None
            except Exception as e:  # noqa: BLE001 - the operation raises: the interpreter takes no branch
                outcome, py_raised = None, type(e).__name__
            if cb_raised != py_raised:
                diverged = True   # the callback changes the program's behaviour: C01/C04's subject
            if py_raised is None:
                taken.setdefault(pid, set()).add(outcome)
        final_enabled = not tracer.is_disabled()
    finally:
        rec.uninstall()
    result = ExecutionResult()
    result.execution_trace = tracer.get_trace()

    def covered(goal):
        try:
            return bool(goal.is_covered(result))
        except Exception as e:  # noqa: BLE001
            return {"err": type(e).__name__}

    return {
        "err": None, "calls": rec.calls_json(), "after": rec.after, "final_enabled": final_enabled,
        "callstats": rec.stats(), "orphan_updates": rec.orphan_updates, "npreds": CB_NPREDS, "coid_list": CB_COIDS,
        "covered": {str(p): [covered(BranchGoal(0, p, value=True)), covered(BranchGoal(0, p, value=False))]
                    for p in range(CB_NPREDS)},
        "cos": {str(c): covered(BranchlessCodeObjectGoal(c)) for c in CB_COIDS},
        "executed_preds": sorted(tracer.get_trace().executed_predicates),
        "taken": {str(p): sorted(v) for p, v in taken.items()}, "entered": sorted(entered),
        "diverged": diverged,
    }


HIST_MISSED = ["5e-324", "1e-300", "5.551115123125783e-17", "1e-12", "1e-10", "9.99e-10", "1e-09", "1.0000001e-09",
               "1e-06", "0.5", "1.0", "7.0", "1e+300", "inf"]


def run_history(evs: list) -> dict:
    """C04-good records (distance of the outcome taken 0.0, the other one positive) through the real
    `ExecutionTrace.update_predicate_distances` and the real goals."""
    from pynguin.ga.coveragegoals import BranchGoal, BranchlessCodeObjectGoal
    from pynguin.instrumentation.tracer import ExecutionTrace
    from pynguin.testcase.execution import ExecutionResult

    trace = ExecutionTrace()
    for ev in evs:
        if ev[0] == "enter":
            trace.executed_code_objects.add(ev[1])
        else:
            _, p, outcome, missed = ev
            d = float(missed)
            trace.update_predicate_distances(0.0 if outcome else d, d if outcome else 0.0, p)
    result = ExecutionResult()
    result.execution_trace = trace

    def covered(goal):
        try:
            return bool(goal.is_covered(result))
        except Exception as e:  # noqa: BLE001
            return {"err": type(e).__name__}

    return {"err": None, "npreds": 5, "coid_list": [0, 1, 2],
            "covered": {str(p): [covered(BranchGoal(0, p, value=True)), covered(BranchGoal(0, p, value=False))]
                        for p in range(5)},
            "cos": {str(c): covered(BranchlessCodeObjectGoal(c)) for c in [0, 1, 2]},
            "executed_preds": sorted(trace.executed_predicates)}


def describe_callbacks(evs: list) -> str:
    vals = vals_module()
    names = [repr(v) if len(repr(v)) < 30 else repr(v)[:12] + "…" for v in vals.BOTH] + ["Cb(0)", "Cb(1)", "Cb(2)", "Cb(3)"]
    out = []
    for ev in evs:
        if ev[0] == "enter":
            out.append(f"enter {ev[1]}")
        elif ev[0] == "cmp":
            out.append(f"predicate {ev[1]}: {names[ev[3] % len(names)]} {ev[2]} {names[ev[4] % len(names)]}")
        elif ev[0] == "bool":
            out.append(f"predicate {ev[1]}: truth value of {names[ev[2] % len(names)]}")
        else:
            out.append(f"predicate {ev[1]}: {CB_ERRS[ev[2]]} matches {CB_EXCS[ev[3]]}")
    return "; ".join(out)


def gen_cb(rng: random.Random) -> dict:
    evs = []
    nvals = 44
    for _ in range(rng.randint(3, 14)):
        k = rng.random()
        pid = rng.randrange(4)
        if k < 0.1:
            evs.append(["enter", rng.randrange(4)])
        elif k < 0.7:
            if rng.random() < 0.4:
                cl = rng.choice(CB_NEAR_CLUSTERS)
                i, j = rng.choice(cl), rng.choice(cl)
            else:
                i, j = rng.randrange(nvals), rng.randrange(nvals)
            evs.append(["cmp", pid, rng.choice(CB_OPS), i, j])
        elif k < 0.9:
            evs.append(["bool", pid, rng.randrange(nvals)])
        else:
            evs.append(["exc", pid, rng.randrange(len(CB_ERRS)), rng.randrange(len(CB_EXCS))])
    return {"kind": "cb", "evs": evs}


def gen_hist(rng: random.Random) -> dict:
    evs = []
    for _ in range(rng.randint(1, 10)):
        if rng.random() < 0.15:
            evs.append(["enter", rng.randrange(3)])
        else:
            evs.append(["eval", rng.randrange(4), rng.random() < 0.5, rng.choice(HIST_MISSED)])
    return {"kind": "hist", "evs": evs}


def gen_calls(rng: random.Random, src: str, n_funcs: int) -> list:
    calls = []
    odd = rng.random() < 0.5   # half of the programs also get non-int arguments
    for i in range(n_funcs):
        for _ in range(rng.randint(1, 3)):
            args = [rng.randint(-3, 6) for _ in range(3)]
            if odd and rng.random() < 0.6:
                # a, b take part in arithmetic first (floats survive it), c is compared as it is
                k = rng.randrange(3)
                args[k] = rng.choice(DIRECT_NEAR if k < 2 or rng.random() < 0.4 else DIRECT_MIXED)
            calls.append(["f", f"f{i}", args])
    if "def gen0" in src:
        calls.append(["g", "gen0", [rng.randint(-3, 6) for _ in range(3)]])
    if "class K0" in src:
        calls.append(["m", "K0", [rng.randint(-3, 6) for _ in range(3)]])
    return calls


# ---------------------------------------------------------------------------------------------
# micro-executions validating the hand table `jumps` (CPython semantics of the conditional jumps)
# ---------------------------------------------------------------------------------------------
def micro_check() -> list[str]:
    """For each conditional jump opcode find it in a tiny compiled function and check, with
    sys.monitoring, that it jumps exactly when the model's `jumps` says so."""
    progs = {
        # opname -> (source of f(x), fact(x), values)
        "POP_JUMP_IF_TRUE": ("def f(x):\n    if not x:\n        return 1\n    return 2\n", bool, [0, 1, [], [0]]),
        "POP_JUMP_IF_FALSE": ("def f(x):\n    if x:\n        return 1\n    return 2\n", bool, [0, 1, "", "a"]),
        "POP_JUMP_IF_NONE": ("def f(x):\n    if x is not None:\n        return 1\n    return 2\n",
                             lambda v: v is None, [None, 0, False]),
        "POP_JUMP_IF_NOT_NONE": ("def f(x):\n    if x is None:\n        return 1\n    return 2\n",
                                 lambda v: v is None, [None, 0, False]),
        "FOR_ITER": ("def f(x):\n    for _ in x:\n        return 1\n    return 2\n",
                     lambda v: len(v) > 0, [[], [1], ()]),
    }
    model_jumps = {"POP_JUMP_IF_TRUE": lambda f: f, "POP_JUMP_IF_FALSE": lambda f: not f,
                   "POP_JUMP_IF_NONE": lambda f: f, "POP_JUMP_IF_NOT_NONE": lambda f: not f,
                   "FOR_ITER": lambda f: not f}
    bad = []
    mon = sys.monitoring
    for opn, (src, fact, values) in progs.items():
        ns: dict = {}
        exec(compile(src, "<c03-micro>", "exec"), ns)  # noqa: S102
        fn = ns["f"]
        js = [j for j in cond_jumps(fn.__code__) if j["op"] == opn]
        if len(js) != 1:
            bad.append(f"{opn}: expected exactly one such instruction, got {len(js)}")
            continue
        j = js[0]
        for v in values:
            seen = []
            mon.use_tool_id(MON_TOOL, "verif-c03-micro")
            try:
                mon.register_callback(MON_TOOL, mon.events.BRANCH,
                                      lambda co, s, d: seen.append((s, d)) if co is fn.__code__ else None)
                mon.set_local_events(MON_TOOL, fn.__code__, mon.events.BRANCH)
                fn(v)
            finally:
                mon.set_local_events(MON_TOOL, fn.__code__, 0)
                mon.register_callback(MON_TOOL, mon.events.BRANCH, None)
                mon.free_tool_id(MON_TOOL)
            ds = [d for s, d in seen if s == j["off"]]
            if len(ds) != 1:
                bad.append(f"{opn}({v!r}): {len(ds)} BRANCH events")
                continue
            jumped = ds[0] != j["fall"]
            if jumped != model_jumps[opn](bool(fact(v))):
                bad.append(f"{opn}({v!r}): interpreter jumped={jumped}, hand table says {not jumped}")
    return bad


# ---------------------------------------------------------------------------------------------
class C03(PropertyCheck):
    prop_id = "C03"
    prop_modules = ["PynguinModel.Props.C03"]
    extra_modules = ["PynguinModel.Generated.C03Jumps", "PynguinModel.Model.BranchInstr"]
    driver = "Driver/C03.lean"
    n_quick = 200
    n_thorough = 1700
    n_search = 400
    rule = ("structural cases: code objects of progen programs / pure-Python stdlib modules, non-trivial = "
            "distinct block structure with at least one predicate; run cases: progen modules executed on random "
            "ints / floats / mixed-type values and XGen modules (comparisons that raise and are caught, almost-equal "
            "floats) plus directed programs, non-trivial = distinct (program, inputs) with at least one executed "
            "predicate; tracer-level cases (callback histories on a real ExecutionTracer, good-record histories on a "
            "real ExecutionTrace), non-trivial = distinct history with at least one evaluation")
    assumptions = [
        "CPython's semantics of the conditional jumps is a hand table (`jumps`), validated by micro-executions "
        "under sys.monitoring on every run",
        "inside one block the interpreter executes the entries in order; between blocks it follows the CFG "
        "(inter-block flow is compared end-to-end with sys.monitoring, not proved)",
        "the recorded distances satisfy C04 (exactly the taken outcome has distance 0); C04 proves this for the "
        "tracer callbacks",
        "a conditional jump is the last raw entry of its block (construction of bytecode.ControlFlowGraph; "
        "checked on every exported block)",
    ]
    trusted_base_extra = [
        "harness/c03.py translator: prints what the live version module answers for every opcode",
        "sys.monitoring BRANCH / PY_START events as ground truth of what the interpreter did",
        "bytecode library: block splitting, to_code() (not modelled)",
    ]

    def __init__(self, tier, seed):
        super().__init__(tier, seed)
        self._std = None
        self._cache: dict = {}
        self._table = None

    # -- translator ---------------------------------------------------------------------------
    def translate(self) -> None:
        vcommon.use_repo_sources()
        table = build_table()
        self._table = table
        # self-check: re-evaluate the emitted rows against the live objects
        from pynguin.instrumentation import version
        for o in table["ops"]:
            assert version.get_branch_type(o["opcode"]) == o["branchType"]
        text = render(table)
        if not GEN_PATH.exists() or GEN_PATH.read_text() != text:
            GEN_PATH.parent.mkdir(parents=True, exist_ok=True)
            GEN_PATH.write_text(text)
        self.extra_coverage["generated"] = {
            "conditional_jumps": [{k: o[k] for k in ("name", "branchType", "noneCmp", "bytecodeCond")}
                                  for o in table["ops"] if o["versionCond"]],
            "cond_branch_names": sorted(o["name"] for o in table["ops"] if o["inCondNames"]),
            "python": table["python"],
        }

    # -- generation ---------------------------------------------------------------------------
    def gen_case(self, rng):
        r = rng.random()
        if r < 0.07:
            # end-to-end run (the real import hook is slow: ~1 s per module)
            return {"kind": "run", "seed": rng.randrange(1 << 30), "nf": rng.choice([1, 1, 2])}
        if r < 0.14:
            # end-to-end run of a program whose comparisons raise / are near misses
            return {"kind": "xrun", "seed": rng.randrange(1 << 30)}
        if r < 0.29:
            return gen_cb(rng)
        if r < 0.37:
            return gen_hist(rng)
        if r < 0.60:
            if self._std is None:
                self._std = progen.stdlib_code_objects()
            i = rng.randrange(len(self._std))
            return {"kind": "stdlib", "module": self._std[i][0], "index": i}
        return {"kind": "gen", "seed": rng.randrange(1 << 30), "pick": rng.randrange(1 << 16)}

    def _code(self, case):
        if case["kind"] == "stdlib":
            if self._std is None:
                self._std = progen.stdlib_code_objects()
            return self._std[case["index"]][1]
        if case["kind"] == "src":
            cos = progen.all_code_objects(compile(case["src"], "<c03-src>", "exec"))
            return cos[case.get("pick", 0) % len(cos)]
        src = progen.gen_module(random.Random(case["seed"]), n_funcs=2)
        cos = progen.all_code_objects(compile(src, "<c03-gen>", "exec"))
        return cos[case["pick"] % len(cos)]

    # -- implementation -----------------------------------------------------------------------
    def impl(self, case):
        key = vcommon.jdump(case)
        if key in self._cache:
            return self._cache[key]
        kind = case["kind"]
        if kind in ("cb", "hist"):
            out = run_callbacks(case["evs"]) if kind == "cb" else run_history(case["evs"])
            out["kind"] = kind
            self.count("kind:" + kind)
            if kind == "cb":
                for k, v in out["callstats"].items():
                    self.count("cb:callbacks-" + k, v)
            self._cache[key] = out
            return out
        if kind in ("run", "runsrc", "xrun"):
            if kind == "run":
                rng = random.Random(case["seed"])
                src = progen.gen_module(rng, n_funcs=case["nf"])
                calls = gen_calls(rng, src, case["nf"])
            elif kind == "xrun":
                src, calls = gen_xrun(case["seed"])
            else:
                src, calls = case["src"], case["calls"]
            out = run_program_forked(src, calls)
            out["kind"] = "run"
            self.count("kind:" + kind)
            if out["err"] is None:
                self.count("run:predicates", out["npreds"])
                for k, v in out["callstats"].items():
                    self.count("run:callbacks-" + k, v)
                self.count("run:calls-ending-in-exception", sum(1 for r in out["res_plain"] if r[0] == "exc"))
                for p in out["preds"]:
                    if p["kth"] is not None:
                        self.count("run:jump:" + out["jumps"][p["co"]][p["kth"]]["op"])
        else:
            out = export_code_object(self._code(case))
            out["kind"] = "cfg"
            self.count("kind:" + kind)
            if out["err"] is None:
                self.count("cfg:predicates", len(out["preds"]))
                for b in out["after"]:
                    for e in b["entries"]:
                        if "art" in e:
                            self.count("snippet:" + next(iter(e["art"]["s"])))
                if any("pseudo" in e for b in out["before"] for e in b["entries"][:-1]):
                    self.count("cfg:block-with-leading-pseudo-instruction")
        self._cache[key] = out
        return out

    def model_line(self, case):
        io = self.impl(case)
        if io["kind"] == "cfg":
            if io["err"] is not None:
                # the model is asked what it does for the visiting order of a fresh CFG
                return vcommon.jdump({"cfg": {"c": {"blocks": io["before"], "coid": 0, "order": io["live"]}}})
            return vcommon.jdump({"cfg": {"c": {"blocks": io["before"], "coid": io["coid"], "order": io["order"]}}})
        if io["err"] is not None:
            return None
        if io["kind"] == "hist":
            evs = []
            for ev in case["evs"]:
                if ev[0] == "enter":
                    evs.append({"enter": {"coid": ev[1]}})
                else:
                    d, zero = num_json(float(ev[3])), num_json(0.0)
                    evs.append({"pred": {"p": ev[1], "dT": zero if ev[2] else d, "dF": d if ev[2] else zero}})
            return vcommon.jdump({"trace": {"c": {"evs": evs, "npreds": io["npreds"], "coids": io["coid_list"]}}})
        coids = io["coid_list"] if io["kind"] == "cb" else sorted(io["coids"].values())
        return vcommon.jdump({"calls": {"c": {"calls": io["calls"], "npreds": io["npreds"], "coids": coids}}})

    def compare(self, case, io, mo):
        if "bad-op" in mo or "unparsable" in mo:
            return False
        if io["kind"] == "cfg":
            if not all(mo["wf"]):
                self.count("guard:jump-not-last-raw-entry")
            for n in io["live"]:
                want = mo["edges"][n]
                if want is None or sorted(map(list, want), key=lambda e: e[0]) != io["edges"][n]:
                    return False
            if io["err"] is not None:
                return mo["st"] is None   # the real instrumentation raised: the model must fail, too
            if mo["st"] is None:
                return False
            return (mo["st"]["blocks"] == io["after"] and mo["st"]["preds"] == io["preds"]
                    and mo["pool"]["branch"] == io["pool"]["branch"]
                    and mo["pool"]["branchless"] == io["pool"]["branchless"])
        if io["err"] is not None:
            return True
        if io["kind"] != "hist":
            # the model tracer accepts every recorded callback, ends each top-level callback with the same
            # `enabled` flag as the real tracer, and no distance was recorded outside a callback
            if mo["rejected"] is not None or mo["flags"] != io["after"] or mo["enabled"] != io["final_enabled"] \
                    or io["orphan_updates"]:
                return False
        if io["kind"] in ("cb", "hist"):
            for pid, ct, cf_ in mo["branch"]:
                if [ct, cf_] != io["covered"][str(pid)]:
                    return False
            for coid, ent in mo["entered"]:
                if ent != io["cos"][str(coid)]:
                    return False
            return sorted(mo["executed"]) == io["executed_preds"]
        want = {p["pid"]: p["covered"] for p in io["preds"]}
        for pid, ct, cf_ in mo["branch"]:
            if [ct] != want[pid]["true"] or [cf_] != want[pid]["false"]:
                return False
        ent = dict(map(tuple, mo["entered"]))
        for b in io["branchless"]:
            if ent[b["coid"]] != b["covered"]:
                return False
        return sorted(mo["executed"]) == io["executed_preds"]

    # -- the property itself, on the implementation's behaviour ------------------------------
    def oracle(self, case, io):
        fs = []
        if io["kind"] == "cfg":
            if io["err"] is not None:
                fs.append(Failure({"class": "instrumentation-raises", "err": io["err"]},
                                  f"branch instrumentation of a code object raises {io['err']}: {io['msg']}"))
                return fs
            # every block that ends in a conditional jump / FOR_ITER has exactly one predicate and two goals
            import opcode
            for n in io["live"]:
                ins = [e["orig"]["i"]["opc"] for e in io["before"][n]["entries"] if "orig" in e]
                is_cond = bool(ins) and opcode.opname[ins[-1]] in CPY_COND
                cnt = io["preds"].count(n)
                if cnt != int(is_cond):
                    fs.append(Failure({"class": "registration", "jump": opcode.opname[ins[-1]] if ins else None},
                                      f"block {n} ends in {opcode.opname[ins[-1]] if ins else None} and has {cnt} predicate(s)"))
            goals = sorted(map(tuple, io["pool"]["branch"]))
            if goals != sorted((p, v) for p in range(len(io["preds"])) for v in (True, False)):
                fs.append(Failure({"class": "pool"}, "the goal pool does not hold both outcomes of every predicate once"))
            if io["pool"]["branchless"] != ([] if io["preds"] else [io["coid"]]):
                fs.append(Failure({"class": "pool-branchless"}, "branch-less goal does not match 'no predicate'"))
            return fs
        if io["kind"] in ("cb", "hist"):
            return self._oracle_tracer_level(case, io)
        if io["err"] is not None:
            fs.append(Failure({"class": "instrumentation-raises", "err": io["err"]},
                              f"importing / running the module instrumented for branch coverage fails with "
                              f"{io['err']}: {io['msg']}"))
            return fs
        if not io["same_behaviour"]:
            return fs  # C01's subject; coverage of diverging runs is not comparable
        if io["cos"] != io["plain_cos"]:
            fs.append(Failure({"class": "code-objects"}, "instrumented and plain code objects differ"))
            return fs
        by_jump = {}
        for p in io["preds"]:
            if p["kth"] is None:
                fs.append(Failure({"class": "predicate-on-non-branch"},
                                  f"predicate {p['pid']} sits on a block that does not end in a conditional jump"))
                continue
            j = io["jumps"][p["co"]][p["kth"]]
            if (p["co"], j["off"]) in by_jump:
                fs.append(Failure({"class": "two-predicates-one-jump", "jump": j["op"]}, "two predicates on one jump"))
            by_jump[(p["co"], j["off"])] = p
            dsts = io["branches"].get(p["co"], {}).get(str(j["off"]), [])
            if p["sameSucc"]:
                self.count("guard:jump-target-is-fallthrough")
                continue
            took = {(p["targetLabel"] if d != j["fall"] else p["nextLabel"]) for d in dsts}
            for v in (True, False):
                rep = p["covered"]["true" if v else "false"]
                if len(rep) != 1:
                    fs.append(Failure({"class": "pool", "jump": j["op"]},
                                      f"{len(rep)} goals for predicate {p['pid']} value {v}"))
                elif rep[0] != (v in took):
                    fs.append(Failure(
                        {"class": "reported-vs-taken", "jump": j["op"], "value": v, "reported": rep[0]},
                        f"{j['op']} at offset {j['off']} of {p['co']}: goal ({p['pid']}, {v}) reported covered={rep[0]} "
                        f"but the interpreter {'followed' if v in took else 'never followed'} the CFG edge labelled {v} "
                        f"(BRANCH destinations {dsts}, fall-through {j['fall']}, target label {p['targetLabel']})"))
        for co, js in io["jumps"].items():
            for kth, j in enumerate(js):
                executed = str(j["off"]) in io["branches"].get(co, {})
                if (co, j["off"]) not in by_jump and kth in io["dead_jumps"].get(co, []) and not executed:
                    self.count("guard:jump-in-dead-block")
                    continue
                if (co, j["off"]) not in by_jump:
                    fs.append(Failure({"class": "unregistered-jump", "jump": j["op"]},
                                      f"{j['op']} at offset {j['off']} of {co} has no predicate"
                                      f" (executed: {str(j['off']) in io['branches'].get(co, {})})"))
        with_pred = set(io["cos_with_pred"])
        bl = {b["co"]: b for b in io["branchless"]}
        for co in io["cos"]:
            if (co in bl) == (co in with_pred):
                fs.append(Failure({"class": "pool-branchless"},
                                  f"code object {co}: has predicate={co in with_pred}, branch-less goal={co in bl}"))
            if co in bl and bl[co]["covered"] != (co in io["entered"]):
                fs.append(Failure({"class": "branchless-reported-vs-entered", "reported": bl[co]["covered"]},
                                  f"branch-less code object {co}: reported covered={bl[co]['covered']}, "
                                  f"entered={co in io['entered']}"))
        return fs

    def _oracle_tracer_level(self, case, io):
        """reported <=> taken on a history fed to the real tracer / trace: `taken` is what Python itself
        yields for the operation (cb) or the outcome the record was built for (hist)."""
        fs = []
        if io["kind"] == "cb":
            if io["diverged"]:
                self.count("guard:callback-raises-differently-from-the-operation")
                return fs
            taken = {int(p): set(v) for p, v in io["taken"].items()}
            entered, pids, coids = set(io["entered"]), range(4), range(4)
            text = describe_callbacks(case["evs"])
        else:
            taken, entered = {}, set()
            for ev in case["evs"]:
                if ev[0] == "enter":
                    entered.add(ev[1])
                else:
                    taken.setdefault(ev[1], set()).add(ev[2])
            pids, coids = range(io["npreds"]), io["coid_list"]
            text = "; ".join(f"enter {e[1]}" if e[0] == "enter" else
                             f"predicate {e[1]} takes {e[2]}, distance of the other outcome {e[3]}" for e in case["evs"])
        for p in pids:
            for k, v in enumerate((True, False)):
                rep = io["covered"][str(p)][k]
                want = v in taken.get(p, set())
                if isinstance(rep, dict):
                    fs.append(Failure({"class": "is-covered-raises", "level": io["kind"], "err": rep["err"]},
                                      f"BranchGoal({p}, {v}).is_covered raises {rep['err']} after: {text}"))
                elif rep != want:
                    fs.append(Failure({"class": "reported-vs-taken", "level": io["kind"], "value": v, "reported": rep},
                                      f"goal ({p}, {v}) reported covered={rep} but that outcome was "
                                      f"{'taken' if want else 'never taken'} in the history: {text}"))
        for c in coids:
            rep = io["cos"][str(c)]
            if rep != (c in entered):
                fs.append(Failure({"class": "branchless-reported-vs-entered", "level": io["kind"], "reported": rep},
                                  f"code object {c}: reported covered={rep}, entered={c in entered} in the history: {text}"))
        return fs

    def classify(self, case, io):
        if io["err"] is not None:
            return None
        if io["kind"] == "cfg":
            return vcommon.jdump(io["before"]) if io["preds"] else None
        if io["kind"] in ("cb", "hist"):
            return vcommon.jdump(case) if io["executed_preds"] else None
        return vcommon.jdump(case) if io["callstats"]["ok"] else None

    def extra_checks(self):
        bad = micro_check()
        self.extra_coverage["micro_executions_ok"] = not bad
        if bad:  # my trusted table is wrong: a machinery error, never a violation of pynguin
            raise RuntimeError("CPython disagrees with the model's hand table `jumps`: " + "; ".join(bad))
        return []


if __name__ == "__main__":
    run_main(C03)
