"""C07 — every branch goal is reachable in the DynaMOSA goal graph (DESIGN §5 C07).

Two kinds of cases, both run through the REAL `_BranchFitnessGraph._build_graph`, `_GoalsManager.__init__/
update`, `CoverageArchive`, `BranchGoalPool`, `ControlDependenceGraph.get_control_dependencies /
is_control_dependent_on_root`:

* ``mod``  a generated module (progen) with random ``# pragma: no cover`` / ``# pynguin: no cover`` markers and
  no-cover / only-cover scope lists is instrumented by the real import hook (`BranchCoverageInstrumentation.
  visit_node` registers the predicates, `InstrumentationTransformer._create_covered_cdg` prunes the CDG); the
  registries, every code object's CDG before and after pruning and the CDG's answers are exported;
* ``tgt``  a small module from the C07 shape grammar below (`target_source`): try/except-return, try/finally and
  `with` regions FOLLOWED by conditionals / loops whose `else` (or header, elif, except, case) line is excluded,
  with branches nested below; `while True:` loops, dead code after return/raise/break, loops in handlers.  These
  are the shapes in which a basic block mixes `TryBegin`/`TryEnd` pseudo instructions with a conditional jump, in
  which pruned nodes are re-linked below value-less nodes, and in which the CFG has unreachable cycles;
* ``syn``  synthetic registries over hand-built `ControlDependenceGraph`s (well-formed ones and ones with
  unregistered labelled sources, unreachable nodes, cycles, self loops) — reaches the failure branches
  (`KeyError`, "Root branches" assertion, missing node) and arbitrary shapes quickly.

For ``mod``/``tgt``/``src`` the arguments of the real `_create_covered_cdg` are captured and every node of the
unpruned CDG is exported the way that function and `visit_node` look at it (pseudo / real instructions, the real
`AstInfo` answers for the last instruction and for every original instruction): the Lean model decides itself
which nodes are removed (`removedNodes`), builds the covered CDG (`coveredCdg`) and evaluates `checkPrune`
(`Props/C07.covered_cdg_ok`).

The Lean driver recomputes the re-linking, both CDG queries, the goal graph (roots, edges, or the exception
kind), the whole `current_goals` / `covered_goals` trace of a cover schedule, and evaluates the verified
hypothesis checkers (`checkModule`, `Props/C07.checkModule_sound`) on the implementation's own answers.
The oracle states the property in its own words on the implementation's behaviour only.
"""
from __future__ import annotations

import random
import sys
import types

import vcommon
from vcommon import Failure, PropertyCheck, run_main

ENTRY, EXIT, ROOT = 0, 1, 2
LOOP_CAP = 64


# ---------------------------------------------------------------------------------------------------
# exporting real objects
# ---------------------------------------------------------------------------------------------------
def nid(n):
    from pynguin.instrumentation import controlflow as cf
    if n is cf.ArtificialNode.AUGMENTED_ENTRY:
        return ROOT
    if n is cf.ArtificialNode.ENTRY:
        return ENTRY
    if n is cf.ArtificialNode.EXIT:
        return EXIT
    return 3 + n.index


def lab(d):
    return d.get("branch_value", None)


def export_cdg(cdg):
    """Nodes in order, blocks, edges grouped by target in `predecessors` order (what the two walks see)."""
    from pynguin.instrumentation import controlflow as cf
    G = cdg.graph
    nodes = [nid(n) for n in G.nodes]
    blocks = [nid(n) for n in G.nodes if isinstance(n, cf.BasicBlockNode)]
    ge = []
    for n in G.nodes:
        for p in G.predecessors(n):
            ge.append({"s": nid(p), "t": nid(n), "l": lab(G.get_edge_data(p, n))})
    return nodes, blocks, ge


def block_infos(fcdg, ast_info, memo):
    """Every node of the unpruned CDG as `_create_covered_cdg` / `visit_node` look at it (real AstInfo answers)."""
    from bytecode import Instr

    from pynguin.instrumentation import controlflow as cf

    def ask(kind, lineno):
        key = (id(ast_info), kind, lineno)
        if key not in memo:
            fn = ast_info.should_cover_line if kind == "l" else ast_info.should_cover_conditional_statement
            memo[key] = bool(fn(lineno))
        return memo[key]

    out = []
    for n in fcdg.graph.nodes:
        if not isinstance(n, cf.BasicBlockNode):
            out.append({"node": nid(n), "isBlock": False, "elems": [], "last": 0, "lines": []})
            continue
        elems = [isinstance(i, Instr) for i in n.basic_block]
        last_instr = n.try_get_instruction(-1)
        if last_instr is None:
            last = 0
        elif not isinstance(last_instr.lineno, int):
            last = 1
        else:
            last = 3 if (ast_info is None or ask("c", last_instr.lineno)) else 2
        lines = [0 if not isinstance(i.lineno, int) else (2 if (ast_info is None or ask("l", i.lineno)) else 1)
                 for i in n.original_instructions]
        out.append({"node": nid(n), "isBlock": True, "elems": elems, "last": last, "lines": lines})
    return out


def export_subject(sp, with_full, captured=None):
    """Registries + per code object CDG data of a (real or synthetic) SubjectProperties."""
    from pynguin.instrumentation import controlflow as cf
    memo = {}
    preds = [{"id": pid, "co": m.code_object_id, "node": nid(m.node)} for pid, m in sp.existing_predicates.items()]
    cos = []
    for co, meta in sp.existing_code_objects.items():
        cdg = meta.cdg
        nodes, blocks, ge = export_cdg(cdg)
        full, removed, has_ast, binfo = None, [], None, None
        if with_full:
            fcdg = cf.ControlDependenceGraph.compute(meta.cfg)
            _, _, fge = export_cdg(fcdg)
            full = fge
            removed = [nid(n) for n in fcdg.graph.nodes if n not in cdg.graph]
            if captured is not None and id(meta.cfg) in captured:
                ast_info = captured[id(meta.cfg)][1]
                has_ast = ast_info is not None
                binfo = block_infos(fcdg, ast_info, memo)
        ans = []
        for m in sp.existing_predicates.values():
            if m.code_object_id != co:
                continue
            if m.node not in cdg.graph:
                continue  # the model reports nodeMissing; nothing to ask the CDG
            ans.append({"node": nid(m.node),
                        "deps": [[nid(d.node), d.branch_value] for d in cdg.get_control_dependencies(m.node)],
                        "rootDep": bool(cdg.is_control_dependent_on_root(m.node))})
        cos.append({"co": co, "nodes": nodes, "blocks": blocks, "root": ROOT, "ge": ge, "full": full,
                    "removed": removed, "ans": ans, "hasAst": has_ast, "binfo": binfo,
                    "entry": None if cdg.entry_node is None else nid(cdg.entry_node)})
    return preds, cos


# ---------------------------------------------------------------------------------------------------
# the property's "structurally depends on", stated on the exported CDG edges only (no pynguin query)
# ---------------------------------------------------------------------------------------------------
def reference_dependencies(co, node):
    """Control dependencies of `node` in one exported code object: backwards over value-less edges (and edges
    that leave artificial nodes) until an edge with a branch value that leaves a basic block."""
    blocks = set(co["blocks"])
    into = {}
    for e in co["ge"]:
        into.setdefault(e["t"], []).append(e)
    deps, seen, todo = set(), {node}, [node]
    while todo:
        x = todo.pop()
        for e in into.get(x, ()):
            if e["l"] is not None and e["s"] in blocks:
                deps.add((e["s"], bool(e["l"])))
            elif e["s"] not in seen:
                seen.add(e["s"])
                todo.append(e["s"])
    return deps


def reference_structure(goals, preds, cos):
    """Per goal: `owner` = the code object its predicate was registered for, `key` = (code object, node, value),
    `deps` = the goal's OWN control dependencies as keys {(same code object, node, value)} (None: no branch goal
    or the predicate's node is not in its CDG)."""
    by_pid = {p["id"]: p for p in preds}
    by_co = {c["co"]: c for c in cos}
    memo, out = {}, []
    for g in goals:
        if g["pid"] is None or g["pid"] not in by_pid:
            out.append({"owner": g["co"], "key": None, "deps": None})
            continue
        pm = by_pid[g["pid"]]
        c = by_co.get(pm["co"])
        deps = None
        if c is not None and pm["node"] in c["nodes"]:
            k = (pm["co"], pm["node"])
            if k not in memo:
                memo[k] = reference_dependencies(c, pm["node"])
            deps = {(pm["co"], n, v) for n, v in memo[k]}
        out.append({"owner": pm["co"], "key": (pm["co"], pm["node"], bool(g["val"])), "deps": deps})
    return out


OWN_CHAIN_CAP = 12


def own_chain_plan(goals, preds, cos):
    """For (up to OWN_CHAIN_CAP) goals with dependencies: the goals of its own dependency chain = everything it
    transitively depends on through its own code object's CDG, itself excluded."""
    ref = reference_structure(goals, preds, cos)
    by_key = {}
    for i, r in enumerate(ref):
        if r["key"] is not None:
            by_key.setdefault(r["key"], []).append(i)
    if any(len(v) > 1 for v in by_key.values()):
        return []  # two predicates on one node: "the" goal of a dependency is ambiguous, nothing is demanded
    direct = {}
    for i, r in enumerate(ref):
        if r["deps"]:
            if not all(k in by_key for k in r["deps"]):
                return []  # unregistered dependency: reported by the static clauses
            direct[i] = sorted(by_key[k][0] for k in r["deps"])
    cands = sorted(direct)
    if len(cands) > OWN_CHAIN_CAP:
        step = len(cands) / OWN_CHAIN_CAP
        cands = sorted({cands[int(j * step)] for j in range(OWN_CHAIN_CAP)})
    plan = []
    for g in cands:
        anc, todo = set(), [g]
        while todo:
            for p in direct.get(todo.pop(), ()):
                if p not in anc:
                    anc.add(p)
                    todo.append(p)
        anc.discard(g)
        plan.append((g, sorted(anc)))
    return plan


class Sol:
    """Stands for a test case chromosome: covers a fixed set of goals."""

    def __init__(self, covered, index):
        self.covered = covered
        self.index = index

    def get_is_covered(self, ff):
        return self.index[ff] in self.covered

    def size(self):
        return 1

    def get_last_execution_result(self):
        return None


class _Loop(Exception):
    pass


def run_goals(sp, sched, exported=None):
    """The real goal pool, goal graph, goals manager and archive on `sp`; returns goals, build, trace, own.

    `own` (when `exported` = (preds, cos) is given): for every goal with dependencies a FRESH real `_GoalsManager`
    is driven by solutions that cover exactly the goals of the goal's own dependency chain (as they become
    current); listed are the goals that never became current that way."""
    import networkx as nx
    import pynguin.ga.coveragegoals as bg
    from pynguin.ga.algorithms.archive import CoverageArchive
    from pynguin.ga.algorithms.dynamosaalgorithm import _GoalsManager
    from pynguin.utils.orderedset import OrderedSet

    ex = types.SimpleNamespace(subject_properties=sp)
    pool = bg.BranchGoalPool(sp)
    ffs = bg.create_branch_coverage_fitness_functions(ex, pool)
    index = {f: i for i, f in enumerate(ffs)}
    goals = []
    for f in ffs:
        g = f.goal
        if g.is_branch:
            goals.append({"co": g.code_object_id, "pid": g.predicate_id, "val": bool(g.value)})
        else:
            goals.append({"co": g.code_object_id, "pid": None, "val": None})
    archive = CoverageArchive(OrderedSet())
    try:
        gm = _GoalsManager(ffs, archive, sp)
    except KeyError:
        return goals, {"err": "keyError"}, None, None
    except RuntimeError:
        return goals, {"err": "goalNotFound"}, None, None
    except AssertionError as e:
        return goals, {"err": "sanity" if "Root branches" in str(e) else "nodeMissing"}, None, None
    except nx.NetworkXError:
        return goals, {"err": "nodeMissing"}, None, None
    G = gm._graph._graph
    build = {"roots": [index[f] for f in gm._graph.root_branches],
             "children": {str(index[f]): [index[c] for c in gm._graph.get_structural_children(f)]
                          for f in ffs if list(G.successors(f))},
             "parents": {str(index[f]): sorted(index[p] for p in G.predecessors(f))
                         for f in ffs if list(G.predecessors(f))}}
    snap = lambda: {"cur": [index[f] for f in gm.current_goals],  # noqa: E731
                    "cov": [index[f] for f in archive.covered_goals]}
    trace = [snap()]
    calls = [0]
    real_update = archive.update

    def guarded(solutions):  # a broken `while new_goals_added` loop must not hang the check
        calls[0] += 1
        if calls[0] > LOOP_CAP + len(goals):
            raise _Loop
        return real_update(solutions)

    archive.update = guarded
    for step in sched:
        calls[0] = 0
        try:
            gm.update([Sol(set(step), index)])
        except _Loop:
            trace.append({"err": "fuel"})
            break
        trace.append(snap())
    own = None
    if exported is not None:
        own = {"simulated": 0, "failed": []}
        for g, anc in own_chain_plan(goals, *exported):
            arch = CoverageArchive(OrderedSet())
            man = _GoalsManager(ffs, arch, sp)
            chain, covered = set(anc), set()
            ever = {index[f] for f in man.current_goals}
            for _ in range(len(anc) + 2):
                new = {index[f] for f in man.current_goals} & chain - covered
                if not new or g in ever:
                    break
                covered |= new
                real = arch.update
                calls = [0]

                def guarded2(solutions, real=real, calls=calls):
                    calls[0] += 1
                    if calls[0] > LOOP_CAP + len(goals):
                        raise _Loop
                    return real(solutions)

                arch.update = guarded2
                try:
                    man.update([Sol(set(covered), index)])
                except _Loop:
                    break
                finally:
                    arch.update = real
                ever |= {index[f] for f in man.current_goals}
            own["simulated"] += 1
            if g not in ever:
                own["failed"].append({"goal": g, "chain": anc, "covered": sorted(covered)})
    return goals, build, trace, own


# ---------------------------------------------------------------------------------------------------
# synthetic subjects
# ---------------------------------------------------------------------------------------------------
def synthetic_subject(case):
    from bytecode import BasicBlock, Instr

    from pynguin.instrumentation import controlflow as cf
    from pynguin.instrumentation import tracer

    sp = tracer.SubjectProperties()
    nodes_by_co = {}
    for c in case["cos"]:
        cdg = cf.ControlDependenceGraph()
        blocks = {i: cf.BasicBlockNode(index=i, basic_block=BasicBlock([Instr("NOP")])) for i in range(c["nblocks"])}
        nodes_by_co[c["co"]] = blocks
        node = lambda k, blocks=blocks: cf.ArtificialNode.AUGMENTED_ENTRY if k == ROOT else blocks[k - 3]  # noqa: E731
        for k in c["order"]:
            cdg.add_node(node(k))
        for s, t, l in c["edges"]:
            if l is None:
                cdg.add_edge(node(s), node(t))
            else:
                cdg.add_edge(node(s), node(t), branch_value=l, label=l)
        sp.existing_code_objects[c["co"]] = tracer.CodeObjectMetaData(
            code_object=None, parent_code_object_id=None, cfg=None, cdg=cdg)
    for pid, (co, n) in enumerate(case["preds"]):
        blocks = nodes_by_co[co]
        node = blocks[n - 3] if (n - 3) in blocks else None
        if node is None:  # a predicate whose node is not in the CDG
            from bytecode import BasicBlock as BB
            node = cf.BasicBlockNode(index=n - 3, basic_block=BB([Instr("NOP")]))
        # existing_predicates is filled the way register_predicate does (ids are consecutive)
        sp.existing_predicates[pid] = tracer.PredicateMetaData(line_no=1, code_object_id=co, node=node)
    return sp


def gen_syn(rng: random.Random, broken: bool):
    ncos = rng.choice([1, 1, 1, 2, 2, 3])
    cos, preds = [], []
    for co in range(ncos):
        n = rng.randint(0, 9)
        edges = {}
        order = []

        def add(s, t, l):
            if (s, t) not in edges:
                order.append((s, t))
            edges[(s, t)] = l

        conditional = set()
        for b in range(n):
            node = 3 + b
            k = rng.choice([1, 1, 1, 2])
            for _ in range(k):
                cands = [ROOT] + [3 + j for j in range(b)]
                p = rng.choice(cands)
                if p != ROOT and (p in conditional or rng.random() < 0.7):
                    conditional.add(p)
                    add(p, node, rng.random() < 0.5)
                else:
                    add(p, node, None)
        # loops: self edges and back edges from conditional nodes
        for b in range(n):
            node = 3 + b
            if rng.random() < 0.15:
                conditional.add(node)
                add(node, node, rng.random() < 0.5)
            if rng.random() < 0.1 and b > 0:
                tgt = 3 + rng.randrange(b)
                conditional.add(node)
                add(node, tgt, rng.random() < 0.5)
            if rng.random() < 0.08 and b > 0:
                add(node, 3 + rng.randrange(n), None)
        # a conditional node's unlabelled edges are legal too (re-linked edges after pruning)
        node_order = [3 + b for b in range(n)] + [ROOT]
        registered = sorted(conditional)
        if broken:
            k = rng.random()
            if k < 0.3 and registered:
                registered.remove(rng.choice(registered))          # labelled source without predicate
            elif k < 0.5 and n:
                extra = 3 + n
                node_order.insert(rng.randrange(len(node_order)), extra)   # node nobody reaches
                n += 1
                add(extra, 3 + rng.randrange(n), rng.choice([None, True]))
                if rng.random() < 0.6:
                    registered.append(extra)
            elif k < 0.65:
                registered.append(3 + n + 5)                        # predicate on a node outside the CDG
            elif k < 0.8 and n >= 2:
                a, b = rng.sample(range(n), 2)                      # unreachable cycle
                for key in [e for e in edges if e[1] in (3 + a, 3 + b)]:
                    del edges[key]
                    order.remove(key)
                add(3 + a, 3 + b, True)
                add(3 + b, 3 + a, False)
                registered = sorted(set(registered) | {3 + a, 3 + b})
            elif n:
                rng.shuffle(node_order)                              # entry_node may not be the root
        if rng.random() < 0.25 and n:
            registered.append(3 + rng.randrange(n))                 # predicate on a non-conditional node
        registered = list(dict.fromkeys(registered))
        rng.shuffle(registered)
        preds += [(co, k) for k in registered]
        cos.append({"co": co, "nblocks": n, "order": node_order,
                    "edges": [[s, t, edges[(s, t)]] for (s, t) in order]})
    rng.shuffle(preds)
    ngoals = 2 * len(preds) + sum(1 for c in cos if not any(p[0] == c["co"] for p in preds))
    return {"kind": "syn", "cos": cos, "preds": [list(p) for p in preds], "sched": gen_sched(rng, ngoals)}


def gen_sched(rng, ngoals):
    sched = []
    for _ in range(rng.randint(0, 6)):
        k = rng.random()
        if k < 0.15:
            sched.append([])
        elif k < 0.3:
            sched.append(list(range(ngoals)))
        else:
            sched.append(sorted(rng.sample(range(ngoals), rng.randint(0, min(ngoals, 4)))) if ngoals else [])
    sched.append(list(range(ngoals)))  # finally every goal is coverable: everything must get covered
    return sched


# ---------------------------------------------------------------------------------------------------
# generated modules with exclusions
# ---------------------------------------------------------------------------------------------------
def module_source(seed: int):
    """Deterministic from the seed: source text + ToCoverConfiguration lists."""
    import progen
    rng = random.Random(seed)
    feats = None if rng.random() < 0.5 else set(rng.sample(
        ["boolop", "chain", "none", "in", "while", "for", "try", "with", "match", "comp", "closure"], rng.randint(2, 6)))
    with_class = rng.random() < 0.25
    src = progen.gen_module(rng, n_funcs=rng.choice([1, 1, 2]), features=feats, with_class=with_class,
                            with_generator=rng.random() < 0.25)
    mode = rng.choice(["none", "pragma", "pragma", "pragma", "nocover", "onlycover", "mixed"])
    lines = src.split("\n")
    first = next(i for i, l in enumerate(lines) if l.startswith("def f0"))
    if mode in ("pragma", "mixed"):
        p = rng.choice([0.05, 0.12, 0.25])
        for i in range(first, len(lines)):
            # branch marker lines (else/elif/except/finally/case) exclude one branch of a conditional whose
            # header stays coverable: the case in which `visit_node` and `_create_covered_cdg` must agree
            marker = lines[i].strip().startswith(("else:", "elif ", "except ", "finally:", "case "))
            if lines[i].strip() and rng.random() < (0.35 if marker else p):
                lines[i] += rng.choice(["  # pragma: no cover", "  # pragma: no cover", "  # pynguin: no cover"])
    scopes = ["f0", "f1", "gen0", "K0", "K0.method", "K0.get", "_Ctx", "_Ctx.__exit__"]
    scopes = [s for s in scopes if ("def " + s.split(".")[-1] + "(") in src or ("class " + s + ":") in src]
    no_cover, only_cover = [], []
    if mode in ("nocover", "mixed") and scopes:
        no_cover = rng.sample(scopes, rng.randint(1, min(2, len(scopes))))
    if mode == "onlycover" and scopes:
        only_cover = rng.sample(scopes, rng.randint(1, min(2, len(scopes))))
    return "\n".join(lines), sorted(only_cover), sorted(no_cover), mode


# ---------------------------------------------------------------------------------------------------
# targeted small modules: regions (try/with) x exclusions x nested branches, infinite loops, dead code
# ---------------------------------------------------------------------------------------------------
MARKS = ["  # pragma: no cover", "  # pynguin: no cover"]


class Shape:
    """Statement grammar for C07.  The functions are only instrumented, never called: loops need not terminate."""

    def __init__(self, rng):
        self.r = rng
        self.tmp = 0
        self.p_else = rng.choice([0.0, 0.3, 0.5, 0.7])      # else / elif / case lines
        self.p_head = rng.choice([0.0, 0.05, 0.12])          # if / while / for / except / finally / with headers
        self.p_line = rng.choice([0.0, 0.03, 0.08])          # plain statements
        self.p_dead = rng.choice([0.0, 0.15, 0.4])           # statements after return / raise / break / continue
        self.p_inf = rng.choice([0.05, 0.2, 0.4])            # `while True:` / `while 1:`
        self.maxdepth = rng.choice([2, 3, 3])

    def cond(self):
        r = self.r
        k = r.random()
        v = r.choice("abcx")
        if k < 0.5:
            return f"{v} {r.choice(['<', '>', '==', '!='])} {r.randint(0, 5)}"
        if k < 0.7:
            return v
        if k < 0.8:
            return f"{v} > 1 {r.choice(['and', 'or'])} {r.choice('abcx')} < 4"
        if k < 0.9:
            return f"{v} is {r.choice(['', 'not '])}None"
        return f"not {v}"

    def mark(self, line, p, force=False):
        if force or self.r.random() < p:
            return line + self.r.choice(MARKS)
        return line

    def simple(self, p=None):
        r = self.r
        return self.mark(r.choice([f"x = {r.choice('abc')} + {r.randint(0, 3)}", f"x += {r.randint(1, 3)}",
                                   f"{r.choice('abc')} -= 1", "x = g(x)"]), self.p_line if p is None else p)

    @staticmethod
    def ind(ls):
        return ["    " + l for l in ls]

    def block(self, depth, loop, n=None):
        r = self.r
        out = []
        for _ in range(n if n is not None else r.choice([1, 1, 1, 2, 2, 3])):
            st, term = self.stmt(depth, loop)
            out += st
            if term and r.random() >= self.p_dead:
                break
        return out

    def nested(self, depth, loop):
        """A body that holds at least one branch (the goals that hang below a pruned / re-linked node)."""
        r = self.r
        k = r.choice(["if", "if", "for", "while", "ifelse"])
        ind = self.ind
        if k == "if":
            out = [f"if {self.cond()}:"] + ind(self.block(depth + 1, loop, 1))
        elif k == "ifelse":
            out = [f"if {self.cond()}:"] + ind(self.block(depth + 1, loop, 1)) + ["else:"] + ind([self.simple()])
        elif k == "for":
            self.tmp += 1
            out = [f"for i{self.tmp} in items:"] + ind(self.block(depth + 1, True, 1))
        else:
            out = [f"while {self.cond()}:"] + ind(self.block(depth + 1, True, 1))
        if r.random() < 0.4:  # an excluded plain line in the same basic block as a conditional that is to be covered
            out = [self.simple(0.35)] + out
        return out

    def excluded_conditional(self, depth, loop):
        """A conditional one of whose branches is excluded, with branches nested in the surviving one."""
        r = self.r
        ind = self.ind
        k = r.choice(["ifelse", "ifelse", "ifelse", "elif", "whileelse", "forelse", "ifhead", "match"])
        body = self.nested(depth + 1, loop)
        tail = r.choice([[self.simple()], ["return -1"], ["x = -1"], ["raise ValueError(x)"]])
        if k == "ifelse":
            return [f"if {self.cond()}:"] + ind(body) + [self.mark("else:", 1, True)] + ind(tail)
        if k == "elif":
            return ([f"if {self.cond()}:"] + ind(body) + [self.mark(f"elif {self.cond()}:", 0.5)] + ind([self.simple()])
                    + [self.mark("else:", 1, True)] + ind(tail))
        if k == "whileelse":
            c = "True" if r.random() < self.p_inf else self.cond()
            return [f"while {c}:"] + ind(self.nested(depth + 1, True)) + [self.mark("else:", 1, True)] + ind(tail)
        if k == "forelse":
            self.tmp += 1
            return ([f"for i{self.tmp} in items:"] + ind(self.nested(depth + 1, True))
                    + [self.mark("else:", 1, True)] + ind(tail))
        if k == "ifhead":
            return [self.mark(f"if {self.cond()}:", 1, True)] + ind(body) + (["else:"] + ind(tail) if r.random() < 0.5 else [])
        return ([f"match {r.choice('abx')}:", "    case 0:"] + ind(ind(body))
                + [self.mark("    case 1 | 2:", 1, True)] + ind(ind(tail))
                + ([self.mark("    case _:", 0.5)] + ind(ind([self.simple()])) if r.random() < 0.5 else []))

    def focus(self, depth, loop):
        """A try / with region directly followed by (or wrapped around) an excluded conditional."""
        r = self.r
        ind = self.ind
        cond = self.excluded_conditional(depth + 1, loop)
        k = r.choice(["after-tryret", "after-tryret", "after-tryret", "after-with", "after-tryfin", "in-with", "in-try",
                      "in-tryfin", "plain"])
        leave = r.choice(["return -1", "raise", "return x", "raise KeyError(a)"] + (["continue", "break"] if loop else []))
        exc = r.choice(["ValueError", "KeyError", "(TypeError, ValueError)", "Exception"])
        if k == "after-tryret":
            return ["try:"] + ind(["x = int(a)"]) + [f"except {exc}:"] + ind([leave]) + cond
        if k == "after-with":
            return ["with g(a) as cm:"] + ind([self.simple()]) + cond
        if k == "after-tryfin":
            return ["try:"] + ind(["x = g(a)"]) + ["finally:"] + ind([self.simple()]) + cond
        if k == "in-with":
            return ["with g(a) as cm:"] + ind(cond)
        if k == "in-try":
            return ["try:"] + ind(cond) + [f"except {exc}:"] + ind([leave])
        if k == "in-tryfin":
            return ["try:"] + ind(cond) + ["finally:"] + ind([self.simple()])
        return cond

    def stmt(self, depth, loop):
        """(lines, leaves the block?)"""
        r = self.r
        kinds = ["simple"] * 3 + ["return", "raise"]
        if loop:
            kinds += ["break", "continue"]
        if depth < self.maxdepth:
            kinds += ["if", "if", "ifelse", "ifelse", "ifelse", "elif", "while", "whileelse", "for", "forelse",
                      "tryret", "tryret", "try", "tryfin", "with", "match", "focus", "focus", "focus"]
        k = r.choice(kinds)
        ind = self.ind
        if k == "simple":
            return [self.simple()], False
        if k == "return":
            return [self.mark(f"return {r.choice(['x', 'a', '-1', 'None'])}", self.p_line)], True
        if k == "raise":
            return [self.mark("raise ValueError(x)", self.p_line)], True
        if k in ("break", "continue"):
            return [self.mark(k, self.p_line)], True
        if k == "focus":
            return self.focus(depth, loop), False
        if k == "if":
            return [self.mark(f"if {self.cond()}:", self.p_head)] + ind(self.block(depth + 1, loop)), False
        if k == "ifelse":
            return ([self.mark(f"if {self.cond()}:", self.p_head)] + ind(self.block(depth + 1, loop))
                    + [self.mark("else:", self.p_else)] + ind(self.block(depth + 1, loop))), False
        if k == "elif":
            return ([self.mark(f"if {self.cond()}:", self.p_head)] + ind(self.block(depth + 1, loop))
                    + [self.mark(f"elif {self.cond()}:", self.p_else)] + ind(self.block(depth + 1, loop))
                    + ([self.mark("else:", self.p_else)] + ind(self.block(depth + 1, loop))
                       if r.random() < 0.6 else [])), False
        if k in ("while", "whileelse"):
            c = r.choice(["True", "True", "1"]) if r.random() < self.p_inf else self.cond()
            out = [self.mark(f"while {c}:", self.p_head)] + ind(self.block(depth + 1, True))
            if k == "whileelse":
                out += [self.mark("else:", self.p_else)] + ind(self.block(depth + 1, loop, 1))
            return out, False
        if k in ("for", "forelse"):
            self.tmp += 1
            it = r.choice(["range(a)", "[a, b]", "items", "g(x)"])
            out = [self.mark(f"for i{self.tmp} in {it}:", self.p_head)] + ind(self.block(depth + 1, True))
            if k == "forelse":
                out += [self.mark("else:", self.p_else)] + ind(self.block(depth + 1, loop, 1))
            return out, False
        if k == "tryret":  # the try body falls through into whatever follows; the handler leaves
            h = r.choice(["return -1", "raise", "return x", "raise KeyError(a)"] + (["continue", "break"] if loop else []))
            body = [r.choice(["x = int(a)", "x = int(a)", "pass", "return None"])]
            out = (["try:"] + ind(body + (self.block(depth + 1, loop, 1) if r.random() < 0.4 else []))
                   + [self.mark(f"except {r.choice(['ValueError', 'KeyError', '(TypeError, ValueError)', 'Exception'])}:",
                                self.p_head)] + ind([h]))
            return out, False
        if k == "try":
            out = ["try:"] + ind(self.block(depth + 1, loop))
            out += ([self.mark(f"except {r.choice(['ValueError', 'KeyError'])}:", self.p_head)]
                    + ind(self.block(depth + 1, loop, 1)))
            if r.random() < 0.3:
                out += [self.mark("except TypeError as e:", self.p_head)] + ind(self.block(depth + 1, loop, 1))
            if r.random() < 0.3:
                out += [self.mark("else:", self.p_else)] + ind(self.block(depth + 1, loop, 1))
            if r.random() < 0.3:
                out += [self.mark("finally:", self.p_head)] + ind(self.block(depth + 1, False, 1))
            return out, False
        if k == "tryfin":
            return (["try:"] + ind(self.block(depth + 1, loop)) + [self.mark("finally:", self.p_head)]
                    + ind([self.simple()])), False
        if k == "with":
            return [self.mark("with g(a) as cm:", self.p_head)] + ind(self.block(depth + 1, loop)), False
        if k == "match":
            out = [f"match {r.choice('abx')}:", self.mark(f"    case {r.randint(0, 2)}:", self.p_else)]
            out += ind(ind(self.block(depth + 2, loop, 1)))
            out += [self.mark(f"    case {r.randint(3, 5)} | 7:", self.p_else)] + ind(ind(self.block(depth + 2, loop, 1)))
            if r.random() < 0.6:
                out += [self.mark("    case _:", self.p_else)] + ind(ind(self.block(depth + 2, loop, 1)))
            return out, False
        raise AssertionError(k)

    def function(self, name, method=False, guarded=False, inner=False, n=None):
        """`guarded`: the first basic block ends in a conditional with a branch nested below (every such function has
        predicates on the same block indices); `inner`: a nested function (own code object) with the same start."""
        body = ["x = 0"]
        if inner:
            body = (["def inner(a, b, c, items=()):"] + self.ind(["x = 0"] + self.nested(1, False) + ["return x"])
                    + ["x = inner(a, b, c)"])
        if guarded:
            body += self.nested(0, False)
        body += self.block(0, False, self.r.randint(1, 3) if n is None else n)
        if self.r.random() < 0.8:
            body += ["return x"]
        return [f"def {name}({'self, ' if method else ''}a, b, c, items=()):"] + self.ind(body)


def target_source(seed: int):
    """Deterministic from the seed: a small module of the C07 shape grammar (+ scope lists now and then)."""
    rng = random.Random(seed)
    sh = Shape(rng)
    lines = ["def g(v):", "    return v", ""]
    names = []
    layout = rng.choice(["plain", "plain", "plain", "twins", "family", "family"])
    if layout == "plain":
        for i in range(rng.choice([1, 1, 2])):
            lines += sh.function(f"f{i}") + [""]
            names.append(f"f{i}")
    elif layout == "twins":
        # the same function two or three times (same shape = same block indices, same predicate positions), the
        # later copies now and then with one more leading / one fewer trailing statement
        state, tmp = rng.getstate(), sh.tmp
        copies = rng.choice([2, 2, 2, 3])
        variants = [rng.choice(["same", "same", "lead", "cut"]) for _ in range(copies)]
        after = None
        for i in range(copies):
            rng.setstate(state)
            sh.tmp = tmp
            fn = sh.function(f"f{i}")
            after = after or rng.getstate()
            if i and variants[i] == "lead":
                fn = [fn[0], "    a = g(a)"] + fn[1:]
            elif i and variants[i] == "cut" and len(fn) > 3 and not fn[-1].startswith("     "):
                fn = fn[:-1]
            lines += fn + [""]
            names.append(f"f{i}")
        rng.setstate(after)
    else:
        # several code objects that all start with a guard and a branch nested below it: functions, methods of a
        # class, a nested function
        k = rng.choice([2, 2, 3, 4])
        n_methods = rng.choice([0, 0, 1, 2]) if k > 2 else rng.choice([0, 0, 2])
        sh.maxdepth = 2
        for i in range(k - n_methods):
            lines += sh.function(f"f{i}", guarded=rng.random() < 0.85, inner=rng.random() < 0.2, n=1) + [""]
            names.append(f"f{i}")
        if n_methods:
            lines += ["class K:"]
            for i in range(n_methods):
                lines += sh.ind(sh.function(f"m{i}", method=True, guarded=rng.random() < 0.85, n=1)) + [""]
                names.append(f"K.m{i}")
    only_cover, no_cover = [], []
    k = rng.random()
    if k < 0.08:
        no_cover = [rng.choice(names + ["g"])]
    elif k < 0.16:
        only_cover = [rng.choice(names)]
    return "\n".join(lines) + "\n", only_cover, no_cover


ANCHOR_FILES = ("controlflow.py", "dynamosaalgorithm.py")
CFG_KEYERROR = "cfg-construction-keyerror-unreachable-loop"


def instrument_capturing(src, only_cover, no_cover):
    """instr.instrument_module with the arguments of the real `_create_covered_cdg` recorded per CFG."""
    import instr
    from pynguin.instrumentation import transformer as tr
    captured = {}
    real = tr.InstrumentationTransformer._create_covered_cdg

    def spy(self_, cfg, ast_info):
        captured[id(cfg)] = (cfg, ast_info)
        return real(self_, cfg, ast_info)

    tr.InstrumentationTransformer._create_covered_cdg = spy
    try:
        mod, sp, d = instr.instrument_module(src, only_cover=only_cover, no_cover=no_cover)
    except BaseException:
        # instr.instrument_module leaves its scratch directory behind when the import raises
        import glob
        import os
        import shutil
        import tempfile
        for f in glob.glob(os.path.join(tempfile.gettempdir(), "verif_instr_*", f"verifsut_{os.getpid()}_*.py")):
            if not any(getattr(m, "__file__", None) == f for m in list(sys.modules.values())):
                shutil.rmtree(os.path.dirname(f), ignore_errors=True)
        raise
    finally:
        tr.InstrumentationTransformer._create_covered_cdg = real
    return mod, sp, d, captured


def has_unreachable_cycle(src):
    """Independent of `_insert_dummy_nodes`: does some code object's raw block graph hold a cycle that the first
    block does not reach?  (Edges as pynguin creates them, reachability / cycles by networkx.)"""
    import networkx as nx
    from bytecode import Bytecode, ControlFlowGraph

    import progen
    from pynguin.instrumentation import controlflow as cf
    from pynguin.instrumentation import version
    try:
        for code in progen.all_code_objects(compile(src, "<c07>", "exec")):
            blocks = ControlFlowGraph.from_bytecode(version.add_for_loop_no_yield_nodes(Bytecode.from_code(code)))
            cfg = cf.CFG(blocks)
            cf.CFG._split_try_begin_blocks(blocks)
            edges, nodes = cf.CFG._create_nodes_and_edges(blocks)
            cf.CFG._create_graph(cfg, edges, nodes)
            entry = cfg.first_basic_block_node
            reach = nx.descendants(cfg.graph, entry) | {entry}
            for scc in nx.strongly_connected_components(cfg.graph):
                n = next(iter(scc))
                if n not in reach and (len(scc) > 1 or cfg.graph.has_edge(n, n)):
                    return True
    except Exception:  # noqa: BLE001
        return False
    return False


def instrumentation_failure(e, src):
    """Where the real instrumentation raised: the innermost pynguin frame, and whether it is C07's business."""
    import os
    import traceback
    frames = [f for f in traceback.extract_tb(e.__traceback__) if "/pynguin/" in f.filename]
    names = [(os.path.basename(f.filename), f.name) for f in frames]
    last = names[-1] if names else ("?", "?")
    anchored = last[0] in ANCHOR_FILES or any(n == "_create_covered_cdg" for _, n in names)
    out = {"instr_err": type(e).__name__, "file": last[0], "func": last[1], "anchored": anchored, "src": src,
           "unreachable_cycle": False}
    if anchored and isinstance(e, KeyError) and any(n == "_insert_dummy_nodes" for _, n in names):
        out["unreachable_cycle"] = has_unreachable_cycle(src)
    return out


class C07(PropertyCheck):
    prop_id = "C07"
    prop_modules = ["PynguinModel.Props.C07"]
    extra_modules = ["PynguinModel.Model.GoalGraph"]
    driver = "Driver/C07.lean"
    n_quick = 180
    n_thorough = 3000
    n_search = 1500
    MOD_SHARE = {"quick": 0.05, "thorough": 0.08}
    TGT_SHARE = {"quick": 0.40, "thorough": 0.40}
    rule = ("tgt = small module of the C07 shape grammar (try/except-return, try/finally, with regions followed by / "
            "wrapped around conditionals and loops with an excluded else / elif / case / header line and branches "
            "nested below; while True loops; dead code after return/raise/break; loops in handlers; no-cover / "
            "only-cover lists); mod = generated module (progen: nested/sequential branches, loops, try/except, early returns, with/"
            "match/comprehensions/closures) with random pragma / pynguin no-cover markers and no-cover / only-cover "
            "scope lists, instrumented by the real import hook; syn = synthetic registries over hand-built "
            "ControlDependenceGraphs (half of them deliberately ill-formed); each with a cover schedule of up to 7 "
            "update calls; non-trivial = distinct goal graph with at least one structural edge")
    assumptions = [
        "the theorem's hypotheses about a module (CoOK/RegistryOK: predicate nodes reachable from the CDG root, "
        "labelled edges leave registered predicates, CDG answers = graph definition) are validated per exported "
        "module by verified checkers (checkModule_sound), not derived from CPython's compiler",
        "solutions are stand-ins that cover a scheduled set of goals; executing tests is out of scope (C10/C13)",
    ]
    trusted_base_extra = ["networkx DiGraph adjacency order is exported, not modelled",
                          "C06's DFS models controlDeps/rootDep (Model/Cdg.lean) are compared, their completeness "
                          "is not proved: the implementation's answers are certified per node instead"]

    def __init__(self, tier, seed):
        super().__init__(tier, seed)
        self._cache = {}

    # ---- generation ----
    def gen_case(self, rng):
        k = rng.random()
        if k < self.MOD_SHARE[self.tier]:
            return {"kind": "mod", "seed": rng.randrange(1 << 30), "sched_seed": rng.randrange(1 << 30)}
        if k < self.MOD_SHARE[self.tier] + self.TGT_SHARE[self.tier]:
            return {"kind": "tgt", "seed": rng.randrange(1 << 30), "sched_seed": rng.randrange(1 << 30)}
        return gen_syn(rng, broken=rng.random() < 0.45)

    # ---- implementation ----
    def impl(self, case):
        key = vcommon.jdump(case)
        if key in self._cache:
            return self._cache[key]
        out = self._impl(case)
        self._cache[key] = out
        return out

    def _impl(self, case):
        kind = case["kind"]
        self.count("kind:" + kind)
        if kind == "syn":
            sp = synthetic_subject(case)
            preds, cos = export_subject(sp, with_full=False)
            goals, build, trace, own = run_goals(sp, case["sched"], (preds, cos))
            self.count("code-objects-with-predicates:" + str(min(len({p["co"] for p in preds}), 3)))
            return {"goals": goals, "preds": preds, "cos": cos, "sched": case["sched"], "build": build,
                    "trace": trace, "own": own}
        import instr
        if kind == "mod":
            src, only_cover, no_cover, mode = module_source(case["seed"])
            self.count("exclusions:" + mode)
        elif kind == "tgt":
            src, only_cover, no_cover = target_source(case["seed"])
            self.count("tgt-exclusions:" + ("marks" if "no cover" in src else "none")
                       + ("+scopes" if only_cover or no_cover else ""))
        else:
            src, only_cover, no_cover = case["src"], case.get("only_cover", []), case.get("no_cover", [])
        try:
            mod, sp, d, captured = instrument_capturing(src, only_cover, no_cover)
        except ValueError as e:  # overlapping only/no cover lists: pynguin rejects the configuration
            self.count("config-rejected")
            return {"skipped": str(e)[:80]}
        except Exception as e:  # noqa: BLE001  the real instrumentation raised: classified by the oracle
            out = instrumentation_failure(e, src)
            self.count(f"instrumentation-raised:{out['instr_err']}@{out['file']}:{out['func']}")
            return dict(out, only_cover=only_cover, no_cover=no_cover)
        try:
            preds, cos = export_subject(sp, with_full=True, captured=captured)
            ngoals = 2 * len(preds) + sum(1 for c in cos if not any(p["co"] == c["co"] for p in preds))
            sched = case.get("sched")
            if sched is None:
                sched = gen_sched(random.Random(case.get("sched_seed", 0)), ngoals)
            goals, build, trace, own = run_goals(sp, sched, (preds, cos))
        finally:
            instr.cleanup(d, mod)
        self.count("removed-nodes:" + ("yes" if any(c["removed"] for c in cos) else "no"))
        mixed = any(b["isBlock"] and any(b["elems"]) and not all(b["elems"]) for c in cos for b in (c["binfo"] or []))
        self.count("block-mixing-pseudo-and-real-instr:" + ("yes" if mixed else "no"))
        mixed_removed = any(b["isBlock"] and any(b["elems"]) and not all(b["elems"]) and b["node"] in c["removed"]
                            for c in cos for b in (c["binfo"] or []))
        self.count("removed-block-with-pseudo-instr:" + ("yes" if mixed_removed else "no"))
        self.count(f"goals:{min(len(goals) // 10 * 10, 60)}+")
        self.count("code-objects-with-predicates:" + str(min(len({p["co"] for p in preds}), 3)))
        self.count("predicate-node-index-shared-by-code-objects:"
                   + ("yes" if len({p["node"] for p in preds}) < len({(p["co"], p["node"]) for p in preds}) else "no"))
        return {"goals": goals, "preds": preds, "cos": cos, "sched": sched, "build": build, "trace": trace,
                "own": own, "src": src, "only_cover": only_cover, "no_cover": no_cover}

    # ---- model ----
    def model_line(self, case):
        io = self.impl(case)
        if "skipped" in io or "instr_err" in io:
            return None
        cos = [{k: c[k] for k in ("co", "nodes", "blocks", "root", "ge", "full", "removed", "ans", "hasAst", "binfo")}
               for c in io["cos"]]
        return vcommon.jdump({"goals": io["goals"], "preds": io["preds"], "cos": cos, "sched": io["sched"]})

    @staticmethod
    def _children(edges):
        ch = {}
        for j, i in edges:
            ch.setdefault(str(j), []).append(i)
        return ch

    def compare(self, case, io, mo):
        if "bad-op" in mo:
            return False
        ib, mb = io["build"], mo["build"]
        if "err" in ib or "err" in mb:
            ok = ib.get("err") == mb.get("err")
        else:
            ok = ib["roots"] == mb["roots"] and ib["children"] == self._children(mb["edges"])
            ok = ok and io["trace"] == mo["trace"]
        # the two CDG queries, answer by answer, in order
        for c, answers, entry in zip(io["cos"], mo["answers"], mo["entry"]):
            want = [{"node": a["node"], "deps": a["deps"], "rootDep": a["rootDep"]} for a in c["ans"]]
            ok = ok and want == answers and c["entry"] == entry
        # `_create_covered_cdg`: the re-linked graph as a set of labelled edges
        for c, rel in zip(io["cos"], mo["relinked"]):
            if c["full"] is not None:
                have = sorted([[e["s"], e["t"], e["l"]] for e in c["ge"]], key=lambda e: (e[0], e[1], str(e[2])))
                ok = ok and sorted(rel, key=lambda e: (e[0], e[1], str(e[2]))) == have
        # `_create_covered_cdg` as a whole: the model selects the nodes to remove itself (same nodes, same order),
        # its covered CDG is the stored one, the hypotheses of `covered_cdg_ok` hold, predicates sit behind the gate
        for c, pr in zip(io["cos"], mo["prune"]):
            if c["binfo"] is None:
                ok = ok and pr is None
                continue
            have = sorted([[e["s"], e["t"], e["l"]] for e in c["ge"]], key=lambda e: (e[0], e[1], str(e[2])))
            ok = ok and pr is not None and "bad-op" not in pr and pr["removed"] == c["removed"] \
                and sorted(pr["covered"], key=lambda e: (e[0], e[1], str(e[2]))) == have \
                and pr["prune"] is True and pr["regGate"] is True
        # the verified checkers accept every real module; then the model fed with the REAL answers builds
        # the same graph (checkModule_sound: it cannot fail and every goal is reachable)
        if mo["hyp"]:
            self.count("hyp:certified")
            ok = ok and "err" not in ib and mo["buildFromRealAnswers"] == mb
        else:
            self.count("hyp:not-certified")
            if case["kind"] != "syn":
                ok = False
        return ok

    # ---- the property in its own words, on the implementation's behaviour ----
    def _wellformed(self, io):
        """Independent (Python) statement of the theorem's hypotheses; only used for synthetic inputs."""
        for c in io["cos"]:
            pn = {p["node"] for p in io["preds"] if p["co"] == c["co"]}
            adj = {}
            for e in c["ge"]:
                adj.setdefault(e["s"], []).append(e["t"])
                if e["l"] is not None and e["s"] in c["blocks"] and e["s"] not in pn:
                    return False
            seen, todo = {ROOT}, [ROOT]
            while todo:
                x = todo.pop()
                for y in adj.get(x, ()):
                    if y not in seen:
                        seen.add(y)
                        todo.append(y)
            if not pn <= seen or not pn <= set(c["nodes"]):
                return False
            if not set(c["nodes"]) <= seen:  # `entry_node` is only guaranteed to be the root then
                return False
        return True

    def oracle(self, case, io):
        if "skipped" in io:
            return []
        fs = []
        sig = lambda c: {"kind": case["kind"], "class": c}  # noqa: E731
        if "instr_err" in io:
            # no goal graph can be built for a module the anchored CFG / CDG construction rejects; failures of
            # other parts of the instrumentation (bytecode assembly, adapters) are not C07's and only counted
            if not io["anchored"]:
                return []
            if io["unreachable_cycle"]:
                return [Failure({"class": CFG_KEYERROR},
                                "CFG.from_bytecode raises KeyError in _insert_dummy_nodes for a loop that the first "
                                "block does not reach: the module cannot be instrumented, no goal graph is built",
                                detail={"src": io["src"]})]
            return [Failure(sig(f"instrumentation-raises-{io['instr_err']}-in-{io['func']}"),
                            f"{io['file']}:{io['func']} raised {io['instr_err']} while instrumenting the module",
                            detail={"src": io["src"], "only_cover": io["only_cover"], "no_cover": io["no_cover"]})]
        build = io["build"]
        demanding = case["kind"] != "syn" or self._wellformed(io)
        if "err" in build:
            if demanding:
                fs.append(Failure(sig("build-raises-" + build["err"]),
                                  f"building the goal graph failed with {build['err']}", detail=self._detail(io)))
            return fs
        n = len(io["goals"])
        roots = set(build["roots"])
        parents = {int(k): v for k, v in build["parents"].items()}
        children = {int(k): v for k, v in build["children"].items()}
        if demanding:
            # every control dependency of a registered predicate resolves to a registered predicate
            for c in io["cos"]:
                pn = {p["node"] for p in io["preds"] if p["co"] == c["co"]}
                for a in c["ans"]:
                    for dnode, _ in a["deps"]:
                        if dnode not in pn:
                            fs.append(Failure(sig("dependency-unresolved"),
                                              f"control dependency of node {a['node']} on unregistered node {dnode}",
                                              detail=self._detail(io)))
            # every goal is a root goal or depends on some goal, and is reachable from the root goals
            reach, todo = set(roots), list(roots)
            while todo:
                x = todo.pop()
                for y in children.get(x, ()):
                    if y not in reach:
                        reach.add(y)
                        todo.append(y)
            lost = [g for g in range(n) if g not in reach]
            if lost:
                fs.append(Failure(sig("goal-unreachable"),
                                  f"goals {lost[:6]} are not reachable from the root goals", detail=self._detail(io)))
        # a goal's structural parents are exactly its OWN control dependencies: goals of predicates of the same
        # code object that sit on the nodes its predicate is control dependent on (CDG edges as exported)
        ref = reference_structure(io["goals"], io["preds"], io["cos"])
        for g in range(n):
            if ref[g]["deps"] is None:
                if parents.get(g):
                    fs.append(Failure(sig("parent-of-goal-without-dependencies"),
                                      f"goal {g} (branch-less code object / node outside its CDG) has parents "
                                      f"{parents[g]}", detail=self._detail(io)))
                    break
                continue
            have = {ref[p]["key"] for p in parents.get(g, [])}
            want = ref[g]["deps"]
            if have == want:
                continue
            foreign = sorted(p for p in parents.get(g, []) if ref[p]["owner"] != ref[g]["owner"])
            if foreign:
                fs.append(Failure(sig("parent-goal-of-another-code-object"),
                                  f"goal {g} {io['goals'][g]} of code object {ref[g]['owner']} structurally depends on "
                                  f"goals {foreign} of code objects {sorted({ref[p]['owner'] for p in foreign})}; its "
                                  f"predicate's control dependencies (code object, node, value) are {sorted(want)}",
                                  detail=self._detail(io)))
            else:
                fs.append(Failure(sig("parents-missing" if have < want else "parents-differ-from-control-dependencies"),
                                  f"goal {g} {io['goals'][g]}: structural parents {sorted(have, key=repr)} but its predicate is "
                                  f"control dependent on {sorted(want)} (code object, node, value)",
                                  detail=self._detail(io)))
            break
        # covering exactly a goal's own dependency chain (a test that exercises only that function) makes it current
        if demanding and io.get("own") and io["own"]["failed"]:
            f = io["own"]["failed"][0]
            fs.append(Failure(sig("goal-not-current-after-own-dependency-chain-covered"),
                              f"goal {f['goal']} {io['goals'][f['goal']]} never became current on a fresh goals manager "
                              f"although the goals of its own dependency chain {f['chain']} were covered as they "
                              f"became current (covered: {f['covered']})", detail=self._detail(io)))
        # along the schedule: initial goals are the roots; a goal whose dependencies are all covered is
        # current (or covered already); current goals are uncovered
        trace = io["trace"]
        if trace and set(trace[0].get("cur", [])) != roots:
            fs.append(Failure(sig("root-not-initial"), "initial current goals differ from the root goals"))
        for k, st in enumerate(trace):
            if "err" in st:
                fs.append(Failure(sig("update-does-not-terminate"), "the update loop did not terminate"))
                break
            cur, cov = set(st["cur"]), set(st["cov"])
            for g in range(n):
                ps = parents.get(g, [])
                ready = (g in roots) or (ps and all(p in cov for p in ps))
                if ready and g not in cur and g not in cov:
                    fs.append(Failure(sig("goal-not-current-after-dependencies-covered"),
                                      f"after update {k}: goal {g} is neither current nor covered although "
                                      f"{'it is a root goal' if g in roots else 'all its parents ' + str(ps) + ' are covered'}",
                                      detail=self._detail(io)))
                    break
            if cur & cov:
                fs.append(Failure(sig("covered-goal-still-current"), f"after update {k}: {sorted(cur & cov)[:5]}"))
        if demanding and trace and "err" not in trace[-1]:
            # the last update offers a solution for every goal: nothing may stay uncovered
            if io["sched"] and len(io["sched"][-1]) == n and set(trace[-1]["cov"]) != set(range(n)):
                fs.append(Failure(sig("goal-never-becomes-current"),
                                  f"goals {sorted(set(range(n)) - set(trace[-1]['cov']))[:6]} stay uncovered although "
                                  "every goal is coverable", detail=self._detail(io)))
        return fs[:5]

    def witnesses(self):
        """Replay the witnesses of the recorded findings on the implementation."""
        fs = []
        for k in vcommon.load_known(self.prop_id):
            case = k.get("witness")
            if not case:
                continue
            for f in self.oracle(case, self.impl(case)):
                if f.signature == k["signature"]:
                    f.case = case
                    fs.append(f)
        return fs

    @staticmethod
    def _detail(io):
        return {"src": io.get("src"), "only_cover": io.get("only_cover"), "no_cover": io.get("no_cover"),
                "preds": io["preds"], "build": io["build"]}

    def classify(self, case, io):
        if "instr_err" in io:
            return None
        if "skipped" in io or "err" in io["build"]:
            return None if "skipped" in io else "err:" + vcommon.jdump([io["build"], io["preds"], [c["ge"] for c in io["cos"]]])
        if io["build"]["children"]:
            return vcommon.jdump([io["build"], io["sched"]])
        return None


if __name__ == "__main__":
    run_main(C07)
