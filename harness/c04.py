"""C04 — branch distances are non-negative and zero exactly for the outcome taken (DESIGN §5 C04).

Two tiers of correspondence with the Lean model (`Driver/C04.lean`), both through the REAL tracer
(`ExecutionTracer.executed_compare_predicate / executed_bool_predicate / executed_exception_match`):

* value tier (`cmp`, `bool`, `exc`): ints of any size, bools, floats (NaN, ±inf, ±0.0, subnormals),
  str, bytes, None and lists are sent to the model, which computes Python's own operator, both helper
  distances (with an IEEE-754 binary64 rounding written in Lean) and the recorded distances; all four
  are compared exactly (floats as exact rationals) with the real code;
* abstract tier (`abs`, `boolabs`): Decimal, Fraction, complex, sets, dicts, tuples, iterators,
  generators, ranges and generated classes with every subset of the rich comparisons
  defined / raising / returning NotImplemented / lying: the harness observes what the comparison and
  the helper functions do on fresh copies and the model combines these observations.

Oracle (independent of the model): Python's own operator on a fresh copy of the operands.
The variant (`repaired` = after proposed_fixes/C04-robust-branch-distances.diff, `legacy` = before)
is read off the tree under test; the oracle does not depend on it.
"""
from __future__ import annotations

import abc
import math
import operator
import threading
from decimal import Decimal
from fractions import Fraction

import vcommon
from vcommon import Failure, PropertyCheck, run_main

OPS = ["lt", "le", "eq", "ne", "gt", "ge", "in", "notin", "is", "isnot"]
PYOP = {"lt": operator.lt, "le": operator.le, "eq": operator.eq, "ne": operator.ne,
        "gt": operator.gt, "ge": operator.ge, "in": lambda a, b: a in b,
        "notin": lambda a, b: a not in b, "is": operator.is_, "isnot": operator.is_not}
# (helper for the true outcome, swap?), (helper for the false outcome, swap?) — the table the
# property is about; read here from the *names* of the helper functions, not from `_COMPARISONS`
HELPERS = {"eq": (("_eq", False), ("_neq", False)), "ne": (("_neq", False), ("_eq", False)),
           "lt": (("_lt", False), ("_le", True)), "le": (("_le", False), ("_lt", True)),
           "gt": (("_lt", True), ("_le", False)), "ge": (("_le", True), ("_lt", False)),
           "in": (("_in", False), ("_nin", False)), "notin": (("_nin", False), ("_in", False)),
           "is": (("_is", False), ("_isn", False)), "isnot": (("_isn", False), ("_is", False))}
SENTINEL = {"ok": [12345, 1]}  # stands for "not evaluated"; would show up if the model used it
ERRS = {"TypeError", "ValueError", "OverflowError", "AssertionError"}


def err_name(e: BaseException) -> str:
    n = type(e).__name__
    return n if n in ERRS else "Other"


def num_j(x):
    """A Python float/int distance as exact JSON."""
    if isinstance(x, float):
        if math.isnan(x):
            return "nan"
        if math.isinf(x):
            return "inf" if x > 0 else "-inf"
    f = Fraction(x)
    return [f.numerator, f.denominator]


def guarded(f, conv=lambda x: x):
    try:
        return {"ok": conv(f())}
    except Exception as e:  # noqa: BLE001 - exceptions are data here
        return {"err": err_name(e)}


class _MetaTrue(type):
    def __subclasscheck__(cls, sub):
        return True


class _MetaFalse(type):
    def __subclasscheck__(cls, sub):
        return False


# ---- generated classes with partial comparison protocols -------------------------------------
_CLASS_CACHE: dict = {}


def _key_of(o):
    if isinstance(o, (int, float)) and not isinstance(o, bool):
        return o
    return getattr(o, "key", None)


def make_class(ops: dict, extras: dict):
    sig = vcommon.jdump([ops, extras])
    if sig in _CLASS_CACHE:
        return _CLASS_CACHE[sig]
    ns = {}
    real = {"lt": operator.lt, "le": operator.le, "gt": operator.gt, "ge": operator.ge,
            "eq": operator.eq, "ne": operator.ne}

    def mk(name, mode):
        def method(self, other):
            if mode == "raise":
                raise ValueError(name)
            if mode == "type":
                raise TypeError(name)
            if mode == "ni":
                return NotImplemented
            k = _key_of(other)
            if k is None:
                return NotImplemented
            r = real[name](self.key, k)
            return (not r) if mode == "lie" else r
        return method

    for name, mode in ops.items():
        if mode != "absent":
            ns[f"__{name}__"] = mk(name, mode)
    if extras.get("hash"):
        ns["__hash__"] = lambda self: hash(self.key)
    b = extras.get("bool")
    if b == "raise":
        def _bool(self):
            raise KeyError("bool")
        ns["__bool__"] = _bool
    elif b in ("true", "false"):
        ns["__bool__"] = lambda self, _b=(b == "true"): _b
    ln = extras.get("len")
    if ln == "raise":
        def _len(self):
            raise ValueError("len")
        ns["__len__"] = _len
    elif isinstance(ln, int):
        ns["__len__"] = lambda self, _n=ln: _n
    c = extras.get("contains")
    if c == "raise":
        def _contains(self, item):
            raise ValueError("contains")
        ns["__contains__"] = _contains
    elif c in ("true", "false"):
        ns["__contains__"] = lambda self, item, _b=(c == "true"): _b
    if extras.get("iter") is not None:
        ns["__iter__"] = lambda self, _xs=tuple(extras["iter"]): iter(_xs)

    def __init__(self, key):
        self.key = key
    ns["__init__"] = __init__
    cls = type("Gen", (object,), ns)
    _CLASS_CACHE[sig] = cls
    return cls


# ---- building values from JSON specs ---------------------------------------------------------
def mk_float(tok):
    if tok == "nan":
        return float("nan")
    if tok == "inf":
        return float("inf")
    if tok == "-inf":
        return float("-inf")
    if tok == "-0.0":
        return -0.0
    return float(Fraction(tok[0], tok[1]))


def mk(spec):
    """A fresh Python object for a value spec."""
    if spec == "none":
        return None
    (k, v), = spec.items()
    if k == "int":
        return int(v)
    if k == "bool":
        return bool(v)
    if k == "float":
        return mk_float(v)
    if k == "str":
        return "".join(map(chr, v))
    if k == "bytes":
        return bytes(v)
    if k == "list":
        return [mk(x) for x in v]
    # ---- abstract tier only
    if k == "tuple":
        return tuple(mk(x) for x in v)
    if k == "set":
        return {mk(x) for x in v}
    if k == "frozenset":
        return frozenset(mk(x) for x in v)
    if k == "dict":
        return {mk(x): i for i, x in enumerate(v)}
    if k == "iter":
        return iter([mk(x) for x in v])
    if k == "gen":
        return (mk(x) for x in v)
    if k == "range":
        return range(v[0], v[1])
    if k == "bytearray":
        return bytearray(v)
    if k == "dec":
        return Decimal(v)
    if k == "frac":
        return Fraction(v[0], v[1])
    if k == "complex":
        return complex(mk_float(v[0]), mk_float(v[1]))
    if k == "obj":
        return make_class(v["ops"], v.get("extras", {}))(v["key"])
    if k == "exc":
        return ValueError("x")
    raise AssertionError(spec)


def has_nan(spec) -> bool:
    if spec == "none" or not isinstance(spec, dict):
        return False
    (k, v), = spec.items()
    if k == "float":
        return v == "nan"
    if k == "complex":
        return "nan" in v
    if k == "dec":
        return "nan" in str(v).lower()
    if k in ("list", "tuple", "set", "frozenset", "dict", "iter", "gen"):
        return any(has_nan(x) for x in v)
    return False


def model_val(spec):
    """Spec → the driver's JSON (value tier only)."""
    if spec == "none":
        return "none"
    (k, v), = spec.items()
    if k == "float":
        return {"float": [0, 1] if v == "-0.0" else v}
    if k == "list":
        return {"list": [model_val(x) for x in v]}
    return spec


VALUE_KINDS = {"int", "bool", "float", "str", "bytes", "list"}


def is_value_spec(spec) -> bool:
    if spec == "none":
        return True
    (k, v), = spec.items()
    if k == "list":
        return all(x == "none" or next(iter(x)) in VALUE_KINDS - {"list"} for x in v)
    return k in VALUE_KINDS


class C04(PropertyCheck):
    prop_id = "C04"
    prop_modules = ["PynguinModel.Props.C04"]
    extra_modules = ["PynguinModel.Model.Distances"]
    driver = "Driver/C04.lean"
    n_quick = 8000
    n_thorough = 200000
    n_search = 40000
    rule = ("value pairs × 10 comparison kinds + truthiness + exception matching; values: ints "
            "(±2^53±k, 2^63, 10^308..10^400), bools, floats (NaN, ±inf, ±0.0, subnormals, random), str, "
            "bytes, None, lists (value tier, exact); Decimal, Fraction, complex, set, frozenset, dict, "
            "tuple, iterator, generator, range, bytearray, generated classes with every per-operator "
            "mode absent/ok/raise/TypeError/NotImplemented/lying (abstract tier); non-trivial = distinct "
            "case on which Python's own operator returns (so the property constrains the tracer)")
    assumptions = [
        "float rounding is IEEE-754 binary64 round-to-nearest-even (the Lean instance roundNearestEven "
        "is compared with CPython on every numeric case; GoodRounding is assumed of it, not proved)",
        "exceptions raised by user comparison operators derive from Exception "
        "(BaseException-only exceptions pass through `except Exception` by design)",
        "-0.0 is identified with 0.0 in the model",
    ]
    trusted_base_extra = ["value builders and sub-evaluation observers of harness/c04.py"]

    # -- generation ---------------------------------------------------------------------------
    def _int(self, rng):
        r = rng.random()
        if r < 0.35:
            return rng.randint(-4, 6)
        if r < 0.55:
            return rng.choice([1, -1]) * (2 ** 53 + rng.randint(-3, 3))
        if r < 0.65:
            return rng.choice([1, -1]) * (2 ** rng.choice([31, 52, 63, 64, 100]) + rng.randint(-2, 2))
        if r < 0.75:
            return rng.choice([1, -1]) * 10 ** rng.choice([15, 16, 17, 22, 30, 100, 307, 308, 309, 400])
        if r < 0.85:
            return rng.choice([1, -1]) * (2 ** 1024 - rng.choice([0, 1, 2 ** 969, 2 ** 970, 2 ** 970 + 1,
                                                                   2 ** 971]))
        return rng.randint(-10 ** 6, 10 ** 6)

    def _float_tok(self, rng):
        r = rng.random()
        if r < 0.12:
            return "nan"
        if r < 0.22:
            return rng.choice(["inf", "-inf"])
        if r < 0.30:
            return rng.choice([[0, 1], "-0.0"])
        if r < 0.40:
            x = rng.choice([5e-324, 2.2250738585072014e-308, 1.7976931348623157e308, 1e308, 1e-320,
                            2.0 ** 53, 2.0 ** 53 + 2, 2.0 ** 52 + 0.5, 0.1, 1 / 3, 1e16, 1e22])
            x = x * rng.choice([1, -1])
        elif r < 0.7:
            x = float(rng.randint(-5, 8)) + rng.choice([0.0, 0.5, 0.25, 0.1])
        else:
            x = rng.uniform(-1, 1) * 10.0 ** rng.randint(-20, 20)
        f = Fraction(x)
        return [f.numerator, f.denominator]

    def _codes(self, rng, byte=False):
        n = rng.choice([0, 1, 1, 2, 2, 3, 4, 6])
        alpha = [97, 98, 99, 122] if rng.random() < 0.7 else [0, 65, 97, 127, 128, 233, 255]
        if not byte and rng.random() < 0.25:
            alpha = alpha + [0x20AC, 0x1F600, 0x10FFFF, 0xD7FF]
        return [rng.choice(alpha) for _ in range(n)]

    def _scalar(self, rng):
        r = rng.random()
        if r < 0.30:
            return {"int": self._int(rng)}
        if r < 0.36:
            return {"bool": rng.random() < 0.5}
        if r < 0.62:
            return {"float": self._float_tok(rng)}
        if r < 0.80:
            return {"str": self._codes(rng)}
        if r < 0.93:
            return {"bytes": self._codes(rng, byte=True)}
        return "none"

    def _related(self, rng, spec):
        """A value of the same type as `spec`, often close to it (so that both outcomes occur)."""
        if spec == "none":
            return "none"
        (k, v), = spec.items()
        r = rng.random()
        if r < 0.15:
            return spec
        if k == "int":
            return {"int": v + rng.choice([-2, -1, 1, 2, 0])} if r < 0.6 else {"int": self._int(rng)}
        if k in ("str", "bytes"):
            if r < 0.5 and v:
                w = list(v)
                i = rng.randrange(len(w))
                w[i] = max(0, min(255 if k == "bytes" else 0x10FFFF, w[i] + rng.choice([-30, -1, 1, 2, 40])))
                if 0xD800 <= w[i] <= 0xDFFF:
                    w[i] = 0xE000
                return {k: w}
            if r < 0.7:
                return {k: v[: rng.randint(0, len(v))] + (self._codes(rng, k == "bytes")[:2] if r < 0.6 else [])}
            return {k: self._codes(rng, k == "bytes")}
        if k == "float":
            return {"float": self._float_tok(rng)} if r < 0.8 else {"int": self._int(rng)}
        if k == "bool":
            return rng.choice([{"bool": True}, {"bool": False}, {"int": 1}, {"float": [1, 1]}])
        if k == "list":
            w = list(v)
            if w and r < 0.6:
                w[rng.randrange(len(w))] = self._scalar(rng)
            elif r < 0.8:
                w = w[: rng.randint(0, len(w))]
            else:
                w = w + [self._scalar(rng)]
            return {"list": w}
        return self._scalar(rng)

    def _list(self, rng, around=None):
        xs = [self._scalar(rng) for _ in range(rng.choice([0, 1, 2, 3, 4]))]
        if around is not None and rng.random() < 0.6:
            xs.insert(rng.randint(0, len(xs)), self._related(rng, around) if is_value_spec(around)
                      and around != "none" and next(iter(around)) != "list" else self._scalar(rng))
        return {"list": xs}

    def _value_pair(self, rng, op):
        if op in ("in", "notin"):
            v1 = self._scalar(rng)
            r = rng.random()
            if r < 0.6:
                return v1, self._list(rng, v1)
            if r < 0.8:  # str / bytes containers
                k = rng.choice(["str", "bytes"])
                v2 = {k: self._codes(rng, k == "bytes")}
                if rng.random() < 0.6:
                    v1 = {k: v2[k][1:2] if rng.random() < 0.5 else self._codes(rng, k == "bytes")[:1]}
                elif k == "bytes" and rng.random() < 0.6:
                    v1 = {"int": rng.choice(v2[k] + [7, 256, -1, 300])}
                return v1, v2
            return v1, self._scalar(rng)  # not a container: TypeError
        r = rng.random()
        if r < 0.12:
            v1 = self._list(rng)
            return v1, self._related(rng, v1)
        v1 = self._scalar(rng)
        if r < 0.80:
            return v1, self._related(rng, v1)
        return v1, self._scalar(rng)

    # abstract tier ---------------------------------------------------------------------------
    MODES = ["absent", "ok", "raise", "type", "ni", "lie"]

    def _obj(self, rng):
        style = rng.random()
        ops = {}
        for name in ("lt", "le", "gt", "ge", "eq", "ne"):
            if style < 0.35:      # a subset of correct operators
                ops[name] = rng.choice(["absent", "ok"])
            elif style < 0.7:     # defined / raising / NotImplemented
                ops[name] = rng.choice(["absent", "ok", "ok", "raise", "type", "ni"])
            else:
                ops[name] = rng.choice(self.MODES)
        extras = {}
        if rng.random() < 0.5:
            extras["hash"] = True
        if rng.random() < 0.3:
            extras["bool"] = rng.choice(["true", "false", "raise"])
        if rng.random() < 0.3:
            extras["len"] = rng.choice([0, 1, 3, "raise"])
        if rng.random() < 0.2:
            extras["contains"] = rng.choice(["true", "false", "raise"])
        if rng.random() < 0.2:
            extras["iter"] = [rng.randint(0, 3) for _ in range(rng.randint(0, 3))]
        return {"obj": {"key": rng.randint(0, 3), "ops": ops, "extras": extras}}

    def _exotic(self, rng):
        r = rng.random()
        if r < 0.30:
            return self._obj(rng)
        if r < 0.40:
            return {"dec": rng.choice(["0", "1", "1.5", "-2", "0.1", "NaN", "Infinity", "-Infinity",
                                       "1E+400", "0.3333333333333333333333", "9007199254740993"])}
        if r < 0.50:
            return {"frac": rng.choice([[1, 3], [1, 2], [-7, 2], [0, 1], [3, 1], [2 ** 53 + 1, 1],
                                        [10 ** 400, 3], [1, 10 ** 400]])}
        if r < 0.58:
            return {"complex": [self._float_tok(rng), rng.choice([[0, 1], [1, 1], "nan", "inf"])]}
        small = lambda: [self._hashable(rng) for _ in range(rng.choice([0, 1, 2, 3]))]  # noqa: E731
        if r < 0.66:
            return {rng.choice(["set", "frozenset"]): small()}
        if r < 0.72:
            return {"dict": small()}
        if r < 0.80:
            return {"tuple": [self._scalar(rng) for _ in range(rng.choice([0, 1, 2, 3]))]}
        if r < 0.90:
            return {rng.choice(["iter", "gen"]): [self._scalar(rng) for _ in range(rng.choice([0, 1, 2, 3, 4]))]}
        if r < 0.95:
            a = rng.randint(-2, 3)
            return {"range": [a, a + rng.randint(0, 4)]}
        return {"bytearray": self._codes(rng, byte=True)}

    def _hashable(self, rng):
        r = rng.random()
        if r < 0.5:
            return {"int": rng.randint(0, 4)}
        if r < 0.7:
            return {"str": self._codes(rng)[:2]}
        if r < 0.85:
            return {"float": rng.choice([[1, 1], [1, 2], "nan", [2, 1]])}
        return rng.choice(["none", {"bool": True}])

    def _abs_pair(self, rng, op):
        r = rng.random()
        v1 = self._exotic(rng) if r < 0.75 else self._scalar(rng)
        if op in ("in", "notin"):
            c = self._exotic(rng)
            if rng.random() < 0.5 and isinstance(c, dict):
                (k, v), = c.items()
                if k in ("set", "frozenset", "dict", "tuple", "iter", "gen") and v:
                    v1 = rng.choice(v) if rng.random() < 0.7 else v1
            return v1, c
        if v1 != "none" and isinstance(v1, dict) and rng.random() < 0.5:
            (k, v), = v1.items()
            if k == "obj":   # same class, neighbouring key
                return v1, {"obj": {"key": v["key"] + rng.choice([-1, 0, 1]), "ops": v["ops"],
                                    "extras": v.get("extras", {})}}
            if k in ("set", "frozenset", "tuple", "iter", "gen") and rng.random() < 0.7:
                w = list(v)
                if w and rng.random() < 0.5:
                    w.pop(rng.randrange(len(w)))
                elif rng.random() < 0.5:
                    w.append(self._hashable(rng))
                return v1, {k: w}
        v2 = self._exotic(rng) if rng.random() < 0.6 else self._scalar(rng)
        return (v1, v2) if rng.random() < 0.7 else (v2, v1)

    def gen_case(self, rng):
        r = rng.random()
        if r < 0.52:
            op = rng.choice(OPS)
            v1, v2 = self._value_pair(rng, op)
            # aliasing (both operands are one object).  A NaN *scalar* is still unequal to itself
            # (float/Decimal/complex __eq__ has no identity shortcut); only containers short-cut on
            # identity of their elements, which the model does not express -> excluded.
            scalar_nan = (isinstance(v1, dict) and next(iter(v1)) in ("float", "complex", "dec"))
            same = (op in ("is", "isnot", "eq", "ne", "le", "lt") and rng.random() < 0.25
                    and (not has_nan(v1) or scalar_nan))
            return {"kind": "cmp", "op": op, "v1": v1, "v2": v1 if same else v2, "alias": same}
        if r < 0.82:
            op = rng.choice(OPS)
            v1, v2 = self._abs_pair(rng, op)
            # one user object compared with itself: `a == a` still calls __eq__ (no identity shortcut)
            if (isinstance(v1, dict) and "obj" in v1 and op not in ("in", "notin") and rng.random() < 0.2):
                return {"kind": "abs", "op": op, "v1": v1, "v2": v1, "alias": True}
            return {"kind": "abs", "op": op, "v1": v1, "v2": v2}
        if r < 0.88:
            v = self._scalar(rng) if rng.random() < 0.7 else self._list(rng)
            return {"kind": "bool", "v": v}
        if r < 0.95:
            return {"kind": "boolabs", "v": self._exotic(rng)}
        # exception matching: a random class forest (parent index lists), err and the handler's classes
        n = rng.randint(1, 6)
        parents = []
        for i in range(n):
            ps = sorted(set(rng.sample(range(i), min(i, rng.choice([0, 1, 1, 1, 2]))))) if i else []
            parents.append(ps)
        return {"kind": "exc", "parents": parents, "err": rng.randrange(n),
                "meta": [rng.choice(["plain"] * 6 + ["true", "false", "abc"]) for _ in range(n)],
                "instance": rng.random() < 0.7,
                "excs": [rng.randrange(-2, n) for _ in range(rng.choice([1, 1, 1, 2, 3]))],
                "tuple": rng.random() < 0.5}

    # -- implementation adapter -----------------------------------------------------------------
    def _tm(self):
        import pynguin.instrumentation.tracer as tm
        return tm

    def _variant(self):
        return "repaired" if hasattr(self._tm(), "_compare_distances") else "legacy"

    def _tracer(self):
        t = self._tm().ExecutionTracer()
        t._current_thread_identifier = threading.current_thread().ident  # as __enter__ does
        return t

    def _record(self, call):
        """Run one tracer callback on a fresh tracer; the recorded distances or the exception."""
        t = self._tracer()
        try:
            call(t)
        except Exception as e:  # noqa: BLE001
            return {"err": err_name(e)}
        tr = t.get_trace()
        return {"ok": [num_j(tr.true_distances[0]), num_j(tr.false_distances[0])]}

    def _pc(self, op):
        from pynguin.instrumentation import PynguinCompare as PC
        return {"lt": PC.LT, "le": PC.LE, "eq": PC.EQ, "ne": PC.NE, "gt": PC.GT, "ge": PC.GE,
                "in": PC.IN, "notin": PC.NOT_IN, "is": PC.IS, "isnot": PC.IS_NOT}[op]

    def _helper(self, op, which, a, b):
        name, swap = HELPERS[op][which]
        f = getattr(self._tm(), name)
        return f(b, a) if swap else f(a, b)

    def _pair(self, case):
        a = mk(case["v1"])
        b = a if case.get("alias") else mk(case["v2"])
        return a, b

    def _exc_classes(self, case):
        classes = []
        metas = {"plain": type, "true": _MetaTrue, "false": _MetaFalse, "abc": abc.ABCMeta}
        flav = case.get("meta") or ["plain"] * len(case["parents"])
        for i, ps in enumerate(case["parents"]):
            bases = tuple(classes[p] for p in reversed(ps)) or (Exception,)
            for meta, bs in ((metas[flav[i]], bases), (type, bases), (type, bases[:1]),
                             (type, (Exception,))):
                try:
                    classes.append(meta(f"E{i}", bs, {}))
                    break
                except TypeError:  # inconsistent MRO / metaclass conflict: simplify
                    continue
        for i, c in enumerate(classes):
            if flav[i] == "abc" and isinstance(c, abc.ABCMeta):
                for other in classes:
                    if other is not c and not issubclass(c, other):
                        c.register(other)
        ids = {c: i for i, c in enumerate(classes)}
        ids.update({Exception: 1000, BaseException: 1001, object: 1002})
        special = {-1: Exception, -2: BaseException}
        excs = [special[e] if e < 0 else classes[e] for e in case["excs"]]
        return classes, ids, excs

    def impl(self, case):
        out = self._impl(case)
        self._io_cache = getattr(self, "_io_cache", {})
        self._io_cache[id(case)] = out
        return out

    def _impl(self, case):
        kind = case["kind"]
        self.count("kind:" + kind)
        variant = self._variant()
        out = {"variant": variant}
        if kind in ("cmp", "abs"):
            op = case["op"]
            self.count("op:" + op)
            for s in (case["v1"], case["v2"]):
                self.count("type:" + ("none" if s == "none" else next(iter(s))))
            a, b = self._pair(case)
            out["same"] = a is b
            out["res"] = self._record(lambda t: t.executed_compare_predicate(a, b, 0, self._pc(op)))
            # oracle input: Python's own operator on a fresh copy
            a, b = self._pair(case)
            out["py"] = guarded(lambda: bool(PYOP[op](a, b)))
            if kind == "cmp":   # immutable values: helpers can be called directly
                a, b = self._pair(case)
                out["estT"] = guarded(lambda: self._helper(op, 0, a, b), num_j)
                out["estF"] = guarded(lambda: self._helper(op, 1, a, b), num_j)
            else:               # observe the sub-evaluations in the order the code performs them
                a, b = self._pair(case)
                obs = {"cmp": {"ok": False}, "estT": SENTINEL, "estF": SENTINEL}
                if variant == "repaired":
                    obs["cmp"] = guarded(lambda: bool(PYOP[op](a, b)))
                    if "ok" in obs["cmp"]:
                        which = 1 if obs["cmp"]["ok"] else 0
                        obs["estF" if which else "estT"] = guarded(
                            lambda: self._helper(op, which, a, b), num_j)
                else:
                    obs["estT"] = guarded(lambda: self._helper(op, 0, a, b), num_j)
                    if "ok" in obs["estT"]:
                        obs["estF"] = guarded(lambda: self._helper(op, 1, a, b), num_j)
                out["obs"] = obs
        elif kind in ("bool", "boolabs"):
            v = mk(case["v"])
            self.count("type:" + ("none" if case["v"] == "none" else next(iter(case["v"]))))
            out["res"] = self._record(lambda t: t.executed_bool_predicate(v, 0))
            v = mk(case["v"])
            out["py"] = guarded(lambda: bool(v))
            v = mk(case["v"])
            tm = self._tm()
            if hasattr(tm, "_falsy_distance"):
                est = guarded(lambda: tm._falsy_distance(v), num_j)
            else:  # legacy: the body of `if value:`
                from collections.abc import Sized

                def legacy_falsy():
                    if isinstance(v, Sized):
                        return len(v)
                    if tm.is_numeric(v):
                        return float(abs(v))
                    return math.inf
                est = guarded(legacy_falsy, num_j)
            out["est"] = est
        elif kind == "exc":
            classes, ids, excs = self._exc_classes(case)
            err_cls = classes[case["err"]]
            err = err_cls("x") if case["instance"] else err_cls
            exc = tuple(excs) if case["tuple"] or len(excs) > 1 else excs[0]
            out["res"] = self._record(lambda t: t.executed_exception_match(err, exc, 0))

            def own():
                try:
                    raise err_cls("x")
                except exc:
                    return True
                except Exception:  # noqa: BLE001
                    return False
            out["py"] = guarded(own)
            from pynguin.utils.type_utils import given_exception_matches
            out["match"] = guarded(lambda: bool(given_exception_matches(err, exc)))
            out["mro"] = [ids[c] for c in err_cls.__mro__]
            out["excs"] = [{"mro": [ids[c] for c in e.__mro__], "issub": bool(issubclass(err_cls, e))}
                           for e in excs]
        else:
            raise AssertionError(kind)
        return out

    # -- model side ----------------------------------------------------------------------------
    def model_line(self, case):
        # observations (sub-evaluation results, MROs, identity) come from the live objects
        io = getattr(self, "_io_cache", {}).pop(id(case), None) or self.impl(case)
        kind, variant = case["kind"], io["variant"]
        if kind == "cmp":
            if not (is_value_spec(case["v1"]) and is_value_spec(case["v2"])):
                return None
            return vcommon.jdump({"kind": "cmp", "variant": variant, "op": case["op"],
                                  "same": io["same"], "v1": model_val(case["v1"]),
                                  "v2": model_val(case["v2"])})
        if kind == "abs":
            o = io["obs"]
            return vcommon.jdump({"kind": "abs", "variant": variant, "cmp": o["cmp"],
                                  "estT": o["estT"], "estF": o["estF"]})
        if kind == "bool":
            return vcommon.jdump({"kind": "bool", "variant": variant, "v": model_val(case["v"])})
        if kind == "boolabs":
            return vcommon.jdump({"kind": "boolabs", "variant": variant, "truth": io["py"],
                                  "est": io["est"]})
        return vcommon.jdump({"kind": "exc", "variant": variant, "err": io["mro"], "excs": io["excs"]})

    def compare(self, case, io, mo):
        kind = case["kind"]
        if mo.get("res") != io["res"]:
            return False
        if kind == "cmp":
            return (mo.get("py") == io["py"] and mo.get("estT") == io["estT"]
                    and mo.get("estF") == io["estF"])
        if kind == "bool":
            return mo.get("truth") == io["py"].get("ok") and mo.get("est") == io["est"]
        if kind == "exc":
            return mo.get("py") == io["py"].get("ok") and mo.get("match") == io["match"].get("ok")
        return True

    # -- property oracle on the implementation ---------------------------------------------------
    def oracle(self, case, io):
        py, res = io["py"], io["res"]
        if "ok" not in py:
            return []  # Python's own operator raises: the property demands nothing
        want = py["ok"]
        kind = case["kind"]
        types = ",".join("none" if s == "none" else next(iter(s))
                         for s in ([case.get("v1"), case.get("v2")] if "v1" in case else
                                   [case.get("v")] if "v" in case else []) if s is not None)
        sig = {"kind": "cmp" if kind in ("cmp", "abs") else kind.replace("abs", ""),
               "op": case.get("op", kind), "types": types}
        desc = f"{case.get('op', kind)} on {vcommon.jdump({k: case[k] for k in case if k in ('v1', 'v2', 'v', 'err', 'excs')})}"
        if "err" in res:
            sig["mode"] = "raises-" + res["err"]
            return [Failure(sig, f"the tracer callback raises {res['err']} although Python's own "
                                 f"operator returns {want}: {desc}", detail=io)]
        dT, dF = res["ok"]

        def bad(d):
            return d in ("nan", "-inf") or (isinstance(d, list) and d[0] < 0)

        def zero(d):
            return isinstance(d, list) and d[0] == 0

        if bad(dT) or bad(dF):
            sig["mode"] = "negative-or-nan"
        elif zero(dT) == zero(dF):
            sig["mode"] = "not-exactly-one-zero"
        elif zero(dT) != want:
            sig["mode"] = "wrong-outcome-is-zero"
        else:
            return []
        return [Failure(sig, f"recorded distances (true={dT}, false={dF}) but Python's own operator "
                             f"returns {want}: {desc}", detail=io)]

    def classify(self, case, io):
        if "ok" not in io["py"]:
            return None
        return vcommon.jdump(case)

    # -- witnesses of the `C04_legacy_cex_*` theorems ---------------------------------------------
    WITNESSES = [
        ("C04_legacy_cex_nan", {"kind": "cmp", "op": "eq", "v1": {"float": "nan"}, "v2": {"float": [1, 1]}}),
        ("C04_legacy_cex_nan (ordering)", {"kind": "cmp", "op": "lt", "v1": {"float": "nan"}, "v2": {"float": [1, 1]}}),
        ("C04_legacy_cex_inf_minus_inf", {"kind": "cmp", "op": "lt", "v1": {"float": "inf"}, "v2": {"float": "inf"}}),
        ("C04_legacy_cex_precision", {"kind": "cmp", "op": "le", "v1": {"int": 2 ** 53 + 1}, "v2": {"int": 2 ** 53}}),
        ("C04_legacy_cex_precision (int vs float)", {"kind": "cmp", "op": "eq", "v1": {"int": 2 ** 53 + 1},
                                                      "v2": {"float": [2 ** 53, 1]}}),
        ("C04_legacy_cex_overflow", {"kind": "cmp", "op": "lt", "v1": {"int": 1}, "v2": {"int": 10 ** 400}}),
        ("C04_legacy_cex_partial_protocol",
         {"kind": "abs", "op": "lt",
          "v1": {"obj": {"key": 1, "ops": {"lt": "ok"}, "extras": {}}},
          "v2": {"obj": {"key": 2, "ops": {"lt": "ok"}, "extras": {}}}}),
        ("C04_legacy_cex_partial_order", {"kind": "abs", "op": "lt", "v1": {"set": [{"int": 1}]},
                                          "v2": {"set": [{"int": 2}]}}),
        ("C04_legacy_cex_both_zero (one-shot iterator)",
         {"kind": "abs", "op": "in", "v1": {"int": 2}, "v2": {"iter": [{"int": 1}, {"int": 2}, {"int": 3}]}}),
        ("mixed number types (Decimal - float is a TypeError)",
         {"kind": "abs", "op": "eq", "v1": {"dec": "1"}, "v2": {"float": [3, 2]}}),
        ("Fraction vs float precision", {"kind": "abs", "op": "le", "v1": {"frac": [1, 3]},
                                         "v2": {"float": [6004799503160661, 18014398509481984]}}),
        ("C04_legacy_cex_bool_nan", {"kind": "bool", "v": {"float": "nan"}}),
        ("C04_legacy_cex_bool_overflow", {"kind": "bool", "v": {"int": 10 ** 400}}),
        ("C04_legacy_cex_subclasscheck",
         {"kind": "exc", "parents": [[], []], "meta": ["plain", "true"], "err": 0, "instance": True,
          "excs": [1], "tuple": False}),
        ("truthy Sized object of length 0",
         {"kind": "boolabs", "v": {"obj": {"key": 0, "ops": {}, "extras": {"bool": "true", "len": 0}}}}),
    ]

    def witnesses(self):
        fs, reproduced = [], []
        for name, case in self.WITNESSES:
            io = self.impl(case)
            for f in self.oracle(case, io):
                f.case = case
                f.what = f"witness {name}: {f.what}"
                fs.append(f)
                reproduced.append(name)
        self.extra_coverage["legacy_witnesses_reproduced"] = reproduced
        self.extra_coverage["legacy_witnesses_total"] = len(self.WITNESSES)
        return fs


if __name__ == "__main__":
    run_main(C04)
