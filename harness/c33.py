"""C33 — worker crashes never hang Pynguin and restarts are bounded (DESIGN §5 C33).

Three ties between the Lean model (`Model/MasterWorker.lean`, driver `Driver/C33.lean`) and the code:

1. Correspondence on random *scripts of worker fates*: the REAL `run_pynguin_with_master_worker`
   → `PynguinClient.run_pynguin` → `MasterProcess` → `RunningTask.get_result/_restart/
   _adjust_search_time_after_crash` and the REAL `worker_main` run in-process against scripted fake
   process / pipe / clock objects (installed into the `master`/`worker` module namespaces of the
   harness process only; nothing in /repo is touched).  The fake pipe has real pipe semantics: EOF
   only when *every* holder of the sending end is gone (master copy, worker copy, orphans).
2. Real-OS replay of the orphan witness: a real `multiprocess` worker that forks a descendant and
   dies; the command must return while the descendant is still alive.
3. Real end-to-end runs of the pynguin CLI in master-worker mode with the worker killed
   (`os._exit(70)`) at the entry of the import / search / assertion / export phase, repeatedly, under
   search-time and iteration budgets, plus a SUT that hard-crashes the worker in the middle of the
   search.  Crash injection is done by a launcher that wraps the phase functions of
   `pynguin.generator` *before* the master forks the worker (start method `fork`), so no source hook
   is needed.  Restarts / remaining time / exit code are read from the log and fed to the model.
"""
from __future__ import annotations

import concurrent.futures
import copy
import logging
import os
import re
import shutil
import subprocess
import tempfile
import time as _time
from fractions import Fraction

import vcommon
from vcommon import Failure, PropertyCheck, run_main

RC_NAMES = {"OK": "ok", "SETUP_FAILED": "setupFailed", "NO_TESTS_GENERATED": "noTestsGenerated",
            "FINAL_METRICS_TRACKING_FAILED": "finalMetricsTrackingFailed"}
RC_BY_VALUE = {0: "ok", 1: "setupFailed", 2: "noTestsGenerated", 3: "finalMetricsTrackingFailed"}
CLOCK0 = 1_700_000_000.0
MAX_POLLS = 2000


# ---------------------------------------------------------------------------------------------
# Scripted world: fake multiprocess / time for the master, scripted run_pynguin for the worker
# ---------------------------------------------------------------------------------------------
class _Killed(BaseException):
    """The worker process dies at this point (os._exit / signal): nothing after it runs."""


class _Blocked(BaseException):
    """The script is exhausted: the master waits for a live worker whose fate is unspecified."""


class _Hang(BaseException):
    """The master waits for something that can never arrive."""

    def __init__(self, cause):
        super().__init__(cause)
        self.cause = cause


class _Chan:
    def __init__(self):
        self.buf = []
        self.holders = {"master"}
        self.proc = None
        self.resolved = False
        self.polls = 0


class _SendEnd:
    def __init__(self, chan, owner, fail_send=False):
        self.chan, self.owner, self.fail_send = chan, owner, fail_send

    def send(self, obj):
        if self.fail_send:
            raise BrokenPipeError("scripted: sending the result fails")
        self.chan.buf.append(obj)

    def close(self):
        self.chan.holders.discard(self.owner)


class _RecvEnd:
    def __init__(self, chan, world):
        self.chan, self.world = chan, world

    def _resolve(self):
        p = self.chan.proc
        if p is None or p.unspecified:
            raise _Blocked()
        if not self.chan.resolved:
            self.chan.resolved = True
            self.world.now += p.elapsed  # the master notices the worker's end `elapsed` seconds after the start

    def _hang_cause(self):
        h = self.chan.holders
        return ("orphan-holds-pipe" if "orphan" in h else
                "master-keeps-write-end" if "master" in h else "other")

    def poll(self, timeout=0.0):
        self._resolve()
        self.chan.polls += 1
        if self.chan.polls > MAX_POLLS:
            raise _Hang(self._hang_cause())
        return bool(self.chan.buf) or not self.chan.holders

    def recv(self):
        self._resolve()
        if self.chan.buf:
            return self.chan.buf.pop(0)
        if not self.chan.holders:
            raise EOFError
        raise _Hang(self._hang_cause())

    def close(self):
        pass


class _Process:
    def __init__(self, world, target=None, args=(), name=None, **_kw):
        self.world, self.target, self.args, self.name = world, target, args, name
        self.alive = False
        self.unspecified = False
        self.elapsed = 0.0
        self.pid = None
        self.exitcode = None

    def start(self):
        w = self.world
        w.attempts += 1
        k = w.attempts - 1
        task, master_end = self.args
        chan = master_end.chan
        chan.proc = self
        if k >= len(w.fates):
            self.unspecified, self.alive = True, True
            return
        fate = w.fates[k]
        if fate["k"] == "spawnFails":
            raise OSError("scripted: fork failed")
        w.started += 1
        w.last_started_chan = chan
        self.pid = 40000 + k
        chan.holders.add("worker")  # fork duplicates the descriptor into the child
        child_end = _SendEnd(chan, "worker", fail_send=(fate["k"] == "raisesSendFails"))
        w.current_fate = fate
        self.elapsed = float(Fraction(fate["num"], fate["den"])) if "num" in fate else 1.0
        assert Fraction(self.elapsed) == (Fraction(fate["num"], fate["den"]) if "num" in fate else 1)
        try:
            self.target(task, child_end)  # the REAL worker_main, synchronously
            self.exitcode = 0
        except _Killed:
            self.exitcode = 70
            if fate.get("orphan"):
                chan.holders.add("orphan")  # a descendant inherited the sending end and lives on
        finally:
            chan.holders.discard("worker")
            self.alive = False

    def is_alive(self):
        return self.alive

    def terminate(self):
        self.alive = False

    def kill(self):
        self.alive = False

    def join(self, timeout=None):
        pass


class _World:
    def __init__(self, fates):
        self.fates = fates
        self.now = CLOCK0
        self.attempts = 0
        self.started = 0
        self.current_fate = None
        self.last_started_chan = None
        self.seen = []       # configuration each started worker saw at its start
        self.chans = []
        self.tasks = []

    # fake `multiprocess` for master.py
    def Pipe(self, duplex=True):  # noqa: N802
        chan = _Chan()
        self.chans.append(chan)
        return _RecvEnd(chan, self), _SendEnd(chan, "master")

    def Process(self, *a, **kw):  # noqa: N802
        return _Process(self, *a, **kw)

    # fake `time` for master.py
    def time(self):
        return self.now

    # scripted `set_configuration` / `run_pynguin` for worker.py
    def set_configuration(self, cfg):
        self.seen.append((cfg.stopping.maximum_search_time, cfg.subprocess, cfg.subprocess_if_recommended))

    def run_pynguin(self):
        from pynguin.generator import ReturnCode
        f = self.current_fate
        k = f["k"]
        if k == "returns":
            return {v: getattr(ReturnCode, n) for n, v in RC_NAMES.items()}[f["rc"]]
        if k in ("raises", "raisesSendFails"):
            raise RuntimeError("scripted: exception in run_pynguin")
        if k == "interrupted":
            raise KeyboardInterrupt
        if k == "killed":
            raise _Killed()
        raise AssertionError(k)


def run_script(case):
    """Drive the real master/worker/client code with the scripted world; return canonical output."""
    import pynguin.configuration as config
    import pynguin.master_worker.client as client
    import pynguin.master_worker.master as master
    import pynguin.master_worker.worker as worker

    world = _World(case["fates"])
    cfg = copy.deepcopy(config.configuration)
    cfg.stopping.maximum_search_time = case["search_time"]
    cfg.subprocess = case["subprocess"]
    cfg.subprocess_if_recommended = case["sir"]

    real_task_cls = master.RunningTask

    class RecordingTask(real_task_cls):  # all logic inherited from the real class
        def __init__(self, task):
            world.tasks.append(self)
            super().__init__(task)

    results = []
    real_get = master.MasterProcess.get_result

    def recording_get(self, task_id):
        r = real_get(self, task_id)
        results.append(r)
        return r

    saved = [(master, "mp", master.mp), (master, "time", master.time),
             (master, "RunningTask", real_task_cls), (master.MasterProcess, "get_result", real_get),
             (worker, "run_pynguin", worker.run_pynguin), (worker, "set_configuration", worker.set_configuration),
             (config.configuration, "use_master_worker", config.configuration.use_master_worker)]
    logger = logging.getLogger("pynguin")
    old_level, old_prop = logger.level, logger.propagate
    outcome, rc, hang_cause = None, None, None
    try:
        master.mp = world
        master.time = world
        master.RunningTask = RecordingTask
        master.MasterProcess.get_result = recording_get
        worker.run_pynguin = world.run_pynguin
        worker.set_configuration = world.set_configuration
        config.configuration.use_master_worker = case["use_mw"]
        logger.setLevel(logging.CRITICAL + 10)
        logger.propagate = False
        try:
            code = client.run_pynguin_with_master_worker(cfg)
            outcome, rc = "code", RC_NAMES[code.name]
        except _Blocked:
            outcome = "blocked"
        except _Hang as h:
            outcome, hang_cause = "hang", h.cause
    finally:
        for obj, name, val in saved:
            setattr(obj, name, val)
        logger.setLevel(old_level)
        logger.propagate = old_prop
    rt = world.tasks[-1] if world.tasks else None
    res = results[-1] if results else None
    out = {
        "outcome": outcome,
        "state": {
            "searchTime": cfg.stopping.maximum_search_time,
            "subprocess": bool(cfg.subprocess),
            "subprocessIfRecommended": bool(cfg.subprocess_if_recommended),
            "restarts": rt._restart_count if rt is not None else 0,
            "force": bool(rt._force_subprocess_mode) if rt is not None else False,
            # did the master close its own copy of the sending end of the last started worker's pipe?
            "writeEndClosed": world.last_started_chan is not None
            and "master" not in world.last_started_chan.holders,
            "started": world.started,
            "timeline": [s[0] for s in reversed(world.seen)],
        },
        "seen_flags": [[s[1], s[2]] for s in world.seen],
        "clock": str(Fraction(world.now) - Fraction(CLOCK0)),
    }
    if outcome == "code":
        out["rc"] = rc
        out["result"] = None if res is None else {
            "wrc": res.worker_return_code.name.lower(),
            "rc": None if res.return_code is None else RC_NAMES[res.return_code.name],
            "hasError": res.error is not None,
            "restartCount": res.restart_count,
        }
    if outcome == "hang":
        out["hang_cause"] = hang_cause
    return out


def fate_json(f):
    """Script entry → the JSON the Lean driver derives for `Fate`."""
    k = f["k"]
    if k == "spawnFails":
        return "spawnFails"
    e = {"num": f.get("num"), "den": f.get("den")}
    if k == "returns":
        b = {"returns": {"rc": f["rc"]}}
    elif k == "raises":
        b = "raises"
    elif k in ("raisesSendFails", "interrupted"):
        b = {k: {"e": e}}
    else:
        b = {"killed": {"e": e, "orphan": bool(f.get("orphan"))}}
    return {"runs": {"b": b}}


def model_case(case, liveness=True):
    return {"cfg": {"useMasterWorker": case["use_mw"], "liveness": liveness},
            "task": {"maxSearchTime": case["search_time"], "subprocess": case["subprocess"],
                     "subprocessIfRecommended": case["sir"]},
            "fates": [fate_json(f) for f in case["fates"]]}


# ---------------------------------------------------------------------------------------------
# End-to-end launcher (written to the scratch directory)
# ---------------------------------------------------------------------------------------------
LAUNCHER = r'''
"""Crash-injecting launcher for the pynguin CLI (master-worker mode).  The phase functions of
pynguin.generator are wrapped here, in the master, before it forks the worker: the forked worker
inherits the wrappers; the master itself never crashes."""
import fcntl, os, sys
SPEC = os.environ.get("C33_CRASH", "")      # "<phase>:<count>|inf": kill the worker at the first <count> entries
CNT = os.environ["C33_COUNTER"]
PHASES = {"import": "_setup_and_check", "search": "_instantiate_test_generation_strategy",
          "assertions": "_generate_assertions", "export": "_export_chromosome"}
MASTER = os.getpid()
os.environ["C33_MASTER_PID"] = str(MASTER)

def _entered(phase):
    if os.getpid() == MASTER:
        return
    with open(CNT, "a+") as f:
        fcntl.flock(f, fcntl.LOCK_EX)
        f.seek(0)
        n = sum(1 for l in f.read().splitlines() if l == phase) + 1
        f.write(phase + "\n")
        f.flush()
    ph, _, cnt = SPEC.partition(":")
    if ph == phase and (cnt == "inf" or n <= int(cnt or "1")):
        os._exit(70)

import multiprocess as mp
if mp.get_start_method() != "fork":
    sys.exit(97)
import pynguin.generator as g
for _phase, _fn in PHASES.items():
    if not callable(getattr(g, _fn, None)):
        sys.exit(97)
    def _wrap(*a, __o=getattr(g, _fn), __p=_phase, **k):
        _entered(__p)
        return __o(*a, **k)
    setattr(g, _fn, _wrap)
import pynguin.cli
sys.exit(pynguin.cli.main(sys.argv))
'''

SUT_TINY = '''
def classify(x: int, y: int) -> int:
    if x > y:
        return 1
    if x == y:
        return 0
    return -1
'''

# hard crash of whatever process executes the SUT (like a segfault in a C extension)
SUT_CRASHY = '''
import os


def fragile(x: int) -> int:
    if x > 3:
        os._exit(70)
    return x + 1
'''

ORPHAN_EXP = r'''
"""Real multiprocess worker that forks a descendant (which inherits the pipe's sending end) and dies."""
import os, sys, time
import pynguin.configuration as config
import pynguin.master_worker.master as master
from pynguin.master_worker.client import run_pynguin_with_master_worker
LINGER = float(sys.argv[1]); PIDFILE = sys.argv[2]

def fake_worker_main(task, sending_connection):
    pid = os.fork()
    if pid == 0:
        time.sleep(LINGER)
        with open(PIDFILE + ".done", "a") as f:
            f.write(str(os.getpid()) + "\n")
        os._exit(0)
    with open(PIDFILE, "a") as f:
        f.write(str(pid) + "\n")
    os._exit(70)

master.worker_main = fake_worker_main
cfg = config.configuration
cfg.stopping.maximum_search_time = 2
t0 = time.time()
rc = run_pynguin_with_master_worker(cfg)
done = set(open(PIDFILE + ".done").read().split()) if os.path.exists(PIDFILE + ".done") else set()
alive = [int(p) for p in open(PIDFILE).read().split() if p not in done]   # descendants still running
print("RESULT", rc.name, round(time.time() - t0, 2), len(alive), cfg.stopping.maximum_search_time, flush=True)
for p in alive:
    try:
        os.kill(p, 9)
    except OSError:
        pass
'''


class C33(PropertyCheck):
    prop_id = "C33"
    prop_modules = ["PynguinModel.Props.C33"]
    extra_modules = ["PynguinModel.Model.MasterWorker"]
    driver = "Driver/C33.lean"
    n_quick = 1500
    n_thorough = 30000
    n_search = 4000
    rule = ("random scripts of 0..14 worker fates (spawn failure / returns rc / raises / raises+send fails / "
            "KeyboardInterrupt / killed, with and without an orphan holding the pipe; dyadic elapsed times, a few "
            "zero or negative) under search times -1..1000, driven through the real client/master/worker code; "
            "non-trivial = distinct script in which at least one worker died without delivering")
    assumptions = [
        "restart bound / strict decrease: every dead worker consumed a positive wall-clock time as measured by "
        "time.time() in the master (clock resolution; the wall clock is not set back) — stated as AllPos in Lean",
        "elapsed times are exact rationals in the model; the harness uses dyadic values for which float arithmetic "
        "is exact (a real elapsed below half an ulp of the search time would not reduce it)",
        "a dead worker is observable through Process.is_alive() (repaired get_result); without the repair: no "
        "descendant of a dead worker keeps the pipe's sending end open (never_hangs_partial)",
    ]
    trusted_base_extra = [
        "fake process/pipe/clock objects of harness/c33.py (pipe EOF semantics: all holders of the sending end gone)",
        "multiprocess (fork, Pipe, Process.is_alive) and the OS are not modelled",
        "recursion depth of get_result (one frame chain per restart; Python's limit ≈ 1000 restarts) is not modelled",
    ]

    # -- generation ---------------------------------------------------------------------------
    @staticmethod
    def _elapsed(rng, T):
        den = 2 ** rng.choice([0, 0, 0, 1, 1, 2, 3, 4, 7, 10])
        r = rng.random()
        if r < 0.05:
            num = 0
        elif r < 0.09:
            num = -rng.randint(1, 4 * den)
        elif r < 0.45:
            num = rng.randint(1, max(1, den))                       # (0, 1] seconds
        elif r < 0.85:
            num = rng.randint(1, max(1, (abs(T) + 2) * den // 3))     # up to a third of the budget
        else:
            num = rng.randint(1, (abs(T) + 3) * den * 2)             # can exceed the budget
        return num, den

    def gen_case(self, rng):
        r = rng.random()
        if r < 0.12:
            T = rng.choice([-1, -1, 0, -5])
        elif r < 0.75:
            T = rng.choice([1, 1, 2, 2, 3, 3, 4, 5, 6, 8, 10, 13])
        elif r < 0.95:
            T = rng.randint(14, 120)
        else:
            T = rng.choice([600, 1000])
        n = rng.choice([0, 1, 1, 2, 2, 3, 3, 4, 5, 6, 8, 10, 14])
        long_chain = rng.random() < 0.01
        if long_chain:
            n = rng.randint(40, 160)
            T = max(T, n + rng.randint(-10, 10))
        fates = []
        for _ in range(n):
            x = rng.random()
            if long_chain and x > 0.02:
                x = 0.5
            if x < 0.04:
                fates.append({"k": "spawnFails"})
            elif x < 0.20:
                rc = rng.choice(["ok", "ok", "ok", "noTestsGenerated", "setupFailed", "finalMetricsTrackingFailed"])
                fates.append({"k": "returns", "rc": rc})
            elif x < 0.27:
                fates.append({"k": "raises"})
            else:
                num, den = self._elapsed(rng, T)
                if x < 0.33:
                    fates.append({"k": "raisesSendFails", "num": num, "den": den})
                elif x < 0.40:
                    fates.append({"k": "interrupted", "num": num, "den": den})
                else:
                    fates.append({"k": "killed", "num": num, "den": den, "orphan": rng.random() < 0.12})
        return {"search_time": T, "use_mw": rng.random() < 0.8, "subprocess": rng.random() < 0.2,
                "sir": rng.random() < 0.8, "fates": fates}

    # -- implementation adapter / model --------------------------------------------------------
    def _impl_real(self, case):
        """`--replay` of a failure found with real processes (orphan replay / CLI run)."""
        scratch = tempfile.mkdtemp(prefix="c33-")
        try:
            if "real_orphan_replay" in case:
                fs = self._orphan_replay(scratch)
                info = self.extra_coverage.get("orphan_replay")
            else:
                with open(os.path.join(scratch, "launcher.py"), "w") as f:
                    f.write(LAUNCHER)
                run = self._e2e_one(scratch, 0, case["sut"], case["crash"], case["args"].split())
                fs, rep = self._e2e_judge(run)
                info = {"exit": run["rc"], "hung": run["hung"], "observed": rep["observed"] if rep else None}
        finally:
            shutil.rmtree(scratch, ignore_errors=True)
        return {"real": info, "failures": [[f.signature, f.what] for f in fs]}

    def impl(self, case):
        if "fates" not in case:
            return self._impl_real(case)
        out = run_script(case)
        for f in case["fates"]:
            self.count("fate:" + f["k"] + (":orphan" if f.get("orphan") else ""))
        self.count("budget:" + ("none" if case["search_time"] <= 0 else "search-time"))
        self.count("outcome:" + out["outcome"] + (":" + out["rc"] if "rc" in out else ""))
        self.count("restarts:" + str(min(out["state"]["restarts"], 10)) + ("+" if out["state"]["restarts"] >= 10 else ""))
        return out

    def model_line(self, case):
        if "fates" not in case:
            return None
        return vcommon.jdump(model_case(case))

    def compare(self, case, io, mo):
        if mo.get("outcome") != io["outcome"]:
            return False
        ms, is_ = dict(mo.get("state", {})), dict(io["state"])
        if io["outcome"] == "blocked":
            # the model stops before starting the unspecified worker, the code has already started it
            ms.pop("writeEndClosed", None)
            is_.pop("writeEndClosed", None)
        if ms != is_:
            return False
        if io["outcome"] == "code":
            return mo.get("rc") == io["rc"] and mo.get("result") == io["result"]
        return True

    # -- the property itself, on the implementation's behaviour ---------------------------------
    @staticmethod
    def _consumed(case, io):
        """The fates of the workers that were really started and waited for (a `spawnFails` entry ends
        the run, so the first `started` entries are exactly the started workers)."""
        return case["fates"][:io["state"]["started"]]

    def oracle(self, case, io):
        if "real" in io:
            return [Failure(sig, what) for sig, what in io["failures"]]
        fs = []
        T0 = case["search_time"]
        st = io["state"]
        tl = st["timeline"]  # newest first
        consumed = self._consumed(case, io)
        died = [f for f in consumed if "num" in f]
        all_pos = all(f["num"] > 0 for f in case["fates"] if "num" in f)
        if io["outcome"] == "hang":
            fs.append(Failure({"class": "hang", "cause": io.get("hang_cause")},
                              "the command does not return: get_result waits forever for a dead worker "
                              f"({io.get('hang_cause')})", detail=io))
            return fs
        # restarts only while search time remains
        if any(x <= 0 for x in tl[:-1]):
            fs.append(Failure({"class": "restart-without-time"},
                              f"a worker was restarted with maximum_search_time <= 0: {tl}", detail=io))
        if T0 <= 0 and (st["restarts"] != 0 or st["started"] > 1):
            fs.append(Failure({"class": "restart-without-time"},
                              f"restart although no search time was configured ({T0})", detail=io))
        # each restart strictly reduces the remaining search time (given positive elapsed times)
        if all(f["num"] > 0 for f in died):
            if any(not (a < b) for a, b in zip(tl, tl[1:])):
                fs.append(Failure({"class": "restart-without-decrease"},
                                  f"search-time budgets of successive workers do not strictly decrease: {tl}",
                                  detail=io))
            if st["restarts"] > max(T0, 1) - 1:
                fs.append(Failure({"class": "restart-bound"},
                                  f"{st['restarts']} restarts with maximum_search_time={T0}", detail=io))
        # the command returns once the script is at least max(1, T0) long
        if all_pos and len(case["fates"]) >= max(1, T0) and io["outcome"] != "code":
            fs.append(Failure({"class": "no-return"},
                              f"outcome {io['outcome']} although {len(case['fates'])} >= max(1,{T0}) fates given",
                              detail=io))
        # success only if some worker delivered it
        if io.get("rc") == "ok":
            last = consumed[-1] if consumed else None
            if not (last and last["k"] == "returns" and last["rc"] == "ok"):
                fs.append(Failure({"class": "ok-without-delivery"},
                                  "ReturnCode.OK reported although no worker delivered OK", detail=io))
        return fs

    def classify(self, case, io):
        if "real" in io:
            return None
        if any("num" in f for f in self._consumed(case, io)):
            return vcommon.jdump(case)
        return None

    # -- real processes -------------------------------------------------------------------------
    def _env(self):
        env = dict(os.environ)
        env["PYNGUIN_DANGER_AWARE"] = "1"
        env["PYTHONPATH"] = str(vcommon.REPO / "src")
        env["PYTHONHASHSEED"] = "0"
        env.pop("SE2P_PYNGUIN_VERIF", None)
        return env

    def _orphan_replay(self, scratch) -> list[Failure]:
        """Witness of `hang_orphan_holds_pipe_cex` on the real OS: the worker dies, a descendant that
        inherited the pipe's sending end lives on for `linger` seconds.  The command must return while
        the descendant is still alive (otherwise an immortal descendant makes it wait forever)."""
        exp = os.path.join(scratch, "orphan_exp.py")
        with open(exp, "w") as f:
            f.write(ORPHAN_EXP)
        pidfile = os.path.join(scratch, "orphans.txt")
        open(pidfile, "w").close()
        linger = 5.0
        import signal
        proc = subprocess.Popen([vcommon.PY, exp, str(linger), pidfile], env=self._env(), cwd=scratch,
                                stdout=subprocess.PIPE, stderr=subprocess.PIPE, text=True, start_new_session=True)
        try:
            stdout, stderr = proc.communicate(timeout=60)
        except subprocess.TimeoutExpired:
            os.killpg(proc.pid, signal.SIGKILL)
            stdout, stderr = proc.communicate()
            n_workers = len(open(pidfile).read().split())
            return [Failure({"class": "hang", "cause": "real-run-timeout"},
                            "real processes: a worker that dies at once (maximum_search_time=2) — the command did not "
                            f"return within 60 s; {n_workers} workers were started",
                            case={"real_orphan_replay": {"linger": linger, "search_time": 2}},
                            detail=(stdout[-1000:], stderr[-2000:]))]
        m = re.search(r"RESULT (\w+) ([\d.]+) (\d+) (-?\d+)", stdout)
        if not m:
            raise RuntimeError(f"orphan replay produced no result: {stdout[-500:]} {stderr[-1500:]}")
        rc, secs, alive, left = m.group(1), float(m.group(2)), int(m.group(3)), int(m.group(4))
        self.extra_coverage["orphan_replay"] = {"rc": rc, "returned_after_s": secs, "orphans_alive_at_return": alive,
                                                "linger_s": linger, "search_time_left": left}
        if alive == 0:
            return [Failure({"class": "hang", "cause": "orphan-holds-pipe"},
                            f"real processes: the worker died at once, but the command only returned after {secs}s, "
                            f"when the last descendant holding the pipe had exited (linger={linger}s); with an "
                            "immortal descendant it never returns",
                            case={"real_orphan_replay": {"linger": linger, "search_time": 2}},
                            detail=self.extra_coverage["orphan_replay"])]
        return []

    # Single-crash runs get a generous search time, so that time is left for the restart even on a
    # loaded machine; the quick tier keeps the restarted (subprocess-mode, one fork per test execution)
    # worker cheap with the RANDOM algorithm, 3 iterations and no assertion generation (the assertion
    # phase is still entered).  The thorough tier also uses the default DynaMOSA + mutation analysis.
    CHEAP = ["--maximum_iterations", "3", "--algorithm", "RANDOM", "--assertion_generation", "NONE"]
    E2E_QUICK = [
        ("tiny", "import:inf", ["--maximum_search_time", "12"]),
        ("tiny", "search:inf", ["--maximum_iterations", "3"]),
        ("tiny", "search:1", ["--maximum_search_time", "30", *CHEAP]),
        ("tiny", "export:1", ["--maximum_search_time", "30", *CHEAP]),
    ]
    E2E_THOROUGH = E2E_QUICK + [
        ("tiny", "", ["--maximum_search_time", "5"]),
        ("tiny", "import:1", ["--maximum_search_time", "30"]),
        ("tiny", "import:2", ["--maximum_search_time", "30"]),
        ("tiny", "import:1", ["--maximum_iterations", "3"]),
        ("tiny", "search:2", ["--maximum_search_time", "30"]),
        ("tiny", "search:inf", ["--maximum_search_time", "5"]),
        ("tiny", "assertions:1", ["--maximum_search_time", "30"]),
        ("tiny", "assertions:2", ["--maximum_search_time", "40"]),
        ("tiny", "assertions:inf", ["--maximum_search_time", "4"]),
        ("tiny", "assertions:inf", ["--maximum_iterations", "3"]),
        ("tiny", "export:2", ["--maximum_search_time", "40"]),
        ("tiny", "export:inf", ["--maximum_search_time", "4"]),
        ("tiny", "export:1", ["--maximum_iterations", "3"]),
        ("tiny", "export:1", ["--maximum_search_time", "30", "--maximum_iterations", "50"]),
        ("tiny", "assertions:1", ["--maximum_search_time", "30", *CHEAP]),
        ("tiny", "import:3", ["--maximum_search_time", "40", *CHEAP]),
        ("crashy", "", ["--maximum_search_time", "20"]),
        ("crashy", "", ["--maximum_iterations", "30"]),
        ("crashy", "search:1", ["--maximum_search_time", "25"]),
    ]

    def _e2e_one(self, scratch, idx, sut, spec, args):
        d = os.path.join(scratch, f"run{idx}")
        os.makedirs(os.path.join(d, "sut"))
        os.makedirs(os.path.join(d, "out"))
        with open(os.path.join(d, "sut", f"{sut}mod.py"), "w") as f:
            f.write(SUT_TINY if sut == "tiny" else SUT_CRASHY)
        env = self._env()
        env["C33_CRASH"] = spec
        env["C33_COUNTER"] = os.path.join(d, "phases.txt")
        open(env["C33_COUNTER"], "w").close()
        cmd = [vcommon.PY, os.path.join(scratch, "launcher.py"), "--project-path", os.path.join(d, "sut"),
               "--module-name", f"{sut}mod", "--output-path", os.path.join(d, "out"),
               "--report-dir", os.path.join(d, "report"), "--seed", "7", "--no-rich", "-v", *args]
        t0 = _time.time()
        import signal
        proc = subprocess.Popen(cmd, env=env, cwd=d, stdout=subprocess.PIPE, stderr=subprocess.PIPE, text=True,
                                start_new_session=True)
        try:
            so, se = proc.communicate(timeout=240)
            rc, log, hung = proc.returncode, so + "\n" + se, False
        except subprocess.TimeoutExpired:
            os.killpg(proc.pid, signal.SIGKILL)  # master and all workers
            so, se = proc.communicate()
            rc, log, hung = None, so + "\n" + se, True
        phases = open(env["C33_COUNTER"]).read().split()
        return {"sut": sut, "spec": spec, "args": args, "rc": rc, "hung": hung, "log": log, "phases": phases,
                "wall": round(_time.time() - t0, 1),
                "tests_written": os.path.exists(os.path.join(d, "out", f"test_{sut}mod.py"))}

    ADJ = re.compile(r"Adjusted maximum_search_time from (-?\d+) to (-?\d+) seconds \(([\d.]+) seconds consumed")

    def _e2e_judge(self, run) -> tuple[list[Failure], dict | None]:
        """Property oracle on one real run + the script to replay on the model."""
        tag = {"sut": run["sut"], "crash": run["spec"], "args": " ".join(run["args"])}
        if run["rc"] == 97:
            raise RuntimeError("e2e launcher: start method is not fork or a phase function of "
                               "pynguin.generator was renamed; crash injection impossible")
        if run["hung"]:
            return [Failure({"class": "hang", "cause": "e2e", "phase": run["spec"].split(":")[0]},
                            f"real master/worker run did not return within 240 s: {tag}", case=tag,
                            detail=run["log"][-3000:])], None
        log = run["log"]
        m = re.search(r"--maximum_search_time (\d+)", tag["args"])
        T0 = int(m.group(1)) if m else -1
        adj = [(int(a), int(b), float(x)) for a, b, x in self.ADJ.findall(log)]
        restarts = [int(n) for n in re.findall(r"Worker process died, restarting \((\d+)\)", log)]
        aborted = "Maximum search time is zero, aborting" in log
        recv = re.findall(r"Received result for task \S+: (\d+)", log)
        worker_starts = len(re.findall(r"Worker process started \(PID", log))
        fs = []

        def fail(cls, what):
            fs.append(Failure({"class": cls, "e2e": True}, f"{what} [{tag}]", case=tag, detail=log[-3000:]))

        for a, b, x in adj:
            if not (0 <= b < a):
                fail("restart-without-decrease", f"search time adjusted from {a} to {b}")
            lo, hi = int(max(a - (x + 0.06), 0)), int(max(a - (x - 0.06), 0))
            if not (lo <= b <= hi):
                fail("adjust-arithmetic", f"adjusted from {a} to {b} with {x}s consumed")
        if restarts != list(range(1, len(restarts) + 1)):
            fail("restart-count", f"restart numbering {restarts}")
        if T0 <= 0 and restarts:
            fail("restart-without-time", "restart under an iteration-only budget")
        if restarts and len(restarts) > max(T0, 1) - 1:
            fail("restart-bound", f"{len(restarts)} restarts with search time {T0}")
        if T0 > 0:
            times = [T0] + [b for _, b, _ in adj]
            n_restart_ok = sum(1 for b in times[1:] if b > 0)
            if len(restarts) != n_restart_ok:
                fail("restart-without-time", f"restarts {restarts} vs remaining times {times}")
        if worker_starts != len(restarts) + 1:
            fail("worker-starts", f"{worker_starts} workers started, {len(restarts)} restarts")
        if run["rc"] == 0 and not (recv and recv[-1] == "0"):
            fail("ok-without-delivery", "exit code 0 although no worker delivered ReturnCode.OK")
        if run["rc"] == 0 and not run["tests_written"]:
            fail("ok-without-delivery", "exit code 0 but no test file was written")
        if run["rc"] not in (0, 1, 2, 3):
            fail("exit-code", f"unexpected exit code {run['rc']}")
        # script for the model: every crash consumed (a - b) seconds as far as the int arithmetic can tell
        fates = []
        if T0 > 0:
            fates = [{"k": "killed", "num": max(a - b, 1), "den": 1, "orphan": False} for a, b, _ in adj]
        elif aborted:
            fates = [{"k": "killed", "num": 1, "den": 1, "orphan": False}]
        if recv:
            # The log line prints the WorkerReturnCode (0 = the worker delivered a result, 1 = it delivered an
            # error result), NOT the pipeline's ReturnCode carried inside the result.  What the delivered
            # pipeline code was is only visible in the exit status (a worker that runs out of search time
            # under load legitimately delivers NO_TESTS_GENERATED): it is an input of the model, not a
            # prediction.  `ok-without-delivery` above still ties exit code 0 to a delivered OK result.
            if recv[-1] == "0":
                fates.append({"k": "returns", "rc": RC_BY_VALUE.get(run["rc"], "ok")})
            else:
                fates.append({"k": "raises"})
        elif not aborted:
            fates.append({"k": "raises"})  # no result line and no abort: must not happen; model will disagree
        case = {"search_time": T0, "use_mw": True, "subprocess": False, "sir": True, "fates": fates}
        observed = {"rc": RC_BY_VALUE.get(run["rc"]), "restarts": len(restarts),
                    "searchTime": ([T0] + [b for _, b, _ in adj])[-1],
                    "timeline": list(reversed([T0] + [b for _, b, _ in adj if b > 0])),
                    "force": bool(restarts)}
        return fs, {"case": case, "observed": observed, "tag": tag}

    def translate(self):
        """Nothing to translate; used as the earliest hook of a run to start the real-process runs in
        the background, so that they overlap with the build, the audit and the correspondence."""
        import atexit
        self._scratch = tempfile.mkdtemp(prefix="c33-")
        atexit.register(shutil.rmtree, self._scratch, ignore_errors=True)
        with open(os.path.join(self._scratch, "launcher.py"), "w") as f:
            f.write(LAUNCHER)
        plan = self.E2E_QUICK if self.tier == "quick" else self.E2E_THOROUGH
        if os.environ.get("C33_E2E", "1") == "0":
            plan = []
        self._pool = concurrent.futures.ThreadPoolExecutor(max_workers=5 if self.tier == "quick" else 6)
        self._orphan_fut = self._pool.submit(self._orphan_replay, self._scratch)
        self._e2e_futs = [self._pool.submit(self._e2e_one, self._scratch, i, *p) for i, p in enumerate(plan)]

    def extra_checks(self):
        import json
        fs: list[Failure] = []
        try:
            runs = [f.result() for f in self._e2e_futs]
            fs += self._orphan_fut.result()
            replays, summary = [], []
            for run in runs:
                f1, rep = self._e2e_judge(run)
                fs += f1
                if rep is not None:
                    replays.append(rep)
                summary.append({"sut": run["sut"], "crash": run["spec"], "args": " ".join(run["args"]),
                                "exit": run["rc"], "wall_s": run["wall"], "worker_phases": run["phases"],
                                "observed": rep["observed"] if rep else None})
                self.count("e2e:" + (run["spec"].split(":")[0] or "no-injection") + ":" + run["sut"]
                           + (":iterations" if "--maximum_search_time" not in run["args"] else ":search-time"))
            # replay the observed crash scripts on the model
            if replays and self._driver_builds():
                mouts = vcommon.run_driver(self.driver, [vcommon.jdump(model_case(r["case"])) for r in replays])
                for r, line in zip(replays, mouts):
                    mo = json.loads(line)
                    ob = r["observed"]
                    got = {"rc": mo.get("rc"), "restarts": mo.get("state", {}).get("restarts"),
                           "searchTime": mo.get("state", {}).get("searchTime"),
                           "timeline": mo.get("state", {}).get("timeline"),
                           "force": mo.get("state", {}).get("force")}
                    self.validated += 1
                    if mo.get("outcome") != "code" or got != ob:
                        fs.append(Failure({"class": "e2e-disagrees-with-model", "e2e": True},
                                          f"real run {r['tag']}: observed {ob}, model {got}", case=r["tag"],
                                          detail={"model": mo, "script": r["case"]}))
            self.extra_coverage["e2e_runs"] = summary
            self.extra_coverage["e2e_restarts_total"] = sum(r["observed"]["restarts"] for r in replays)
            self.extra_coverage["e2e_injection"] = ("launcher wraps pynguin.generator phase functions before the "
                                                    "master forks the worker (no source hook in /repo needed)")
            self.extra_coverage["hook"] = "not_needed"
        finally:
            self._pool.shutdown(wait=True)
            shutil.rmtree(self._scratch, ignore_errors=True)
        return fs


if __name__ == "__main__":
    run_main(C33)
