"""Helpers to run pynguin's real instrumentation on a source string (shared by C01-C03, C07, C08)."""
from __future__ import annotations

import importlib
import os
import shutil
import sys
import tempfile
import itertools

_counter = itertools.count()


def instrument_module(src: str, metrics=("BRANCH",), only_cover=(), no_cover=(), pragma=True,
                      pynguin_pragma=True, seeding=False):
    """Write `src` as a fresh module, import it through pynguin's import hook.

    Returns (module, subject_properties, tmpdir). Caller must call cleanup(tmpdir, module).
    """
    import pynguin.configuration as config
    from pynguin.instrumentation.machinery import install_import_hook
    from pynguin.instrumentation.tracer import SubjectProperties

    d = tempfile.mkdtemp(prefix="verif_instr_")
    name = f"verifsut_{os.getpid()}_{next(_counter)}"
    with open(os.path.join(d, name + ".py"), "w", encoding="utf-8") as f:
        f.write(src)
    sp = SubjectProperties()
    cm = {getattr(config.CoverageMetric, m) for m in metrics}
    tc = config.ToCoverConfiguration(only_cover=list(only_cover), no_cover=list(no_cover),
                                     enable_inline_pynguin_no_cover=pynguin_pragma,
                                     enable_inline_pragma_no_cover=pragma)
    dcp = None
    if seeding:
        from pynguin.analyses.constants import ConstantPool, DynamicConstantProvider, EmptyConstantProvider
        dcp = DynamicConstantProvider(ConstantPool(), EmptyConstantProvider(), probability=0,
                                      max_constant_length=50)
    sys.path.insert(0, d)
    try:
        with install_import_hook(name, sp, coverage_metrics=cm, to_cover_config=tc,
                                 dynamic_constant_provider=dcp):
            with sp.instrumentation_tracer:
                mod = importlib.import_module(name)
    finally:
        sys.path.remove(d)
    return mod, sp, d


def plain_module(src: str):
    d = tempfile.mkdtemp(prefix="verif_plain_")
    name = f"verifplain_{os.getpid()}_{next(_counter)}"
    with open(os.path.join(d, name + ".py"), "w", encoding="utf-8") as f:
        f.write(src)
    sys.path.insert(0, d)
    try:
        mod = importlib.import_module(name)
    finally:
        sys.path.remove(d)
    return mod, d


def cleanup(d: str, mod=None) -> None:
    if mod is not None:
        sys.modules.pop(mod.__name__, None)
    shutil.rmtree(d, ignore_errors=True)
