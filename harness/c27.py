"""C27 — the test cluster holds exactly the module's eligible callables (DESIGN §5 C27).

Tie 1 (translator, `translate()`): on every run the AST of the live `pynguin/analyses/module.py` is read
and `lean/PynguinModel/Generated/C27Visibility.lean` is rewritten: `__is_constructor`, `__is_annotate`,
`__is_protected`, `__is_private`, `__is_name_mangled` (+ the parsed `__NAME_MANGLED_PATTERN`),
`__should_skip_by_visibility` (the `if not add_to_test` guard and the `match` over
`ElementVisibility`), the `("main", "test")` prefixes of `_is_blacklisted` and the live
`MODULE_BLACKLIST` / `METHOD_BLACKLIST`.  `Props/C27.lean` proves the name-shape specification about
exactly these generated definitions, so a changed predicate meets the theorems again.  The emitted
predicates are self-checked against the live functions on a few hundred names.  Shapes outside the
whitelisted AST subset make the translator raise (-> broken obligation + failing-input search).

Tie 2 (correspondence): random small projects (module under test + up to two dependency modules:
imports, re-exports, aliases, lambdas, cached / decorated / async functions, classes with public /
protected / private / dunder / mangled-looking members, static / class methods, properties, nested
classes, borrowed functions, abstract classes, enums, inheritance inside and across modules, classes named like
the foreign class they inherit from — `class N(dep.N)`, `class N(Alias)`, `class N(N)` —) are written
to a scratch directory, imported, and analysed by the real `generate_test_cluster` under a random
visibility and random ignore lists.  The harness' own `inspect` view of the imported modules is handed to
the Lean model (`Driver/C27.lean`), which must predict the same set of accessibles under test.

Oracle (independent of the model and of `inspect`): from the *declarations* the generator wrote, every
callable is demanded / forbidden / optional under the property's words: demanded = module-level function,
constructor or (static / instance) method declared in the module under test whose declared name is
eligible under the visibility and which is not ignored by configuration; forbidden = declared in another
module, ineligible name, or ignored; optional = what the property does not speak about (coroutines,
`main*` / `test*` functions, abstract constructors, empty enums, nested classes, class methods,
properties, inherited or borrowed members of the module's own classes).
On the objects: the function behind every method / function under test has `__module__ ==` the module under test.
"""
from __future__ import annotations

import ast
import enum
import functools
import hashlib
import importlib
import inspect
import logging
import random
import re
import shutil
import sys
import tempfile
from pathlib import Path

import vcommon
from vcommon import Failure, PropertyCheck, run_main

GEN_PATH = vcommon.LEAN / "PynguinModel" / "Generated" / "C27Visibility.lean"
SRC_REL = "src/pynguin/analyses/module.py"
VISES = ["PUBLIC", "PROTECTED", "ALL"]


class TranslateError(Exception):
    pass


# =================================================================================================
# Translator: live source -> IR -> Lean text (+ Python evaluation of the IR for the self-check)
# =================================================================================================
PRED_FUNCS = ["__is_constructor", "__is_annotate", "__is_protected", "__is_private", "__is_name_mangled"]
LEAN_NAME = {"__is_constructor": "is_constructor", "__is_annotate": "is_annotate",
             "__is_protected": "is_protected", "__is_private": "is_private",
             "__is_name_mangled": "is_name_mangled", "__should_skip_by_visibility": "should_skip_by_visibility"}
PATTERN_NAME = "__NAME_MANGLED_PATTERN"


def _body(fn: ast.FunctionDef) -> list[ast.stmt]:
    body = list(fn.body)
    if body and isinstance(body[0], ast.Expr) and isinstance(body[0].value, ast.Constant) \
            and isinstance(body[0].value.value, str):
        body = body[1:]
    return body


def _tr_expr(e: ast.expr, param: str, boolvars: tuple[str, ...] = ()):
    """Whitelisted expression subset -> IR (nested tuples)."""
    if isinstance(e, ast.Constant) and isinstance(e.value, bool):
        return ("const", e.value)
    if isinstance(e, ast.Name) and e.id in boolvars:
        return ("var", e.id)
    if isinstance(e, ast.UnaryOp) and isinstance(e.op, ast.Not):
        return ("not", _tr_expr(e.operand, param, boolvars))
    if isinstance(e, ast.BoolOp):
        op = "and" if isinstance(e.op, ast.And) else "or"
        vals = [_tr_expr(v, param, boolvars) for v in e.values]
        out = vals[0]
        for v in vals[1:]:
            out = (op, out, v)
        return out
    if isinstance(e, ast.Compare) and len(e.ops) == 1 and isinstance(e.ops[0], ast.Eq) \
            and isinstance(e.left, ast.Name) and e.left.id == param \
            and isinstance(e.comparators[0], ast.Constant) and isinstance(e.comparators[0].value, str):
        return ("eq", e.comparators[0].value)
    if isinstance(e, ast.Call) and not e.keywords:
        f = e.func
        if isinstance(f, ast.Name) and f.id == "bool" and len(e.args) == 1:
            return _tr_expr(e.args[0], param, boolvars)
        if isinstance(f, ast.Attribute) and isinstance(f.value, ast.Name) and f.value.id == param \
                and f.attr in ("startswith", "endswith") and len(e.args) == 1 \
                and isinstance(e.args[0], ast.Constant) and isinstance(e.args[0].value, str):
            return (f.attr, e.args[0].value)
        if isinstance(f, ast.Attribute) and isinstance(f.value, ast.Name) and f.value.id == PATTERN_NAME \
                and f.attr == "fullmatch" and len(e.args) == 1 and isinstance(e.args[0], ast.Name) \
                and e.args[0].id == param:
            return ("fullmatch",)
        if isinstance(f, ast.Name) and f.id in PRED_FUNCS and len(e.args) == 1 \
                and isinstance(e.args[0], ast.Name) and e.args[0].id == param:
            return ("call", f.id)
    raise TranslateError(f"expression outside the translated subset: {ast.unparse(e)}")


def _tr_stmts(stmts: list[ast.stmt], param: str, boolvars: tuple[str, ...]):
    """Statement list ending in returns -> IR: ("ret", e) | ("if", c, a, b) | ("match", [(ctor|None, ir)])."""
    if not stmts:
        raise TranslateError("control reaches the end of the function without a return")
    s, rest = stmts[0], stmts[1:]
    if isinstance(s, ast.Return) and s.value is not None:
        return ("ret", _tr_expr(s.value, param, boolvars))
    if isinstance(s, ast.If):
        return ("if", _tr_expr(s.test, param, boolvars), _tr_stmts(s.body, param, boolvars),
                _tr_stmts(list(s.orelse) + rest, param, boolvars))
    if isinstance(s, ast.Match):
        if ast.unparse(s.subject) != "config.configuration.element_visibility":
            raise TranslateError(f"match over {ast.unparse(s.subject)}")
        cases = []
        wild = False
        for c in s.cases:
            if c.guard is not None:
                raise TranslateError("guarded match case")
            p = c.pattern
            if isinstance(p, ast.MatchValue) and isinstance(p.value, ast.Attribute) \
                    and isinstance(p.value.value, ast.Name) and p.value.value.id == "ElementVisibility" \
                    and p.value.attr in VISES:
                cases.append((p.value.attr, _tr_stmts(list(c.body) + rest, param, boolvars)))
            elif isinstance(p, ast.MatchAs) and p.pattern is None:
                cases.append((None, _tr_stmts(list(c.body) + rest, param, boolvars)))
                wild = True
                break
            else:
                raise TranslateError(f"match pattern {ast.unparse(p)}")
        if not wild:
            cases.append((None, _tr_stmts(rest, param, boolvars)))
        return ("match", cases)
    raise TranslateError(f"statement outside the translated subset: {ast.unparse(s)[:80]}")


def _parse_regex(pattern: str, flags: int):
    """The fragment: optional ^, a sequence of single-char classes with 1 / * / +, optional $."""
    import re._constants as C
    import re._parser as sp
    if flags & ~re.UNICODE:
        raise TranslateError(f"regex flags {flags}")
    items = list(sp.parse(pattern, flags))
    if items and items[0] == (C.AT, C.AT_BEGINNING):
        items = items[1:]
    if items and items[-1] == (C.AT, C.AT_END):
        items = items[:-1]     # under fullmatch `$` only differs for a trailing newline (no name has one)

    def cclass(op, av):
        if op is C.LITERAL:
            return ("lit", chr(av))
        if op is C.IN:
            if av == [(C.CATEGORY, C.CATEGORY_WORD)]:
                return ("word",)
            rs = []
            for o, a in av:
                if o is C.LITERAL:
                    rs.append((chr(a), chr(a)))
                elif o is C.RANGE:
                    rs.append((chr(a[0]), chr(a[1])))
                elif o is C.CATEGORY and a is C.CATEGORY_DIGIT:
                    rs.append(("0", "9"))
                else:
                    raise TranslateError(f"character class member {o} {a}")
            return ("ranges", rs)
        raise TranslateError(f"regex element {op} {av}")

    out = []
    for op, av in items:
        if op is C.MAX_REPEAT:
            lo, hi, sub = av
            sub = list(sub)
            if hi is not C.MAXREPEAT or lo not in (0, 1) or len(sub) != 1:
                raise TranslateError(f"repeat {lo},{hi} of {sub}")
            out.append(("star" if lo == 0 else "plus", cclass(*sub[0])))
        else:
            out.append(("one", cclass(op, av)))
    return out


def build_ir() -> dict:
    path = vcommon.REPO / SRC_REL
    text = path.read_text()
    tree = ast.parse(text)
    funcs = {n.name: n for n in tree.body if isinstance(n, ast.FunctionDef)}
    ir: dict = {"sha": hashlib.sha256(text.encode()).hexdigest(), "preds": {}}
    # the regex
    pat = None
    for n in tree.body:
        if isinstance(n, ast.Assign) and len(n.targets) == 1 and isinstance(n.targets[0], ast.Name) \
                and n.targets[0].id == PATTERN_NAME:
            v = n.value
            if isinstance(v, ast.Call) and ast.unparse(v.func) == "re.compile" and len(v.args) == 1 \
                    and not v.keywords and isinstance(v.args[0], ast.Constant):
                pat = v.args[0].value
            else:
                raise TranslateError(f"{PATTERN_NAME} = {ast.unparse(v)}")
    if pat is None:
        raise TranslateError(f"{PATTERN_NAME} not found")
    ir["pattern_src"] = pat
    ir["pattern"] = _parse_regex(pat, re.UNICODE)
    # the simple predicates
    for name in PRED_FUNCS:
        fn = funcs.get(name)
        if fn is None:
            raise TranslateError(f"{name} not found")
        if len(fn.args.args) != 1 or fn.args.kwonlyargs or fn.args.vararg or fn.args.kwarg:
            raise TranslateError(f"{name}: signature")
        param = fn.args.args[0].arg
        body = _body(fn)
        if len(body) != 1 or not isinstance(body[0], ast.Return):
            raise TranslateError(f"{name}: body is not a single return")
        ir["preds"][name] = {"param": param, "expr": _tr_expr(body[0].value, param),
                             "src": ast.unparse(body[0].value), "line": fn.lineno}
    # __should_skip_by_visibility(name, *, add_to_test)
    fn = funcs.get("__should_skip_by_visibility")
    if fn is None:
        raise TranslateError("__should_skip_by_visibility not found")
    if [a.arg for a in fn.args.args] != ["name"] or [a.arg for a in fn.args.kwonlyargs] != ["add_to_test"]:
        raise TranslateError("__should_skip_by_visibility: signature")
    ir["skip"] = {"body": _tr_stmts(_body(fn), "name", ("add_to_test",)), "line": fn.lineno}
    # how the analysis calls it (which name the rule is applied to is hand-modelled; pin the argument shapes)
    # _is_blacklisted: the qualname prefixes
    fn = funcs.get("_is_blacklisted")
    if fn is None:
        raise TranslateError("_is_blacklisted not found")
    prefixes = None
    for n in ast.walk(fn):
        if isinstance(n, ast.Call) and isinstance(n.func, ast.Attribute) and n.func.attr == "startswith" \
                and ast.unparse(n.func.value) == "func.__qualname__" and len(n.args) == 1:
            a = n.args[0]
            if isinstance(a, ast.Tuple) and all(isinstance(x, ast.Constant) and isinstance(x.value, str) for x in a.elts):
                prefixes = [x.value for x in a.elts]
            elif isinstance(a, ast.Constant) and isinstance(a.value, str):
                prefixes = [a.value]
    ir["prefixes"] = prefixes if prefixes is not None else []
    import pynguin.analyses.module as M
    ir["module_blacklist"] = sorted(M.MODULE_BLACKLIST)
    ir["method_blacklist"] = sorted(M.METHOD_BLACKLIST)
    return ir


# ---- rendering ----------------------------------------------------------------------------------
def lchar(c: str) -> str:
    if c.isascii() and (c.isalnum() or c in "_.<>- "):
        return f"'{c}'"
    return f"(Char.ofNat {ord(c)})"


def lname(s: str) -> str:
    return "[" + ", ".join(lchar(c) for c in s) + "]" if s else "([] : Name)"


def _r_expr(e, p: str) -> str:
    k = e[0]
    if k == "const":
        return "true" if e[1] else "false"
    if k == "var":
        return e[1]
    if k == "not":
        return f"!({_r_expr(e[1], p)})"
    if k in ("and", "or"):
        return f"({_r_expr(e[1], p)} {'&&' if k == 'and' else '||'} {_r_expr(e[2], p)})"
    if k == "eq":
        return f"({p} == {lname(e[1])})"
    if k == "startswith":
        return f"startsWith {p} {lname(e[1])}"
    if k == "endswith":
        return f"endsWith {p} {lname(e[1])}"
    if k == "fullmatch":
        return f"fullmatch NAME_MANGLED_PATTERN {p}"
    if k == "call":
        return f"{LEAN_NAME[e[1]]} {p}"
    raise TranslateError(f"render {e}")


def _r_stmts(s, p: str, ind: str) -> str:
    k = s[0]
    if k == "ret":
        return _r_expr(s[1], p)
    if k == "if":
        return (f"if {_r_expr(s[1], p)} then {_r_stmts(s[2], p, ind + '  ')}\n{ind}else "
                f"{_r_stmts(s[3], p, ind + '  ')}")
    if k == "match":
        lines = ["match vis with"]
        for ctor, b in s[1]:
            lines.append(f"{ind}  | {'.' + ctor if ctor else '_'} => {_r_stmts(b, p, ind + '    ')}")
        return "\n".join(lines)
    raise TranslateError(f"render {s}")


def _r_cclass(c) -> str:
    if c[0] == "lit":
        return f".lit {lchar(c[1])}"
    if c[0] == "word":
        return ".word"
    return ".ranges [" + ", ".join(f"({lchar(a)}, {lchar(b)})" for a, b in c[1]) + "]"


def render(ir: dict) -> str:
    o = ["import PynguinModel.Model.ClusterFilter",
         "/-! GENERATED by harness/c27.py `translate()` from the live pynguin source — do not edit.",
         "Visibility predicates, the name-mangling pattern and the blacklists of `analyses/module.py`. -/",
         f"-- source: {SRC_REL} sha256 {ir['sha']}",
         "namespace PynguinModel.ClusterFilter.Generated", "",
         f"/-- `{PATTERN_NAME} = re.compile(r\"{ir['pattern_src']}\")` -/",
         "def NAME_MANGLED_PATTERN : List RItem :=",
         "  [" + ", ".join(f".{q} ({_r_cclass(c)})" for q, c in ir["pattern"]) + "]", ""]
    for name in PRED_FUNCS:
        d = ir["preds"][name]
        o += [f"/-- `{name}` (line {d['line']}): `return {d['src']}` -/",
              f"def {LEAN_NAME[name]} ({d['param']} : Name) : Bool := {_r_expr(d['expr'], d['param'])}", ""]
    o += [f"/-- `__should_skip_by_visibility` (line {ir['skip']['line']}); `vis` is `config.configuration.element_visibility` -/",
          "def should_skip_by_visibility (vis : Vis) (name : Name) (add_to_test : Bool) : Bool :=",
          "  " + _r_stmts(ir["skip"]["body"], "name", "  "), ""]
    o += ["/-- `func.__qualname__.startswith((...))` in `_is_blacklisted` -/",
          "def funcPrefixBlacklist : List Name := [" + ", ".join(lname(p) for p in ir["prefixes"]) + "]", "",
          "/-- `MODULE_BLACKLIST` (live value, sorted) -/",
          "def moduleBlacklist : List Name :=\n  [" + ",\n   ".join(lname(p) for p in ir["module_blacklist"]) + "]", "",
          "/-- `METHOD_BLACKLIST` (live value, sorted) -/",
          "def methodBlacklist : List Name := [" + ", ".join(lname(p) for p in ir["method_blacklist"]) + "]", "",
          "def preds : Preds :=",
          "  { shouldSkip := should_skip_by_visibility, isConstructor := is_constructor, isAnnotate := is_annotate,",
          "    moduleBlacklist := moduleBlacklist, methodBlacklist := methodBlacklist,",
          "    funcPrefixBlacklist := funcPrefixBlacklist }", "",
          "end PynguinModel.ClusterFilter.Generated", ""]
    return "\n".join(o)


# ---- Python evaluation of the IR (self-check against the live functions) --------------------------
def _word(c: str) -> bool:
    return c.isascii() and (c.isalnum() or c == "_")


def _cc_test(c, x: str) -> bool:
    if c[0] == "lit":
        return x == c[1]
    if c[0] == "word":
        return _word(x)
    return any(a <= x <= b for a, b in c[1])


def _match_items(items, s: str) -> bool:
    if not items:
        return s == ""
    (q, c), rest = items[0], items[1:]
    if q == "one":
        return bool(s) and _cc_test(c, s[0]) and _match_items(rest, s[1:])
    if q == "plus":
        return bool(s) and _cc_test(c, s[0]) and _match_items([("star", c)] + rest, s[1:])
    if _match_items(rest, s):
        return True
    return bool(s) and _cc_test(c, s[0]) and _match_items(items, s[1:])


def _ev_expr(ir, e, name: str, env: dict) -> bool:
    k = e[0]
    if k == "const":
        return e[1]
    if k == "var":
        return env[e[1]]
    if k == "not":
        return not _ev_expr(ir, e[1], name, env)
    if k == "and":
        return _ev_expr(ir, e[1], name, env) and _ev_expr(ir, e[2], name, env)
    if k == "or":
        return _ev_expr(ir, e[1], name, env) or _ev_expr(ir, e[2], name, env)
    if k == "eq":
        return name == e[1]
    if k == "startswith":
        return name.startswith(e[1])
    if k == "endswith":
        return name.endswith(e[1])
    if k == "fullmatch":
        return _match_items(ir["pattern"], name)
    if k == "call":
        return _ev_expr(ir, ir["preds"][e[1]]["expr"], name, env)
    raise TranslateError(str(e))


def _ev_stmts(ir, s, name: str, env: dict, vis: str) -> bool:
    if s[0] == "ret":
        return _ev_expr(ir, s[1], name, env)
    if s[0] == "if":
        return _ev_stmts(ir, s[2] if _ev_expr(ir, s[1], name, env) else s[3], name, env, vis)
    for ctor, b in s[1]:
        if ctor is None or ctor == vis:
            return _ev_stmts(ir, b, name, env, vis)
    raise TranslateError("no match case")


SELF_CHECK_NAMES = ["", "_", "__", "___", "a", "_a", "__a", "___a", "a_", "a__", "_a_", "_a__", "__a_", "__a__",
                    "_A__x", "_Foo__helper", "_Foo__", "_Foo___", "_Foo__x__", "_Foo__x_", "_9a__b", "__Foo__x",
                    "_a__b", "_a1__b2", "_a_b__c", "_a___b", "_ab__c__d", "__init__", "__annotate_func__",
                    "main", "test_x", "x.y", "_Foo__é", "é", "_é__x", "__x__y"]


def self_check(ir: dict) -> int:
    import pynguin.configuration as config
    import pynguin.analyses.module as M
    n = 0
    names = list(SELF_CHECK_NAMES)
    r = random.Random(27)
    for _ in range(300):
        names.append("".join(r.choice("__aZ9_x") for _ in range(r.randint(0, 9))))
    old = config.configuration.element_visibility
    try:
        for nm in names:
            if not nm.isascii():
                continue   # the model is stated for ASCII names
            for f in PRED_FUNCS:
                live = bool(M.__dict__[f](nm))
                mine = _ev_expr(ir, ir["preds"][f]["expr"], nm, {})
                if live != mine:
                    raise TranslateError(f"self-check: {f}({nm!r}) live={live} emitted={mine}")
                n += 1
            for vis in VISES:
                config.configuration.element_visibility = config.ElementVisibility[vis]
                for att in (True, False):
                    live = bool(M.__dict__["__should_skip_by_visibility"](nm, add_to_test=att))
                    mine = _ev_stmts(ir, ir["skip"]["body"], nm, {"add_to_test": att}, vis)
                    if live != mine:
                        raise TranslateError(f"self-check: should_skip({nm!r}, {att}) under {vis} live={live} emitted={mine}")
                    n += 1
    finally:
        config.configuration.element_visibility = old
    return n


# =================================================================================================
# Project generator (declarations -> source text) and the ground truth of the oracle
# =================================================================================================
ROOT, DEP, DEP2 = "c27root", "c27dep", "c27dep2"

#: name shapes: (template, declared class); `{}` is replaced by a unique stem
FUNC_SHAPES = ["{}", "{}", "{}", "_{}", "_{}", "__{}", "__{}", "__{}__", "_{}_", "_{}__", "__{}_", "_K{}__x", "_k{}__x9",
               "_K{}__x__", "_K_{}__x", "_9{}__x", "main{}", "test{}", "maintain{}", "{}main", "_k{}__", "{}__y", "_{}__"]
METH_SHAPES = ["{}", "{}", "{}", "_{}", "_{}", "__{}", "__{}", "__{}__", "_{}_", "__{}_", "_K{}__x", "_K_{}__x", "_K{}__x__",
               "main{}", "test{}", "{}__y"]
DUNDERS = ["__eq__", "__len__", "__call__", "__iter__", "__getitem__", "__repr__", "__str__", "__hash__", "__lt__"]
CLASS_SHAPES = ["C{}", "C{}", "C{}", "_C{}", "__C{}", "C_{}", "C_{}_x", "c{}", "_C_{}", "C{}_", "__C{}__", "Test{}", "main{}"]


def looks_mangled(n: str) -> bool:
    """`_<Class>__<attr>`: single leading underscore, an identifier not starting with an underscore, a
    double underscore, a non-empty rest; not ending in a double underscore (own implementation, no regex)."""
    if len(n) < 5 or n[0] != "_" or not (n[1].isascii() and n[1].isalpha()) or n.endswith("__"):
        return False
    i = 2
    while i < len(n) and _word(n[i]):
        # class part is n[1:i]; need "__" at i and a non-empty word rest
        if n[i:i + 2] == "__" and len(n) > i + 2 and all(_word(c) for c in n[i + 2:]):
            return True
        i += 1
    return False


def name_class(n: str) -> str:
    """public / protected / private by the naming convention the visibility setting is documented with."""
    if n.startswith("__") and n.endswith("__"):
        return "public"          # dunder
    if n.startswith("__"):
        return "private"
    if looks_mangled(n):
        return "private"         # the mangled form of a private name
    if n.startswith("_"):
        return "protected"
    return "public"


def eligible(vis: str, n: str) -> bool:
    c = name_class(n)
    return c == "public" or (c == "protected" and vis in ("PROTECTED", "ALL")) or vis == "ALL"


def mangle(cls: str, attr: str) -> str:
    if attr.startswith("__") and not attr.endswith("__"):
        stripped = cls.lstrip("_")
        if stripped:
            return "_" + stripped + attr
    return attr


class Gen:
    def __init__(self, rng):
        self.rng = rng
        self.n = 0

    def stem(self) -> str:
        self.n += 1
        return "abcdefghijklmnopqrstuvwxyz"[self.n % 26] + str(self.n)

    def fname(self) -> str:
        return self.rng.choice(FUNC_SHAPES).format(self.stem())

    def mname(self) -> str:
        if self.rng.random() < 0.15:
            return self.rng.choice(DUNDERS)
        return self.rng.choice(METH_SHAPES).format(self.stem())

    def cname(self) -> str:
        return self.rng.choice(CLASS_SHAPES).format(self.stem())

    def gen_class(self, mod: str, avail_bases: list[str], funcs_avail: list[str], depth: int = 0,
                  same_name: dict[str, str] | None = None, free_names: list[str] | None = None) -> dict:
        """`same_name`: base expression -> the class name of the (foreign) class it denotes, offered only when a
        class of that name may be declared here (`class Handler(base.Handler)`, `class Plugin(BasePlugin)`,
        `class Handler(Handler)`); `free_names`: names of foreign classes usable for an unrelated class."""
        rng = self.rng
        kind = rng.choices(["plain", "abstract", "enum"], [8, 1, 1])[0] if depth == 0 else "plain"
        name = self.cname()
        bases = []
        if kind == "plain" and avail_bases and rng.random() < 0.45:
            bases = [rng.choice(avail_bases)]   # one base: two could denote the same class / clash in the MRO
            if same_name and bases[0] in same_name and rng.random() < 0.45:
                name = same_name[bases[0]]      # the subclass keeps the name of the foreign class it specialises
        elif free_names and rng.random() < 0.08:
            name = rng.choice(free_names)       # unrelated class named like a class of another module
        members = []
        seen = set()
        # inside a class body identifiers of the form `__x` are mangled: such targets cannot be referenced there
        safe_targets = [t for t in funcs_avail
                        if not any(p.startswith("__") and not p.endswith("__") for p in t.split("."))]
        for _ in range(rng.randint(0, 5)):
            r = rng.random()
            mn = self.mname()
            if mn in seen:
                continue
            if kind == "enum" and (mn in DUNDERS or (mn.startswith("_") and mn.endswith("_"))):
                continue   # `_sunder_` names are reserved in Enum bodies; dunder overrides change Enum itself
            seen.add(mn)
            if r < 0.62:
                members.append({"k": "method", "name": mn, "async": rng.random() < 0.08,
                                "static": rng.random() < 0.15,
                                "abstract": kind == "abstract" and rng.random() < 0.5})
            elif r < 0.70:
                members.append({"k": "classmethod", "name": mn})
            elif r < 0.77:
                members.append({"k": "property", "name": mn})
            elif r < 0.84 and safe_targets:
                members.append({"k": "borrow", "name": mn, "target": rng.choice(safe_targets)})
            elif r < 0.92 and depth == 0 and kind == "plain":
                members.append(dict(self.gen_class(mod, [], [], depth + 1), k="nested"))
            else:
                members.append({"k": "attr", "name": mn})
        if kind == "abstract" and not any(m.get("abstract") for m in members):
            members.append({"k": "method", "name": self.mname(), "async": False, "static": False, "abstract": True})
        return {"k": "class", "name": name, "kind": kind, "bases": bases, "init": rng.random() < 0.5,
                "enum_members": (0 if rng.random() < 0.3 else rng.randint(1, 3)) if kind == "enum" else 0,
                "members": members}

    def gen_module(self, mod: str, deps: dict[str, dict]) -> dict:
        """deps: already generated modules this one may import from."""
        rng = self.rng
        decls: list[dict] = []
        classes_avail: list[str] = []   # expressions usable as base classes
        funcs_avail: list[str] = []     # expressions denoting plain functions (local or foreign)
        local_funcs: list[str] = []
        local_classes: list[str] = []
        bound: set[str] = set()         # names bound at module level so far (a second binding would shadow the first)
        used_bases: set[str] = set()    # base expressions already used by a class of this module
        foreign_cls: dict[str, str] = {}   # base expression -> class name of the foreign class it denotes
        for dname, dmod in deps.items():
            how = rng.random()
            dfuncs = [d["name"] for d in dmod["decls"] if d["k"] == "def" and not d["async"] and not d["deco"]]
            dclasses = [d["name"] for d in dmod["decls"] if d["k"] == "class" and d["kind"] == "plain"]
            if how < 0.6:
                decls.append({"k": "import_module", "mod": dname})
                classes_avail += [f"{dname}.{c}" for c in dclasses if not c.startswith("__")]
                foreign_cls.update({f"{dname}.{c}": c for c in dclasses if not c.startswith("__")})
                funcs_avail += [f"{dname}.{f}" for f in dfuncs if not f.startswith("__")]
            for nm in rng.sample(dfuncs, min(len(dfuncs), rng.randint(0, 2))):
                alias = None if rng.random() < 0.6 else self.fname()
                if (alias or nm) in bound:
                    alias = self.fname()
                bound.add(alias or nm)
                decls.append({"k": "from_import", "mod": dname, "name": nm, "as": alias})
                funcs_avail.append(alias or nm)
            for nm in rng.sample(dclasses, min(len(dclasses), rng.randint(0, 2))):
                alias = None if rng.random() < 0.7 else self.cname()
                if (alias or nm) in bound:     # two dependencies may declare classes of the same name
                    alias = self.cname()
                bound.add(alias or nm)
                decls.append({"k": "from_import", "mod": dname, "name": nm, "as": alias})
                classes_avail.append(alias or nm)
                foreign_cls[alias or nm] = nm
        for _ in range(rng.randint(2, 9)):
            r = rng.random()
            if r < 0.38:
                d = {"k": "def", "name": self.fname(), "async": rng.random() < 0.1,
                     "cached": rng.random() < 0.08, "deco": False}
                if not d["async"] and not d["cached"] and rng.random() < 0.1:
                    d["deco"] = True
                decls.append(d)
                if not d["async"] and not d["cached"] and not d["deco"]:
                    local_funcs.append(d["name"])
                    funcs_avail.append(d["name"])
            elif r < 0.48:
                decls.append({"k": "lambda", "name": self.fname()})
            elif r < 0.53 and (local_funcs or funcs_avail):
                decls.append({"k": "alias", "name": self.fname(), "target": rng.choice(local_funcs or funcs_avail)})
            elif r < 0.57:
                decls.append({"k": "container_lambda", "name": self.fname()})
            elif r < 0.60:
                decls.append({"k": "const", "name": self.fname()})
            else:
                # a class may take the name N of the foreign class it inherits from when N is not bound yet, or
                # when N is bound to that very base and no earlier class used it (`from dep import N; class N(N)`:
                # from then on N denotes the local class)
                same = {e: n for e, n in foreign_cls.items()
                        if e in classes_avail and ((n not in bound) or (e == n and e not in used_bases))}
                free = sorted({n for n in foreign_cls.values() if n not in bound})
                c = self.gen_class(mod, classes_avail + local_classes, funcs_avail, same_name=same, free_names=free)
                decls.append(c)
                bound.add(c["name"])
                used_bases.update(c["bases"])
                if c["name"] in classes_avail:      # `class N(N)` shadowed the imported name
                    classes_avail.remove(c["name"])
                    foreign_cls.pop(c["name"], None)
                if c["kind"] == "plain":
                    local_classes.append(c["name"])
                    for m in c["members"]:
                        if m["k"] == "nested" and rng.random() < 0.5 and not m["name"].startswith("__"):
                            local_classes.append(f"{c['name']}.{m['name']}")
        return {"decls": decls}


def render_module(mod: str, m: dict) -> str:
    o = ["from abc import ABC, abstractmethod", "from enum import Enum",
         "from functools import lru_cache, wraps", "", "",
         "def _c27_deco(f):", "    @wraps(f)", "    def w(*a, **k):", "        return f(*a, **k)", "    return w", ""]
    # `_c27_deco` is a protected module-level function of every generated module (part of the ground truth)

    def render_class(c: dict, ind: str) -> list[str]:
        bases = list(c["bases"])
        if c["kind"] == "abstract":
            bases.append("ABC")
        if c["kind"] == "enum":
            bases.append("Enum")
        out = [f"{ind}class {c['name']}" + (f"({', '.join(bases)})" if bases else "") + ":"]
        body = []
        if c["kind"] == "enum":
            for i in range(c["enum_members"]):
                body.append(f"{ind}    M{i} = {i + 1}")
        elif c["init"]:
            body += [f"{ind}    def __init__(self, v=0):", f"{ind}        self.v = v"]
        for mem in c["members"]:
            k = mem["k"]
            if k == "method":
                if mem["static"]:
                    body.append(f"{ind}    @staticmethod")
                if mem["abstract"]:
                    body.append(f"{ind}    @abstractmethod")
                args = "x=0" if mem["static"] else "self, x=0"
                body += [f"{ind}    {'async ' if mem['async'] else ''}def {mem['name']}({args}):", f"{ind}        return x"]
            elif k == "classmethod":
                body += [f"{ind}    @classmethod", f"{ind}    def {mem['name']}(cls, x=0):", f"{ind}        return x"]
            elif k == "property":
                body += [f"{ind}    @property", f"{ind}    def {mem['name']}(self):", f"{ind}        return 1"]
            elif k == "borrow":
                body.append(f"{ind}    {mem['name']} = {mem['target']}")
            elif k == "nested":
                body += render_class(mem, ind + "    ")
            elif k == "attr":
                if c["kind"] != "enum":
                    body.append(f"{ind}    {mem['name']} = 7")
        if not body:
            body.append(f"{ind}    pass")
        return out + body + [""]

    for d in m["decls"]:
        k = d["k"]
        if k == "import_module":
            o.append(f"import {d['mod']}")
        elif k == "from_import":
            o.append(f"from {d['mod']} import {d['name']}" + (f" as {d['as']}" if d["as"] else ""))
        elif k == "def":
            if d["cached"]:
                o.append("@lru_cache")
            if d["deco"]:
                o.append("@_c27_deco")
            o += [f"{'async ' if d['async'] else ''}def {d['name']}(x=0):", "    return x", ""]
        elif k == "lambda":
            o.append(f"{d['name']} = lambda x=0: x")
        elif k == "alias":
            o.append(f"{d['name']} = {d['target']}")
        elif k == "container_lambda":
            o.append(f"{d['name']} = [lambda x=0: x]")
        elif k == "const":
            o.append(f"{d['name']} = 3")
        elif k == "class":
            o += render_class(d, "")
    return "\n".join(o) + "\n"


def ground_truth(case: dict) -> dict:
    """key -> {"status": demanded|forbidden|optional, "why": ..., "form": ...} from the declarations."""
    root, vis = case["root"], case["vis"]
    ign_mods, ign_meths = set(case["ignore_modules"]), set(case["ignore_methods"])
    gt: dict = {}
    classes: dict[tuple[str, str], dict] = {}   # (module, qualname) -> class decl

    def status(home: str, name: str | None, qualified: str | None, optional: bool, form: str) -> dict:
        if home != root:
            return {"status": "forbidden", "why": "foreign", "form": form}
        if root in ign_mods:
            return {"status": "forbidden", "why": "ignored", "form": form}
        if name is not None and not eligible(vis, name):
            return {"status": "forbidden", "why": "ineligible-name", "form": form}
        if qualified is not None and qualified in ign_meths:
            return {"status": "forbidden", "why": "ignored", "form": form}
        return {"status": "optional" if optional else "demanded", "why": "", "form": form}

    def methods_of(c: dict):
        for mem in c["members"]:
            if mem["k"] in ("method", "classmethod", "property"):
                yield mem

    def add_class(mod: str, c: dict, prefix: str, nested: bool) -> None:
        qual = prefix + c["name"]
        classes[(mod, qual)] = c
        full = f"{mod}.{qual}"
        is_enum = c["kind"] == "enum"
        opt = nested or c["kind"] == "abstract" or (is_enum and c["enum_members"] == 0)
        gt[("enum" if is_enum else "ctor", full)] = status(mod, None, None, opt, "nested-class" if nested else c["kind"])
        gt[("ctor" if is_enum else "enum", full)] = dict(status(mod, None, None, True, c["kind"]))
        for mem in c["members"]:
            k = mem["k"]
            if k in ("method", "classmethod", "property"):
                if mem["name"] == "__init__":
                    continue
                rn = mangle(c["name"], mem["name"])
                opt_m = nested or k != "method" or mem.get("async", False)
                form = ("enum-method" if is_enum and k == "method" and not mem.get("async") else
                        "static-method" if mem.get("static") else "async-method" if mem.get("async") else k)
                gt[("meth", full, rn)] = status(mod, mem["name"], f"{full}.{mem['name']}", opt_m, form)
            elif k == "borrow":
                gt[("meth", full, mem["name"])] = {"borrow": mem["target"], "mod": mod, "form": "borrowed"}
            elif k == "nested":
                add_class(mod, mem, qual + ".", True)

    funcs: dict[tuple[str, str], str] = {}   # (module, expression) -> home module of the function it denotes
    for mod, m in case["modules"].items():
        gt[("func", mod, "_c27_deco")] = status(mod, "_c27_deco", f"{mod}._c27_deco", False, "def")
        gt[("func", mod, "w")] = status(mod, "w", None, True, "closure")
        for d in m["decls"]:
            k = d["k"]
            if k in ("def", "lambda"):
                nm = d["name"]
                opt = (k == "def" and d["async"]) or (k == "def" and nm.startswith(("main", "test")))
                form = "lambda" if k == "lambda" else "async-def" if d["async"] else "cached-def" if d["cached"] \
                    else "decorated-def" if d["deco"] else "def"
                gt[("func", mod, nm)] = status(mod, nm, f"{mod}.{nm}", opt, form)
                if k == "lambda":
                    gt[("func", mod, "<lambda>")] = status(mod, None, None, True, "lambda")
            elif k == "container_lambda":
                gt.setdefault(("func", mod, "<lambda>"), status(mod, None, None, True, "lambda"))
            elif k == "class":
                add_class(mod, d, "", False)
    # borrowed functions: home of the target expression
    for key, v in list(gt.items()):
        if "borrow" in v:
            tgt, mod = v["borrow"], v["mod"]
            home = tgt.split(".")[0] if "." in tgt else None
            if home is None:
                # a local name: a local def, or a from-import (possibly aliased)
                home = mod
                for d in case["modules"][mod]["decls"]:
                    if d["k"] == "from_import" and (d["as"] or d["name"]) == tgt:
                        home = d["mod"]
            gt[key] = status(home, key[2], None, True, "borrowed") if home == root else \
                {"status": "forbidden", "why": "foreign", "form": "borrowed"}
    # inherited members: listed under the subclass they are not "defined" there
    def resolve_base(mod: str, expr: str, own: str):
        """`own`: top-level name of the class whose base list contains `expr` (`class N(N)` names the imported N;
        for every other class of the module a local top-level class N wins: the generator lets nothing use an
        imported N as a base before a local class N is declared)."""
        parts = expr.split(".")
        if parts[0] in case["modules"] and len(parts) > 1:
            return parts[0], ".".join(parts[1:])
        if parts[0] != own and (mod, parts[0]) in classes:
            return mod, expr
        for d in case["modules"][mod]["decls"]:
            if d["k"] == "from_import" and (d["as"] or d["name"]) == parts[0]:
                return d["mod"], ".".join([d["name"]] + parts[1:])
        return mod, expr

    def inherited(mod: str, qual: str, seen: set):
        c = classes.get((mod, qual))
        if c is None or (mod, qual) in seen:
            return
        seen.add((mod, qual))
        for b in c["bases"]:
            bm, bq = resolve_base(mod, b, qual.split(".")[0])
            bc = classes.get((bm, bq))
            if bc is None:
                continue
            for mem in bc["members"]:
                if mem["k"] in ("method", "classmethod", "property", "borrow"):
                    rn = mangle(bc["name"], mem["name"]) if mem["k"] != "borrow" else mem["name"]
                    yield bm, bq, rn
            yield from inherited(bm, bq, seen)

    for (mod, qual) in list(classes):
        full = f"{mod}.{qual}"
        for bm, bq, rn in inherited(mod, qual, set()):
            key = ("meth", full, rn)
            if key in gt:
                continue   # overridden / redeclared in the subclass
            base = gt.get(("meth", f"{bm}.{bq}", rn))
            if mod != root or bm != root or base is None or base["status"] == "forbidden":
                why = "foreign" if (mod != root or bm != root) else (base or {}).get("why", "foreign")
                gt[key] = {"status": "forbidden", "why": why, "form": "inherited"}
            else:
                gt[key] = {"status": "optional", "why": "", "form": "inherited"}
    return gt


# =================================================================================================
# The harness' own `inspect` view of the imported project (input of the Lean model)
# =================================================================================================
def _is_function(v) -> bool:
    return inspect.isfunction(v) or (isinstance(v, functools._lru_cache_wrapper)
                                     and inspect.isfunction(inspect.unwrap(v)))


def _definer(fn):
    """The class OBJECT a function was defined in: what the class part of its `__qualname__` denotes in the
    module it was defined in (an identity, not a name: `class Handler(base.Handler)` and its base share the
    `__qualname__`, the inherited methods still belong to the other class object)."""
    module = inspect.getmodule(fn)
    attr = fn.__qualname__.split(".<locals>", 1)[0].rsplit(".", 1)[0]
    if module is None or not hasattr(module, attr):
        return None
    owner = getattr(module, attr)
    if isinstance(owner, type):
        return owner
    owner = getattr(fn, "__objclass__", None)
    return owner if isinstance(owner, type) else None


def _lambda_name(fn) -> str | None:
    mod = sys.modules.get(fn.__module__)
    try:
        tree = ast.parse(Path(mod.__file__).read_text())
    except Exception:  # noqa: BLE001
        return None
    line = fn.__code__.co_firstlineno
    for node in tree.body:
        if isinstance(node, ast.Assign) and len(node.targets) == 1 and isinstance(node.targets[0], ast.Name) \
                and isinstance(node.value, ast.Lambda) and node.value.lineno == line:
            return node.targets[0].id
    return None


def extract_env(root_mod, generated: set[str]) -> dict:
    cls_ids: dict[int, int] = {}
    cls_out: list[dict] = []
    fn_ids: dict[int, int] = {}

    def class_id(c) -> int:
        if id(c) in cls_ids:
            return cls_ids[id(c)]
        n = cls_ids[id(c)] = len(cls_ids)
        entry = {"id": n}
        cls_out.append(entry)
        meths = []
        for name, fn in inspect.getmembers(c, inspect.isfunction):
            owner = _definer(fn)
            meths.append({"name": name, "qualified": f"{fn.__module__}.{fn.__qualname__}",
                          "definer": class_id(owner) if owner is not None else None,
                          "isCoroutine": inspect.iscoroutinefunction(fn) or inspect.isasyncgenfunction(fn)})
        is_enum = issubclass(c, enum.Enum)
        entry.update({"module": c.__module__, "qualname": c.__qualname__, "isAbstract": inspect.isabstract(c),
                      "isEnum": is_enum, "enumNames": len(list(c)) if is_enum else 0, "methods": meths,
                      "bases": [class_id(getattr(b, "__origin__", b)) for b in c.__bases__]})
        return n

    def func_entry(v) -> dict:
        if id(v) not in fn_ids:
            fn_ids[id(v)] = len(fn_ids)
        is_lambda = getattr(v, "__name__", None) == "<lambda>"
        return {"id": fn_ids[id(v)], "module": v.__module__, "qualname": v.__qualname__,
                "isCoroutine": inspect.iscoroutinefunction(v) or inspect.isasyncgenfunction(v),
                "isLambda": is_lambda, "lambdaName": _lambda_name(v) if is_lambda else None}

    mods = []
    queue, seen = [root_mod], set()
    while queue:
        m = queue.pop(0)
        if m.__name__ in seen:
            continue
        seen.add(m.__name__)
        vals = list(vars(m).values())
        mods.append({"name": m.__name__,
                     "classes": [class_id(v) for v in vals if inspect.isclass(v)],
                     "funcs": [func_entry(v) for v in vals if _is_function(v)],
                     "submodules": [v.__name__ for v in vals if inspect.ismodule(v)]})
        queue += [v for v in vals if inspect.ismodule(v) and v.__name__ in generated]
    return {"classes": cls_out, "modules": mods}


# =================================================================================================
class C27(PropertyCheck):
    prop_id = "C27"
    prop_modules = ["PynguinModel.Props.C27"]
    extra_modules = ["PynguinModel.Generated.C27Visibility", "PynguinModel.Model.ClusterFilter"]
    driver = "Driver/C27.lean"
    n_quick = 100
    n_thorough = 1200
    n_search = 1500
    rule = ("one case = one generated project (module under test + dependencies) analysed under one visibility and one "
            "pair of ignore lists; non-trivial = the project has a forbidden callable (foreign / ineligible / ignored) "
            "AND a demanded one; counted by distinct (visibility, set of (status, reason, form)) classes")
    assumptions = [
        "names are ASCII identifiers (`\\w` of the name-mangling pattern is modelled for ASCII)",
        "'defined in' is what `__module__` / `__qualname__` report (the `inspect` view is an input of the model)",
        "the traversal and the per-member analysis are independent (the analysis never changes work lists / seen sets)",
    ]
    trusted_base_extra = [
        "translator in harness/c27.py (whitelisted AST subset -> Generated/C27Visibility.lean, self-checked against the live predicates)",
        "the harness' inspect-based extraction of classes / functions / bases / getmembers(isfunction)",
    ]

    def __init__(self, tier, seed):
        super().__init__(tier, seed)
        self._tmp: str | None = None
        self._envs: dict[str, dict] = {}
        self._gen_counter = 0

    # -- translator -------------------------------------------------------------------------------
    def translate(self) -> None:
        ir = build_ir()
        text = render(ir)
        if not GEN_PATH.exists() or GEN_PATH.read_text() != text:
            GEN_PATH.parent.mkdir(parents=True, exist_ok=True)
            GEN_PATH.write_text(text)
        self.extra_coverage["generated"] = {
            "pattern": ir["pattern_src"], "prefixes": ir["prefixes"],
            "predicates": {k: v["src"] for k, v in ir["preds"].items()},
            "module_blacklist": len(ir["module_blacklist"]), "method_blacklist": ir["method_blacklist"],
        }
        self.extra_coverage["translator_self_checks"] = self_check(ir)

    # -- generation -------------------------------------------------------------------------------
    def gen_case(self, rng):
        g = Gen(rng)
        modules: dict[str, dict] = {}
        shape = rng.random()
        if shape < 0.15:
            modules[ROOT] = g.gen_module(ROOT, {})
        elif shape < 0.65:
            modules[DEP] = g.gen_module(DEP, {})
            modules[ROOT] = g.gen_module(ROOT, {DEP: modules[DEP]})
        else:
            modules[DEP2] = g.gen_module(DEP2, {})
            modules[DEP] = g.gen_module(DEP, {DEP2: modules[DEP2]})
            deps = {DEP: modules[DEP]}
            if rng.random() < 0.5:
                deps[DEP2] = modules[DEP2]
            modules[ROOT] = g.gen_module(ROOT, deps)
        vis = rng.choice(VISES)
        # ignore lists: qualified names of declared functions / methods of any module, some unrelated ones
        cands = []
        for mod, m in modules.items():
            for d in m["decls"]:
                if d["k"] == "def":   # a lambda has no qualified name of its own (`<lambda>`): not offered
                    cands.append(f"{mod}.{d['name']}")
                elif d["k"] == "class":
                    for mem in d["members"]:
                        if mem["k"] == "method" and mem["name"] != "__init__":
                            cands.append(f"{mod}.{d['name']}.{mem['name']}")
        ign_meths = []
        if cands and rng.random() < 0.6:
            ign_meths = rng.sample(cands, min(len(cands), rng.randint(1, 4)))
        if rng.random() < 0.1:
            ign_meths.append("c27root.nothing_like_this")
        ign_mods = []
        r = rng.random()
        if r < 0.15 and DEP in modules:
            ign_mods.append(DEP)
        elif r < 0.22 and DEP2 in modules:
            ign_mods.append(DEP2)
        elif r < 0.26:
            ign_mods.append(ROOT)
        elif r < 0.30:
            ign_mods.append("c27unrelated")
        return {"root": ROOT, "vis": vis, "ignore_modules": ign_mods, "ignore_methods": ign_meths,
                "modules": modules}

    # -- implementation adapter -------------------------------------------------------------------
    def _workdir(self) -> str:
        if self._tmp is None:
            self._tmp = tempfile.mkdtemp(prefix="c27-sut-")
            sys.path.insert(0, self._tmp)
            import atexit
            atexit.register(shutil.rmtree, self._tmp, True)
            logging.getLogger("pynguin").setLevel(logging.CRITICAL)
            logging.disable(logging.WARNING)
        return self._tmp

    def impl(self, case):
        key = vcommon.jdump(case)
        if key not in self._envs:
            self._envs[key] = self._run_real(case)
        return self._envs[key]["out"]

    def _run_real(self, case):
        import pynguin.configuration as config
        import pynguin.analyses.module as M
        tmp = self._workdir()
        names = list(case["modules"])
        for nm in (ROOT, DEP, DEP2):
            sys.modules.pop(nm, None)
            p = Path(tmp, nm + ".py")
            if p.exists():
                p.unlink()
        for nm in names:
            Path(tmp, nm + ".py").write_text(render_module(nm, case["modules"][nm]))
        importlib.invalidate_caches()
        shutil.rmtree(Path(tmp, "__pycache__"), ignore_errors=True)
        old_cfg = config.configuration
        try:
            try:
                root_mod = importlib.import_module(case["root"])
            except Exception as e:  # a generated project that does not import is a generator bug
                raise RuntimeError(f"generated project does not import: {type(e).__name__}: {e}") from e
            env = extract_env(root_mod, set(names))     # BEFORE the analysis renames lambdas
            config.configuration = config.Configuration(
                project_path=tmp, module_name=case["root"],
                test_case_output=config.TestCaseOutputConfiguration(output_path=tmp),
                algorithm=config.Algorithm.RANDOM)
            config.configuration.element_visibility = config.ElementVisibility[case["vis"]]
            config.configuration.ignore_modules = list(case["ignore_modules"])
            config.configuration.ignore_methods = list(case["ignore_methods"])
            try:
                cluster = M.generate_test_cluster(case["root"])
            except Exception as e:  # noqa: BLE001
                return {"out": {"err": type(e).__name__, "msg": str(e)[:200]}, "env": env}
            items = []
            foreign = []   # methods / functions under test whose function object was defined in another module
            for a in cluster.accessible_objects_under_test:
                if a.is_method() or a.is_function():
                    fn = inspect.unwrap(a.callable) if isinstance(a.callable, functools._lru_cache_wrapper) else a.callable
                    home = getattr(fn, "__module__", None)
                    if home != case["root"]:
                        foreign.append(["meth", a.owner.full_name, a.method_name, str(home), str(getattr(fn, "__qualname__", None))]
                                       if a.is_method() else ["func", str(home), a.function_name, str(home), str(getattr(fn, "__qualname__", None))])
                if a.is_enum():
                    items.append(["enum", a.owner.full_name])
                elif a.is_constructor():
                    items.append(["ctor", a.owner.full_name])
                elif a.is_method():
                    items.append(["meth", a.owner.full_name, a.method_name])
                elif a.is_function():
                    items.append(["func", str(getattr(a.callable, "__module__", None)), a.function_name])
                else:
                    items.append(["other", type(a).__name__])
            return {"out": {"under_test": sorted(items), "foreign_callables": sorted(foreign)}, "env": env}
        finally:
            config.configuration = old_cfg
            for nm in names:
                sys.modules.pop(nm, None)

    # -- model ------------------------------------------------------------------------------------
    def model_line(self, case):
        key = vcommon.jdump(case)
        if key not in self._envs:
            self._envs[key] = self._run_real(case)
        env = self._envs[key].pop("env", None)   # large: kept only until the model line is built
        if env is None:
            env = self._run_real(case)["env"]
        return vcommon.jdump({"root": case["root"], "vis": case["vis"], "ignore_modules": case["ignore_modules"],
                              "ignore_methods": case["ignore_methods"], "fuel": 400,
                              "classes": env["classes"], "modules": env["modules"]})

    def compare(self, case, impl_out, model_out) -> bool:
        if "under_test" not in impl_out or "under_test" not in model_out:
            return False
        return sorted(impl_out["under_test"]) == sorted(model_out["under_test"])

    # -- oracle -----------------------------------------------------------------------------------
    def oracle(self, case, impl_out):
        if "under_test" not in impl_out:
            return [Failure({"class": "analysis-raises", "err": impl_out.get("err")},
                            f"generate_test_cluster raised {impl_out.get('err')}: {impl_out.get('msg')}")]
        gt = ground_truth(case)
        root, vis = case["root"], case["vis"]
        actual = {tuple(x) for x in impl_out["under_test"]}
        fails = []
        for it in sorted(actual):
            g = gt.get(it)
            if g is None:
                owner_mod = it[1] if it[0] == "func" else it[1].split(".")[0]
                cls = "foreign-under-test" if owner_mod != root else "unknown-under-test"
                fails.append(Failure({"class": cls, "kind": it[0], "vis": vis, "form": "undeclared"},
                                     f"{list(it)} is under test but is not a callable declared in {root} "
                                     f"(visibility {vis}, ignore_modules={case['ignore_modules']}, ignore_methods={case['ignore_methods']})"))
            elif g["status"] == "forbidden":
                fails.append(Failure({"class": g["why"] + "-under-test", "kind": it[0], "vis": vis, "form": g["form"]},
                                     f"{list(it)} is under test although it is {g['why']} "
                                     f"(visibility {vis}, ignore_modules={case['ignore_modules']}, ignore_methods={case['ignore_methods']})"))
        # the clause itself, on the objects: the function behind a method / function under test carries the module it
        # was defined in; "nothing defined in another module is marked as under test"
        for it in impl_out.get("foreign_callables", []):
            key = tuple(it[:3])
            if gt.get(key, {}).get("status") == "forbidden":
                continue    # already reported above from the declarations
            fails.append(Failure({"class": "foreign-under-test", "kind": it[0], "vis": vis, "form": "callable-module"},
                                 f"{it[:3]} is under test but its function object {it[3]}.{it[4]} was defined in module "
                                 f"{it[3]}, not in {root} (visibility {vis})"))
        for key, g in sorted(gt.items()):
            if g["status"] == "demanded" and key not in actual:
                sig = {"class": "eligible-missing", "kind": key[0], "vis": vis, "form": g["form"]}
                if g["form"] == "enum-method":
                    sig = {"class": "eligible-missing", "kind": "meth", "form": "enum-method"}   # known finding
                fails.append(Failure(sig,
                                     f"{list(key)} is declared in {root}, eligible under {vis} and not ignored, "
                                     f"but is not under test (ignore_modules={case['ignore_modules']}, ignore_methods={case['ignore_methods']})"))
        return fails

    def classify(self, case, impl_out):
        gt = ground_truth(case)
        kinds = sorted({(g["status"], g.get("why", ""), g.get("form", "")) for g in gt.values()})
        self.count("vis:" + case["vis"])
        self.count("modules:%d" % len(case["modules"]))
        if case["ignore_modules"]:
            self.count("ignore_modules:" + ("root" if ROOT in case["ignore_modules"] else "other"))
        if case["ignore_methods"]:
            self.count("ignore_methods:nonempty")
        for st, why, form in kinds:
            self.count(f"gt:{st}:{why or '-'}:{form}")
        self.count("under_test_items", len(impl_out.get("under_test", [])))
        has_forbidden = any(g["status"] == "forbidden" for g in gt.values())
        has_demanded = any(g["status"] == "demanded" for g in gt.values())
        if not (has_forbidden and has_demanded):
            return None
        return vcommon.jdump([case["vis"], kinds])

    # -- known finding: replayed on the implementation on every run ---------------------------------
    def witnesses(self):
        """Methods of Enum classes are invisible to `inspect.getmembers(cls, isfunction)` (known finding)."""
        p = vcommon.ROOT / "harness" / "corpus" / "C27" / "enum-method-not-listed.json"
        case = vcommon.json.loads(p.read_text())
        fs = [f for f in self.oracle(case, self.impl(case)) if f.signature.get("form") == "enum-method"]
        for f in fs:
            f.case = case
        return fs[:1]


if __name__ == "__main__":
    run_main(C27)
