"""C35 — coverage reports agree with the computed coverage (DESIGN §5 C35).

Correspondence: random registries / suites of traces are turned into REAL `SubjectProperties`,
`ExecutionTrace` objects and a stub suite; the real `get_coverage_report`, `render_xml_coverage_report`
and `render_coverage_report` run on them (source lines come from a temp module file) and the XML / HTML
files are parsed back.  The Lean model (`Driver/C35.lean`) gets the same case.
In addition a few real, tiny pynguin pipeline runs (BRANCH + LINE) are executed in subprocesses with
`get_coverage_report` wrapped; what the real pipeline handed to / got from the report code, the
rendered XML / HTML and statistics.csv become further cases that go through the *same* comparison with
the model and the same property oracle (they are returned by `corpus()`).

Oracle (independent of the Lean model): per-line annotations sum to the totals; totals / XML / HTML
numbers equal `compute_branch_coverage` / `compute_line_coverage` of the merged trace (and the
`Final*Coverage` statistics in real runs); a line is shown covered iff some test covers it.
"""
from __future__ import annotations

import json
import os
import re
import shutil
import subprocess
import sys
import tempfile
from fractions import Fraction
from pathlib import Path

if __name__ == "__main__" and os.environ.get("C35_PIPELINE_OUT"):
    sys.path.insert(0, str(Path(__file__).resolve().parent))

import vcommon
from vcommon import Failure, PropertyCheck, run_main

DIST_TOKENS = ["0.0", "0.0", "0.0", "-0.0", "0.5", "1.0", "2.0", "3.5", "5e-324", "inf", "nan"]
FILE_A, FILE_B = "/sut/a.py", "/sut/b.py"


def frac(x):
    """A float as exact rational [num, den] (or a token)."""
    if x is None:
        return None
    if x != x:
        return "nan"
    if x in (float("inf"), float("-inf")):
        return "inf" if x > 0 else "-inf"
    f = Fraction(x)
    return [f.numerator, f.denominator]


# ---------------------------------------------------------------------------------------------
# Observation of the real objects (used in-process for synthetic cases and inside the pipeline
# subprocess for real runs)
# ---------------------------------------------------------------------------------------------
def report_obs(report):
    def ce(c):
        return [c.covered, c.existing]
    return {
        "bc": frac(report.branch_coverage), "lc": frac(report.line_coverage),
        "branches": ce(report.branches), "branchless": ce(report.branchless_code_objects),
        "lines": ce(report.lines),
        "anns": [[a.line_no, ce(a.total), ce(a.branches), ce(a.branchless_code_objects), ce(a.lines)]
                 for a in report.line_annotations],
    }


def parse_xml(path):
    import xml.etree.ElementTree as ET
    root = ET.parse(path).getroot()
    at = root.attrib
    totals = [at["line-rate"], at["branch-rate"], int(at["lines-covered"]), int(at["lines-valid"]),
              int(at["branches-covered"]), int(at["branches-valid"])]
    lines = []
    for ln in root.iter("line"):
        cc = ln.attrib.get("condition-coverage")
        cond = None
        if cc is not None:
            m = re.search(r"\((\d+)/(\d+)\)", cc)
            cond = [int(m.group(1)), int(m.group(2))]
        lines.append([int(ln.attrib["number"]), int(ln.attrib["hits"]), ln.attrib["branch"] == "true", cond])
    rates = sorted({e.attrib["line-rate"] + "|" + e.attrib["branch-rate"]
                    for e in list(root.iter("package")) + list(root.iter("class"))})
    return totals, lines, rates


def parse_html(path):
    text = Path(path).read_text(encoding="utf-8")
    spans = [[m.group(1), m.group(2)] for m in
             re.finditer(r'<span class="(notRelevant|notCovered|partiallyCovered|fullyCovered)"'
                         r'(?: title="([^"]*)")?>\d+</span>', text)]
    head = {}
    m = re.search(r"Achieved ([\d.]+%) branch coverage:\s*(\d+)/(\d+) branchless code objects covered\.\s*"
                  r"(\d+)/(\d+) branches covered\.", text)
    if m:
        head["branch"] = [int(m.group(i)) for i in range(2, 6)]
    m = re.search(r"Achieved ([\d.]+%) line coverage:\s*(\d+)/(\d+) lines covered\.", text)
    if m:
        head["line"] = [int(m.group(2)), int(m.group(3))]
    return spans, head


def facts_of(sp, traces, nsrc):
    """Registry / trace facts of the real objects, and the real compute_* values."""
    import pynguin.ga.computations as ff

    class _R:
        def __init__(self, t):
            self.execution_trace = t
    merged = ff.analyze_results([_R(t) for t in traces])
    valid = True
    for t in traces:
        try:
            sp.validate_execution_trace(t)
        except AssertionError:
            valid = False
        if not (set(t.true_distances) | set(t.false_distances)) <= set(sp.existing_predicates):
            valid = False

    def guarded(f):
        try:
            return frac(f(merged, sp))
        except AssertionError:
            return {"err": "AssertionError"}
    return {
        "nsrc": nsrc,
        "rlines": [[k, v.file_name, v.line_number] for k, v in sp.existing_lines.items()],
        "rpreds": [[k, v.line_no, v.code_object_id] for k, v in sp.existing_predicates.items()],
        "rcos": [[k, v.code_object.co_firstlineno] for k, v in sp.existing_code_objects.items()],
        "rbranchless": list(sp.branch_less_code_objects),
        "traces": [{"exec": list(t.executed_code_objects),
                    "td": [[k, frac(v)] for k, v in t.true_distances.items()],
                    "fd": [[k, frac(v)] for k, v in t.false_distances.items()],
                    "cov": list(t.covered_line_ids)} for t in traces],
        "valid": valid,
        "cbc": guarded(ff.compute_branch_coverage),
        "clc": guarded(ff.compute_line_coverage),
    }


# ---------------------------------------------------------------------------------------------
# Pipeline subprocess mode: `C35_PIPELINE_OUT=<json> python c35.py <pynguin args…>`
# ---------------------------------------------------------------------------------------------
def pipeline_runner():
    vcommon.use_repo_sources()
    out = os.environ["C35_PIPELINE_OUT"]
    import pynguin.generator as gen
    orig = gen.get_coverage_report
    captured = []

    def patched(suite, sp, metrics):
        rep = orig(suite, sp, metrics)
        traces = [c.get_last_execution_result().execution_trace for c in suite.test_case_chromosomes]
        d = facts_of(sp, traces, len(rep.source))
        d.update(report_obs(rep))
        d["metrics"] = sorted(m.name for m in metrics)
        captured.append(d)
        return rep
    gen.get_coverage_report = patched
    import pynguin.cli as cli
    rc = cli.main(["pynguin", *sys.argv[1:]])
    Path(out).write_text(json.dumps({"rc": int(rc), "captured": captured}))
    sys.exit(0)


SUTS = {
    "branches": '''"""Doc."""


def classify(x: int, y: int) -> str:
    if x > y:
        return "gt"
    elif x == y:
        return "eq"
    return "lt"


class Box:
    def __init__(self, v: int):
        self.v = v

    def get(self) -> int:
        return self.v
''',
    "genexpr": '''def total(xs: list[int]) -> int:
    g = (j * 2 for j in xs)
    s = 0
    for v in g:
        s += v
    return s
''',
    "tryloop": '''def safe_div(a: bool, b: bool) -> float:
    try:
        r = int(a) / int(b)
    except ZeroDivisionError as exc:
        return -1.0
    finally:
        a = False
    return r


def count(flag: bool) -> int:
    i = 0
    for k in (1, 2, 3):
        if flag and k == 2:
            break
        i += k
    else:
        i -= 1
    return i
''',
    "lambdas": '''def pick(flag: bool, x: int) -> int:
    f = (lambda v: v + 1) if flag else (lambda v: v - 1)
    return f(x)


def nested(x: int) -> int:
    def inner(y: int) -> int:
        return y * 2 if y > 3 else y
    return inner(x) + [k for k in range(3)][0]
''',
    "straight": '''X = 3


def ident(x: int) -> int:
    return x


def add(a: int, b: int) -> int:
    c = a + b
    return c
''',
    "withmatch": '''import contextlib


def kind(x: int) -> str:
    with contextlib.suppress(ValueError):
        if x < 0:
            raise ValueError
        match x:
            case 0:
                return "zero"
            case 1 | 2:
                return "small"
            case _:
                return "big"
    return "neg"
''',
    "dictcomp": '''def squares(n: int) -> dict[int, int]:
    return {i: i * i for i in range(n) if i % 2 == 0}


def first(xs: list[int]) -> int:
    assert xs, "empty"
    return sorted(xs)[0]
''',
    "classy": '''class Acc:
    total: int = 0

    def add(self, x: int) -> "Acc":
        if x:
            self.total += x
        return self

    @staticmethod
    def zero() -> int:
        return 0

    @property
    def value(self) -> int:
        return self.total
''',
}


class C35(PropertyCheck):
    prop_id = "C35"
    prop_modules = ["PynguinModel.Props.C35"]
    extra_modules = ["PynguinModel.Model.Report"]
    driver = "Driver/C35.lean"
    n_quick = 1000
    n_thorough = 30000
    n_search = 6000
    n_runs_quick = 4
    n_runs_thorough = 32
    rule = ("random registries (0-5 code objects, 0-5 predicates, 0-8 lines registered through the real "
            "register_line and/or raw dicts, 1-2 files, line numbers inside/outside the source, None) and "
            "suites of 0-4 traces, metric subsets of {BRANCH, LINE}; plus real pipeline runs; non-trivial "
            "= a report was produced with at least one existing goal and one trace")
    assumptions = [
        "the report is computed for a single instrumented module (pynguin instruments only the module under test)",
        "floats: coverage values are compared exactly as rationals of the IEEE doubles (int/int division is correctly rounded)",
        "real-run cases: what the pipeline passed to get_coverage_report is observed by wrapping that function in the subprocess",
    ]
    trusted_base_extra = ["xml.etree / regex parsing of the rendered XML and HTML reports in the harness"]

    def __init__(self, tier, seed):
        super().__init__(tier, seed)
        self._tmp = None
        self._mods = {}
        self._real_cases = None
        self.real_runs = 0

    # -- scratch -------------------------------------------------------------------------------
    def _scratch(self) -> Path:
        if self._tmp is None:
            self._tmp = Path(tempfile.mkdtemp(prefix="c35-"))
            import atexit
            atexit.register(shutil.rmtree, str(self._tmp), True)
        return self._tmp

    def _module_for(self, nsrc: int) -> str:
        """A real imported module whose source file has exactly `nsrc` lines."""
        if nsrc not in self._mods:
            import importlib.util
            name = f"c35src_{os.getpid()}_{nsrc}"
            path = self._scratch() / f"{name}.py"
            path.write_text("".join(f"x{i} = {i}\n" for i in range(nsrc)))
            spec = importlib.util.spec_from_file_location(name, path)
            mod = importlib.util.module_from_spec(spec)
            spec.loader.exec_module(mod)
            sys.modules[name] = mod
            self._mods[nsrc] = name
        return self._mods[nsrc]

    # -- generation ----------------------------------------------------------------------------
    def gen_case(self, rng):
        wild = rng.random() < 0.3
        nsrc = rng.choice([0, 1, 2]) if rng.random() < 0.06 else rng.randint(3, 12)

        def lineno(allow_none=False):
            r = rng.random()
            if allow_none and r < (0.12 if not wild else 0.2):
                return None
            if wild and r < 0.45:
                return rng.choice([0, -1, nsrc + 1, nsrc + 3, nsrc + 1])
            return rng.randint(1, max(nsrc, 1))
        ncos = rng.randint(0, 5)
        co_ids = list(range(ncos))
        rng.shuffle(co_ids)
        if wild and co_ids and rng.random() < 0.3:
            co_ids = [c + rng.randint(0, 3) * 10 for c in co_ids]
            co_ids = list(dict.fromkeys(co_ids))
        cos = [{"id": c, "first": max(1, lineno()) if rng.random() < 0.9 else 1} for c in co_ids]  # CPython: > 0
        npreds = rng.randint(0, 5) if co_ids or wild else 0
        preds = []
        for p in range(npreds):
            co = rng.choice(co_ids) if co_ids and rng.random() < 0.95 else 77
            preds.append({"id": p, "line": lineno(allow_none=wild), "co": co})
        files = [FILE_A, FILE_B] if wild and rng.random() < 0.6 else [FILE_A]
        lines, regs = [], []
        if wild and rng.random() < 0.5:
            ids = rng.sample(range(0, 12), rng.randint(0, 6))
            for i in ids:
                lines.append({"id": i, "co": rng.randint(0, 5), "file": rng.choice(files),
                              "line": lineno(allow_none=True)})
        for _ in range(rng.randint(0, 8)):
            regs.append({"co": rng.randint(0, 5), "file": rng.choice(files), "line": lineno(allow_none=True)})
        # ids that exist after registration (upper bound: raw ids + 0..len(regs)); pick mostly valid ones
        known_ids = sorted({l["id"] for l in lines} | set(range(len({(r["file"], r["line"]) for r in regs}))))
        pred_ids = [p["id"] for p in preds]
        traces = []
        for _ in range(rng.choice([0, 1, 1, 2, 2, 3, 4])):
            ex = [c for c in co_ids if rng.random() < 0.5]
            rng.shuffle(ex)
            if wild and rng.random() < 0.15:
                ex.append(99)
            keys = [p for p in pred_ids if rng.random() < 0.6]
            rng.shuffle(keys)
            if wild and rng.random() < 0.2:
                keys.append(rng.choice([55, 56]))
            td = [{"k": k, "v": rng.choice(DIST_TOKENS)} for k in keys]
            if wild and rng.random() < 0.2:
                keys = [k for k in keys if rng.random() < 0.7]
            fd = [{"k": k, "v": rng.choice(DIST_TOKENS)} for k in keys]
            cov = [i for i in known_ids if rng.random() < 0.5]
            rng.shuffle(cov)
            if wild and rng.random() < 0.12:
                cov.append(40)
            traces.append({"exec": ex, "td": td, "fd": fd, "cov": cov})
        m = rng.choice([(True, True)] * 5 + [(True, False), (False, True), (False, False)])
        return {"nsrc": nsrc, "branch": m[0], "line": m[1], "cos": cos, "preds": preds, "lines": lines,
                "regs": regs, "traces": traces, "wild": wild}

    # -- the real thing --------------------------------------------------------------------------
    def impl(self, case):
        if "real_obs" in case:
            return case["real_obs"]
        import datetime
        import pynguin.configuration as config
        import pynguin.utils.report as rep
        from pynguin.instrumentation import tracer as tr
        from pynguin.utils.orderedset import OrderedSet

        self.count("mode:" + ("wild" if case.get("wild") else "realistic"))
        self.count(f"metrics:{'B' if case['branch'] else ''}{'L' if case['line'] else ''}")
        self.count(f"traces:{len(case['traces'])}")
        sp = tr.SubjectProperties()
        base = (lambda: None).__code__
        for c in case["cos"]:
            sp.existing_code_objects[c["id"]] = tr.CodeObjectMetaData(
                code_object=base.replace(co_firstlineno=c["first"]), parent_code_object_id=None,
                cfg=None, cdg=None)
        for p in case["preds"]:
            sp.existing_predicates[p["id"]] = tr.PredicateMetaData(line_no=p["line"], code_object_id=p["co"],
                                                                   node=None)
        for l in case["lines"]:
            sp.existing_lines[l["id"]] = tr.LineMetaData(code_object_id=l["co"], file_name=l["file"],
                                                         line_number=l["line"])
        reg_ids = [sp.register_line(tr.LineMetaData(code_object_id=r["co"], file_name=r["file"],
                                                    line_number=r["line"])) for r in case["regs"]]
        traces = []
        for t in case["traces"]:
            traces.append(tr.ExecutionTrace(
                executed_code_objects=OrderedSet(t["exec"]),
                true_distances={e["k"]: float(e["v"]) for e in t["td"]},
                false_distances={e["k"]: float(e["v"]) for e in t["fd"]},
                covered_line_ids=OrderedSet(t["cov"])))

        class _Res:
            def __init__(self, t):
                self.execution_trace = t

        class _Chrom:
            def __init__(self, t):
                self._r = _Res(t)

            def get_last_execution_result(self):
                return self._r

        class _Suite:
            test_case_chromosomes = [_Chrom(t) for t in traces]

        metrics = set()
        if case["branch"]:
            metrics.add(config.CoverageMetric.BRANCH)
        if case["line"]:
            metrics.add(config.CoverageMetric.LINE)
        config.configuration.module_name = self._module_for(case["nsrc"])
        out = facts_of(sp, traces, case["nsrc"])
        out["reg_ids"] = reg_ids
        out["metrics"] = sorted(m.name for m in metrics)
        try:
            report = rep.get_coverage_report(_Suite(), sp, metrics)
        except (KeyError, AssertionError, RuntimeError) as e:
            out["err"] = type(e).__name__
            self.count("outcome:" + out["err"])
            return out
        self.count("outcome:report")
        assert len(report.source) == case["nsrc"]
        out.update(report_obs(report))
        d = self._scratch()
        ts = datetime.datetime(2024, 1, 1)
        rep.render_xml_coverage_report(report, d / "r.xml", ts)
        out["xml_totals"], out["xml_lines"], out["xml_rates"] = parse_xml(d / "r.xml")
        # HTML rendering (jinja + pygments) is the slow part: every 3rd case and every corpus case
        self._html_n = getattr(self, "_html_n", 0) + 1
        if self._html_n % 3 == 0 or case.get("html"):
            rep.render_coverage_report(report, d / "r.html", ts)
            out["html"], out["html_head"] = parse_html(d / "r.html")
        return out

    # -- model side ------------------------------------------------------------------------------
    @staticmethod
    def _dist_json(v):
        if isinstance(v, str):
            f = float(v)
            v = frac(f)
        if isinstance(v, str):
            return v
        return [v[0], v[1]]

    def model_line(self, case):
        c = {k: case[k] for k in ("nsrc", "branch", "line", "cos", "preds", "lines", "regs")}
        c["traces"] = [{"exec": t["exec"], "cov": t["cov"],
                        "td": [{"k": e["k"], "v": self._dist_json(e["v"])} for e in t["td"]],
                        "fd": [{"k": e["k"], "v": self._dist_json(e["v"])} for e in t["fd"]]}
                       for t in case["traces"]]
        for t in c["traces"]:
            for e in t["td"] + t["fd"]:
                if e["v"] == "-inf":
                    return None  # negative infinity is not a distance the model represents
        return vcommon.jdump(c)

    @staticmethod
    def _rate_str(q):
        return "None" if q is None else repr(float(Fraction(q[0], q[1])))

    def compare(self, case, io, mo):
        if "bad-op" in mo or "unparsable" in mo:
            return False
        if "reg_ids" in io and mo.get("reg_ids") != io["reg_ids"]:
            return False
        if [[a, b, c] for a, b, c in io["rlines"]] != mo.get("reg_lines"):
            return False
        if "err" in io or "err" in mo:
            return io.get("err") == mo.get("err")

        def fl(q):
            return None if q is None else frac(float(Fraction(q[0], q[1])))
        ok = (fl(mo["bc"]) == io["bc"] and fl(mo["lc"]) == io["lc"]
              and all(mo[k] == io[k] for k in ("branches", "branchless", "lines", "anns")))
        if "xml_totals" in io:
            mt = mo["xml_totals"]
            ok = ok and [self._rate_str(mt[0]), self._rate_str(mt[1]), *mt[2:]] == io["xml_totals"]
            ok = ok and mo["xml_lines"] == io["xml_lines"]
        if "html" in io:
            ok = ok and mo["html"] == io["html"]
        return ok

    # -- the property on the implementation's behaviour ------------------------------------------
    def oracle(self, case, io):
        fs = []
        if "err" in io:
            return fs
        nsrc = io["nsrc"]
        metrics = set(io["metrics"])
        anns = io["anns"]
        lines = io["rlines"]                     # [id, file, lineno]
        lineno_of = {i: n for i, _, n in lines}
        preds = io["rpreds"]
        co_first = dict(io["rcos"])

        def in_range(n):
            return isinstance(n, int) and 1 <= n <= nsrc

        # ---- P1: per-line annotations sum to the totals
        part_lines = {
            "branches": [n for _, n, _ in preds],
            "branchless": [co_first[c] for c in io["rbranchless"]],
            "lines": [n for _, _, n in lines],
        }
        idx = {"branches": 2, "branchless": 3, "lines": 4}
        for part, nums in part_lines.items():
            tot = io[part]
            s = [sum(a[idx[part]][0] for a in anns), sum(a[idx[part]][1] for a in anns)]
            if s == tot:
                continue
            # Synthetic registries may hold line numbers no instrumented module produces (outside the
            # source; None for a predicate: CPython 3.12 emits no line-less conditional jumps, only
            # line-less cleanup instructions, which reach the *line* registry).  Real runs are never
            # excused.
            # Since /repo commit bc886c7 (fix for C02) line-less instructions no longer reach the line
            # registry either, so a `None` line number is not producible in any part.
            unreachable = any(n is None or not in_range(n) for n in nums)
            if unreachable and "real_obs" not in case:
                self.count("oracle-skip:line-number-not-producible")
                continue
            cause = "line-number-None" if any(n is None for n in nums) else "other"
            fs.append(Failure({"class": "annotation-sum", "part": part, "cause": cause},
                              f"per-line {part} annotations sum to {s}, report total is {tot}",
                              detail={"sum": s, "total": tot, "line_numbers": nums}))
        for a in anns:
            if a[1] != [a[2][0] + a[3][0] + a[4][0], a[2][1] + a[3][1] + a[4][1]]:
                fs.append(Failure({"class": "annotation-total"}, f"line {a[0]}: total {a[1]} is not the "
                                  f"sum of its parts", detail=a))
                break
        if [a[0] for a in anns] != list(range(1, nsrc + 1)):
            fs.append(Failure({"class": "annotation-lines"}, "annotations are not exactly lines 1..n"))

        # ---- P2: totals equal the computed coverage
        single_file = len({f for _, f, _ in lines}) <= 1
        injective = len({n for _, _, n in lines}) == len(lines)
        # registries filled by register_line only (real runs; synthetic cases without raw entries)
        built_by_register_line = "real_obs" in case or not case["lines"]
        if single_file and not injective and built_by_register_line:
            fs.append(Failure({"class": "line-numbers-not-injective-in-one-file"},
                              "two line ids of one file share a line number", detail=lines))

        def ratio(c, e):
            return frac(1.0 if e == 0 else c / e)
        if io["valid"]:
            if "BRANCH" in metrics:
                c = io["branches"][0] + io["branchless"][0]
                e = io["branches"][1] + io["branchless"][1]
                if not (io["bc"] == io["cbc"] == ratio(c, e)):
                    fs.append(Failure({"class": "branch-totals-vs-computed"},
                                      f"report branch coverage {io['bc']}, totals {c}/{e}, "
                                      f"compute_branch_coverage {io['cbc']}"))
                if "xml_totals" in io and (io["xml_totals"][4:6] != [c, e]
                                           or frac(float(io["xml_totals"][1])) != io["cbc"]):
                    fs.append(Failure({"class": "xml-branch-totals"}, f"XML {io['xml_totals']} vs "
                                      f"{c}/{e} and {io['cbc']}"))
                if "html_head" in io and io["html_head"].get("branch") != [*io["branchless"], *io["branches"]]:
                    fs.append(Failure({"class": "html-branch-totals"}, f"HTML {io['html_head']}"))
            if "LINE" in metrics and injective:
                c, e = io["lines"]
                if not (io["lc"] == io["clc"] == ratio(c, e)):
                    fs.append(Failure({"class": "line-totals-vs-computed"},
                                      f"report line coverage {io['lc']}, totals {c}/{e}, "
                                      f"compute_line_coverage {io['clc']}"))
                if "xml_totals" in io and (io["xml_totals"][2:4] != [c, e]
                                           or frac(float(io["xml_totals"][0])) != io["clc"]):
                    fs.append(Failure({"class": "xml-line-totals"}, f"XML {io['xml_totals']} vs "
                                      f"{c}/{e} and {io['clc']}"))
                if "html_head" in io and io["html_head"].get("line") != [c, e]:
                    fs.append(Failure({"class": "html-line-totals"}, f"HTML {io['html_head']}"))
            if "xml_rates" in io and len(io["xml_rates"]) == 1 and \
                    io["xml_rates"][0] != io["xml_totals"][0] + "|" + io["xml_totals"][1]:
                fs.append(Failure({"class": "xml-inner-rates"}, "package/class rates differ from the totals"))
        else:
            self.count("oracle-skip:trace-not-valid-for-registry")
        st = io.get("stats")
        if st:
            for key, mine in (("FinalBranchCoverage", io["bc"]), ("FinalLineCoverage", io["lc"])):
                if key in st and mine is not None and frac(float(st[key])) != mine:
                    fs.append(Failure({"class": "statistics-vs-report", "variable": key},
                                      f"statistics.csv {key}={st[key]} but the report says {mine}"))

        # ---- P3: a line is shown covered iff some test covers it
        if "LINE" in metrics:
            covered_nums = {lineno_of[i] for t in io["traces"] for i in t["cov"] if i in lineno_of}
            existing_nums = set(lineno_of.values())
            xml_by_no = {x[0]: x for x in io.get("xml_lines", [])}
            for k, a in enumerate(anns):
                n = a[0]
                want = [1 if n in covered_nums else 0, 1 if n in existing_nums else 0]
                if a[4] != want:
                    fs.append(Failure({"class": "line-shown-covered"}, f"line {n}: annotation {a[4]}, "
                                      f"suite covers/registers it: {want}"))
                    break
                if "html" in io:
                    title = io["html"][k][1] or ""
                    shown = f"Line {n} covered" in title
                    shown_not = f"Line {n} not covered" in title
                    if shown != (want == [1, 1]) or shown_not != (want == [0, 1]):
                        fs.append(Failure({"class": "html-line-message"}, f"line {n}: title {title!r}, "
                                          f"expected covered={want}"))
                        break
                if "xml_lines" in io:
                    x = xml_by_no.get(n)
                    branch_hit = (a[2][0] + a[3][0]) > 0
                    exp_hits = 1 if (want == [1, 1] or branch_hit) else 0
                    if (x is None) != (a[1][1] == 0) or (x is not None and x[1] != exp_hits):
                        fs.append(Failure({"class": "xml-hits"}, f"line {n}: XML {x}, expected hits={exp_hits}"))
                        break
        return fs

    def classify(self, case, io):
        if "err" in io or not io.get("traces"):
            return None
        if io["branches"][1] + io["branchless"][1] + io["lines"][1] == 0:
            return None
        c = {k: v for k, v in case.items() if k != "real_obs"}
        return vcommon.jdump(c) if "real_obs" not in case else vcommon.jdump([io["rlines"], io["traces"], io["anns"]])

    # -- real pipeline runs (returned as corpus cases, so they meet the model and the oracle) -----
    def _run_pipelines(self):
        n = self.n_runs_quick if self.tier == "quick" else self.n_runs_thorough
        n = int(os.environ.get("VERIF_RUNS", n))
        rng = __import__("random").Random(self.seed * 7919 + 35)
        names = sorted(SUTS)
        plan = []
        for i in range(n):
            # the genexpr module (None line number, known finding) is part of every run
            others = [x for x in names if x != "genexpr"]
            name = "genexpr" if i == 0 else others[(self.seed * 3 + i - 1) % len(others)] if i <= len(others) \
                else rng.choice(names)
            algo = ["WHOLE_SUITE", "MOSA", "RANDOM", "MIO"][(self.seed + i) % 4]
            plan.append((i, name, algo, rng.randint(1, 10 ** 6), rng.choice([2, 3, 5])))
        root = self._scratch() / "runs"
        procs = []
        env = dict(os.environ)
        env.setdefault("PYTHONHASHSEED", "0")
        for i, name, algo, seed, iters in plan:
            d = root / f"r{i}"
            (d / "sut").mkdir(parents=True)
            (d / "sut" / f"sut_{name}.py").write_text(SUTS[name])
            out = d / "obs.json"
            args = ["--project-path", str(d / "sut"), "--module-name", f"sut_{name}",
                    "--output-path", str(d / "tests"), "--report-dir", str(d / "rep"),
                    "--create-coverage-report", "True", "--coverage-metrics", "BRANCH", "LINE",
                    "--algorithm", algo, "--maximum-iterations", str(iters), "--seed", str(seed),
                    "--use-master-worker", "False", "--statistics-backend", "CSV",
                    "--output-variables", "TargetModule,Coverage,FinalBranchCoverage,FinalLineCoverage"]
            e = dict(env, C35_PIPELINE_OUT=str(out))
            with (d / "log.txt").open("w") as log:
                procs.append((i, name, algo, seed, iters, d, out, subprocess.Popen(
                    [vcommon.PY, str(Path(__file__).resolve()), *args], env=e, cwd=str(d),
                    stdout=log, stderr=subprocess.STDOUT)))
            if len(procs) % 4 == 0:
                for p in procs[-4:]:
                    p[-1].wait(timeout=600)
        cases = []
        for i, name, algo, seed, iters, d, out, p in procs:
            try:
                p.wait(timeout=600)
            except subprocess.TimeoutExpired:
                p.kill()
                raise RuntimeError(f"pipeline run {name}/{algo} timed out")
            if not out.exists():
                err = (d / "log.txt").read_text()
                raise RuntimeError(f"pipeline run {name}/{algo}/seed {seed} produced no observation: {err[-800:]}")
            got = json.loads(out.read_text())
            self.count(f"real-run:{name}:{algo}:rc{got['rc']}")
            if not got["captured"]:
                self.notes.append(f"run {name}/{algo}: get_coverage_report not reached (rc {got['rc']})")
                continue
            obs = got["captured"][-1]
            if (d / "rep" / "cov_report.xml").exists():
                obs["xml_totals"], obs["xml_lines"], obs["xml_rates"] = parse_xml(d / "rep" / "cov_report.xml")
                obs["html"], obs["html_head"] = parse_html(d / "rep" / "cov_report.html")
            else:
                raise RuntimeError(f"pipeline run {name}/{algo}: report files missing")
            st = d / "rep" / "statistics.csv"
            if st.exists():
                import csv
                rows = list(csv.DictReader(st.open()))
                if rows:
                    obs["stats"] = rows[-1]
            # the files of one module: report keys line numbers only, the model needs the registry
            case = {"nsrc": obs["nsrc"], "branch": "BRANCH" in obs["metrics"], "line": "LINE" in obs["metrics"],
                    "cos": [{"id": k, "first": f} for k, f in obs["rcos"]],
                    "preds": [{"id": k, "line": n, "co": c} for k, n, c in obs["rpreds"]],
                    "lines": [{"id": k, "co": 0, "file": "sut.py", "line": n} for k, f, n in obs["rlines"]],
                    "regs": [],
                    "traces": [{"exec": t["exec"], "cov": t["cov"],
                                "td": [{"k": k, "v": v} for k, v in t["td"]],
                                "fd": [{"k": k, "v": v} for k, v in t["fd"]]} for t in obs["traces"]],
                    "run": {"sut": name, "algorithm": algo, "seed": seed, "iterations": iters}}
            # keep the real file names out of the comparison (temp paths); one module = one file
            files = {f for _, f, _ in obs["rlines"]}
            self.count(f"real-run-files:{len(files)}")
            obs["rlines"] = [[k, "sut.py" if len(files) <= 1 else f, n] for k, f, n in obs["rlines"]]
            if len(files) > 1:
                case["lines"] = [{"id": k, "co": 0, "file": f, "line": n} for k, f, n in obs["rlines"]]
            case["real_obs"] = obs
            cases.append(case)
            self.real_runs += 1
        return cases

    def corpus(self):
        out = super().corpus()
        for c in out:
            c.setdefault("html", True)
        if self._real_cases is None:
            self._real_cases = self._run_pipelines()
        return out + self._real_cases

    def extra_checks(self):
        self.extra_coverage["real_pipeline_runs_checked"] = self.real_runs
        want = self.n_runs_quick if self.tier == "quick" else self.n_runs_thorough
        if self.real_runs < max(1, int(os.environ.get("VERIF_RUNS", want)) // 2):
            raise RuntimeError(f"only {self.real_runs} real pipeline runs produced a coverage report")
        return []

    def witnesses(self):
        """No recorded finding is left to replay: the `None` line goal (former known finding) can no longer
        be registered by the instrumentation (fixed by /repo commit bc886c7); the genexpr module is still
        part of every real pipeline run, where nothing is excused."""
        return []


if __name__ == "__main__":
    if os.environ.get("C35_PIPELINE_OUT"):
        pipeline_runner()
    else:
        run_main(C35)
