"""Random, terminating, deterministic Python program generator shared by the CFG / instrumentation
checks (C01, C02, C03, C06, C07, C08).  Everything derives from the `random.Random` passed in.

Generated functions take int parameters `a, b, c`, use int locals, always terminate (loops are
bounded), and exercise: if/elif/else, while (+break/continue/else), for over range / list (+else),
try/except/else/finally (ZeroDivisionError / KeyError / ValueError raised on purpose), with, match,
boolean operators, chained comparisons, `is None` checks, comprehensions, generator expressions,
nested functions / closures / lambdas, early returns, classes with methods.
"""
from __future__ import annotations

import random

PARAMS = ["a", "b", "c"]


class Gen:
    def __init__(self, rng: random.Random, features: set[str] | None = None):
        self.rng = rng
        self.features = features  # None = all
        self.tmp = 0

    def on(self, f: str) -> bool:
        return self.features is None or f in self.features

    # ---- expressions ----
    def atom(self, vars_):
        r = self.rng
        if r.random() < 0.6:
            return r.choice(vars_)
        return str(r.randint(-3, 7))

    def arith(self, vars_, depth=0):
        r = self.rng
        if depth > 1 or r.random() < 0.4:
            return self.atom(vars_)
        op = r.choice(["+", "-", "*", "%"])
        lhs, rhs = self.arith(vars_, depth + 1), self.arith(vars_, depth + 1)
        if op == "%":
            return f"({lhs} % {r.randint(2, 5)})"
        return f"({lhs} {op} {rhs})"

    def cond(self, vars_, depth=0):
        r = self.rng
        k = r.random()
        if depth < 2 and k < 0.2 and self.on("boolop"):
            return f"({self.cond(vars_, depth + 1)} {r.choice(['and', 'or'])} {self.cond(vars_, depth + 1)})"
        if depth < 2 and k < 0.27 and self.on("boolop"):
            return f"(not {self.cond(vars_, depth + 1)})"
        if k < 0.37 and self.on("chain"):
            return f"({self.atom(vars_)} {r.choice(['<', '<='])} {self.arith(vars_)} {r.choice(['<', '<=', '!='])} {self.atom(vars_)})"
        if k < 0.45 and self.on("none"):
            return f"(({r.choice(vars_)} if {r.choice(vars_)} > 1 else None) is {r.choice(['', 'not '])}None)"
        if k < 0.52 and self.on("in"):
            return f"({self.atom(vars_)} {r.choice(['in', 'not in'])} ({self.atom(vars_)}, {self.atom(vars_)}, 2))"
        if k < 0.58:
            return f"{r.choice(vars_)}"
        return f"({self.arith(vars_)} {r.choice(['<', '<=', '>', '>=', '==', '!='])} {self.arith(vars_)})"

    # ---- statements ----
    def block(self, vars_, depth, in_loop, in_func=True, n=None):
        r = self.rng
        out = []
        for _ in range(n if n is not None else r.randint(1, 3)):
            out += self.stmt(vars_, depth, in_loop, in_func)
        return out or ["pass"]

    def stmt(self, vars_, depth, in_loop, in_func):
        r = self.rng
        kinds = ["assign", "assign", "aug"]
        if depth < 3:
            kinds += ["if", "if", "ifelse", "elif"]
            if self.on("while"):
                kinds += ["while"]
            if self.on("for"):
                kinds += ["for", "forlist"]
            if self.on("try"):
                kinds += ["try", "tryfinally"]
            if self.on("with"):
                kinds += ["with"]
            if self.on("match"):
                kinds += ["match"]
            if self.on("comp"):
                kinds += ["comp", "genexp"]
            if self.on("closure") and in_func:
                kinds += ["closure", "lambda"]
        if in_loop:
            kinds += ["break", "continue"]
        if in_func and depth > 0:
            kinds += ["return"]
        k = r.choice(kinds)
        ind = lambda ls: ["    " + l for l in ls]  # noqa: E731
        v = r.choice(["x", "y", "z"])
        if k == "assign":
            return [f"{v} = {self.arith(vars_)}"]
        if k == "aug":
            return [f"{v} {r.choice(['+=', '-=', '*='])} {self.arith(vars_)}"]
        if k == "if":
            return [f"if {self.cond(vars_)}:"] + ind(self.block(vars_, depth + 1, in_loop, in_func))
        if k == "ifelse":
            return ([f"if {self.cond(vars_)}:"] + ind(self.block(vars_, depth + 1, in_loop, in_func))
                    + ["else:"] + ind(self.block(vars_, depth + 1, in_loop, in_func)))
        if k == "elif":
            return ([f"if {self.cond(vars_)}:"] + ind(self.block(vars_, depth + 1, in_loop, in_func))
                    + [f"elif {self.cond(vars_)}:"] + ind(self.block(vars_, depth + 1, in_loop, in_func))
                    + ["else:"] + ind(self.block(vars_, depth + 1, in_loop, in_func)))
        if k == "while":
            self.tmp += 1
            w = f"w{self.tmp}"
            body = self.block(vars_, depth + 1, True, in_func)
            out = [f"{w} = 0", f"while {w} < {r.randint(1, 4)} and {self.cond(vars_)}:",
                   f"    {w} += 1"] + ind(body)
            if r.random() < 0.3:
                out += ["else:"] + ind(self.block(vars_, depth + 1, in_loop, in_func, 1))
            return out
        if k == "for":
            self.tmp += 1
            i = f"i{self.tmp}"
            out = [f"for {i} in range({r.randint(0, 4)}):"] + ind(self.block(vars_ + [i], depth + 1, True, in_func))
            if r.random() < 0.3:
                out += ["else:"] + ind(self.block(vars_, depth + 1, in_loop, in_func, 1))
            return out
        if k == "forlist":
            self.tmp += 1
            i = f"e{self.tmp}"
            return [f"for {i} in [{self.atom(vars_)}, {self.atom(vars_)}]:"] + ind(
                self.block(vars_ + [i], depth + 1, True, in_func))
        if k == "try":
            exc = r.choice(["ZeroDivisionError", "KeyError", "ValueError"])
            raiser = {"ZeroDivisionError": f"{v} = 10 // ({self.atom(vars_)} % 3)",
                      "KeyError": f"{v} = {{1: 2, 2: 3}}[{self.atom(vars_)} % 4]",
                      "ValueError": f"{v} = int('1' if {self.cond(vars_)} else 'q')"}[exc]
            out = ["try:"] + ind([raiser] + self.block(vars_, depth + 1, in_loop, in_func, 1))
            other = r.choice(["ZeroDivisionError", "KeyError", "ValueError", "(KeyError, ValueError)"])
            out += [f"except {exc}:"] + ind(self.block(vars_, depth + 1, in_loop, in_func, 1))
            if r.random() < 0.4:
                out += [f"except {other} as err:"] + ind([f"{v} = len(str(err))"])
            if r.random() < 0.3:
                out += ["else:"] + ind(self.block(vars_, depth + 1, in_loop, in_func, 1))
            if r.random() < 0.3:
                out += ["finally:"] + ind([f"z = z + 1"])
            return out
        if k == "tryfinally":
            return (["try:"] + ind(self.block(vars_, depth + 1, in_loop, in_func, 2))
                    + ["finally:"] + ind([f"y = y + {r.randint(1, 3)}"]))
        if k == "with":
            return [f"with _Ctx({self.atom(vars_)}) as cm:"] + ind(
                [f"{v} = cm + 1"] + self.block(vars_, depth + 1, in_loop, in_func, 1))
        if k == "match":
            return ([f"match {self.arith(vars_)}:", f"    case {r.randint(0, 2)}:"]
                    + ind(ind(self.block(vars_, depth + 2, in_loop, in_func, 1)))
                    + [f"    case {r.randint(3, 5)} | {r.randint(6, 7)}:"]
                    + ind(ind(self.block(vars_, depth + 2, in_loop, in_func, 1)))
                    + (["    case _:"] + ind(ind(self.block(vars_, depth + 2, in_loop, in_func, 1)))
                       if r.random() < 0.6 else []))
        if k == "comp":
            kind = r.choice(["list", "set", "dict"])
            filt = f" if k {r.choice(['<', '>', '!='])} {self.atom(vars_)}" if r.random() < 0.6 else ""
            body = {"list": f"[k * 2 for k in range({r.randint(0, 4)}){filt}]",
                    "set": f"{{k % 2 for k in range({r.randint(0, 4)}){filt}}}",
                    "dict": f"{{k: k + 1 for k in range({r.randint(0, 4)}){filt}}}"}[kind]
            return [f"{v} = len({body})"]
        if k == "genexp":
            return [f"{v} = sum(j + {self.atom(vars_)} for j in range({r.randint(0, 4)}) if j != {self.atom(vars_)})"]
        if k == "closure":
            self.tmp += 1
            f = f"inner{self.tmp}"
            return ([f"def {f}(p):"] + ind([f"if p > {self.atom(vars_)}:", f"    return p + {r.choice(vars_)}",
                                            "return p - 1"])
                    + [f"{v} = {f}({self.arith(vars_)})"])
        if k == "lambda":
            return [f"{v} = (lambda q: q + 1 if q > {self.atom(vars_)} else q - 1)({self.atom(vars_)})"]
        if k == "break":
            return [f"if {self.cond(vars_)}:", "    break"]
        if k == "continue":
            return [f"if {self.cond(vars_)}:", "    continue"]
        if k == "return":
            return [f"if {self.cond(vars_)}:", f"    return {self.arith(vars_)}"]
        raise AssertionError(k)

    def function(self, name: str, generator: bool = False) -> list[str]:
        vars_ = PARAMS + ["x", "y", "z"]
        body = ["x = a + 1", "y = b - 1", "z = c"]
        body += self.block(vars_, 0, False, True, self.rng.randint(2, 5))
        if generator:
            body += ["yield x", "if y > z:", "    yield y", "yield z"]
        else:
            body += ["return x + y * 2 + z * 3"]
        return [f"def {name}(a, b, c):"] + ["    " + l for l in body]

    def klass(self, name: str) -> list[str]:
        m = self.function("method")
        m[0] = "def method(self, a, b, c):"
        return ([f"class {name}:", "    def __init__(self, v):", "        self.v = v"]
                + ["    " + l for l in m]
                + ["    def get(self):", "        if self.v > 0:", "            return self.v", "        return -self.v"])


PRELUDE = """class _Ctx:
    def __init__(self, v):
        self.v = v
    def __enter__(self):
        return self.v
    def __exit__(self, *exc):
        return False
"""


def gen_module(rng: random.Random, n_funcs: int = 3, features: set[str] | None = None,
               with_class: bool | None = None, with_generator: bool | None = None) -> str:
    g = Gen(rng, features)
    lines = [PRELUDE]
    names = []
    for i in range(n_funcs):
        lines += g.function(f"f{i}") + [""]
        names.append(f"f{i}")
    if with_generator if with_generator is not None else rng.random() < 0.4:
        lines += g.function("gen0", generator=True) + [""]
    if with_class if with_class is not None else rng.random() < 0.4:
        lines += g.klass("K0") + [""]
    return "\n".join(lines) + "\n"


def all_code_objects(code):
    """The code object and all nested code objects, depth-first."""
    out = [code]
    for c in code.co_consts:
        if hasattr(c, "co_code"):
            out += all_code_objects(c)
    return out


STDLIB_MODULES = ["textwrap", "bisect", "heapq", "colorsys", "fnmatch", "shlex", "string", "stat",
                  "posixpath", "genericpath", "keyword", "reprlib", "copy", "glob", "operator",
                  "statistics", "fractions", "difflib", "csv", "calendar", "base64", "quopri", "numbers",
                  "abc", "sched", "queue", "dis", "tokenize", "ast", "inspect", "json.decoder",
                  "json.encoder", "argparse", "configparser", "html.parser", "ipaddress", "pprint",
                  "random", "datetime", "decimal", "typing", "dataclasses", "enum", "functools",
                  "collections", "contextlib", "optparse", "getopt", "textwrap", "uuid", "zipfile"]


def stdlib_code_objects(modnames=None, limit=None):
    """Code objects compiled from the source of pure-Python stdlib modules."""
    import importlib.util
    out = []
    for name in (modnames or STDLIB_MODULES):
        try:
            spec = importlib.util.find_spec(name)
            if not spec or not spec.origin or not spec.origin.endswith(".py"):
                continue
            src = open(spec.origin, encoding="utf-8").read()
            code = compile(src, spec.origin, "exec")
        except Exception:  # noqa: BLE001
            continue
        for c in all_code_objects(code):
            out.append((name, c))
            if limit and len(out) >= limit:
                return out
    return out
