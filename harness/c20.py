"""C20 — rendered assertions are valid Python and hold for the observed value (DESIGN §5 C20).

One case = one observed value.  The real `RemoteAssertionTraceObserver._check_value` decides which
assertions to make (float / object / isinstance / type-name / length), the real
`assertion_to_cst` renders each of them, `libcst.Module(...).code` prints it, `compile` + `exec`
run it in the namespace of an exported test file (the module alias, `pytest`, the variable).
The Lean model (`Driver/C20.lean`) gets the same value and must produce the same assertions, the
same rendered trees, the same validity verdict and the same pass / fail / raise verdict.

Oracle (the property itself): every assertion renders without raising, compiles and passes on
the observed value in the exported-file namespace.

Second kind of case (`"kind": "hist"`, the observer path): a small test case — constructor calls and
`obj.do(script)` calls on classes of the synthetic module whose attributes, class attributes and
module attributes hold nested collections that the scripts mutate in place, rebind, share between
objects — is executed by the real `TestCaseExecutor` with the real `RemoteAssertionTraceObserver`;
the recorded trace is rendered by the real `assertion_to_cst` after the execution (as Pynguin does).
Then the statements are replayed in the namespace of an exported test file and every rendered
assertion is evaluated right after the statement of its position.  The replay also takes a snapshot
of the live object graph (a heap with identities) after every statement; the Lean model
(`Model/AssertTrace.lean`) computes the trace from these snapshots — position i is a deep snapshot
in heap i — and must agree with the implementation on every position: which assertions, the rendered
trees, validity, pass / fail / raise.  Oracle: every recorded assertion holds at its own position.
"""
from __future__ import annotations

import collections
import collections.abc
import enum
import fractions
import math
import sys
import types

import vcommon
from vcommon import Failure, PropertyCheck, run_main

import c23_common as cc

SUT = "c20sut"
ALIAS = "c20sut_"
INT_LIMIT = sys.get_int_max_str_digits()

SUT_SOURCE = '''
import enum
class Color(enum.Enum):
    RED = 1
    GREEN = "g"
    BLUE = (1, 2)
class Shade(enum.Enum):
    DARK = 0
    light_1 = None
class IntE(enum.IntEnum):
    A = 3
    B = -3
class StrE(enum.StrEnum):
    A = "a"
class MixI(int, enum.Enum):
    A = 3
    B = -4
class Fl(enum.Flag):
    A = 1
    B = 2
class Plain:
    def __init__(self):
        self.x = 1
class WithLen:
    def __len__(self):
        return 3
class Outer:
    class Inner:
        def __len__(self):
            return 2
def make_local():
    class Loc:
        pass
    return Loc()
def gen():
    yield 1

# ---- classes whose (qualified) name does not denote them any more -----------------------------
import functools
def singleton(cls):
    instances = {}
    @functools.wraps(cls)
    def get_instance(*args, **kwargs):
        if cls not in instances:
            instances[cls] = cls(*args, **kwargs)
        return instances[cls]
    return get_instance
@singleton
class Registry:                     # the name denotes the accessor function
    def __init__(self):
        self.entries = 0
class _Proxy:
    def __init__(self, cls):
        self._cls = cls
    def __call__(self):
        return self._cls()
@_Proxy
class Service:                      # the name denotes a wrapper object (not a class)
    def __init__(self):
        self.port = 80
class Settings:
    def __init__(self):
        self.verbose = False
Settings = Settings()               # the name denotes the only instance
class Point:
    def __init__(self):
        self.x = 0
ORIGIN = Point()
class Point:                        # defined twice: the name denotes the second class
    def __init__(self):
        self.x = 0
        self.y = 0
class Holder:
    class Part:
        def __len__(self):
            return 1
    class Node:
        def __init__(self):
            self.k = 1
    class Tail:
        pass
class _OtherPart:
    def __len__(self):
        return 5
_part0 = Holder.Part()
_node0 = Holder.Node()
_tail0 = Holder.Tail()
Holder.Part = _OtherPart            # nested name rebound to another class
Holder.Node = len                   # nested name rebound to a builtin function
del Holder.Tail                     # nested name gone
def old_part():
    return _part0
def old_node():
    return _node0
def old_tail():
    return _tail0
class Gone:
    pass
_gone0 = Gone()
del Gone                            # the name is gone
def gone():
    return _gone0
class Masked:                       # __qualname__ names another (ordinary) class
    pass
Masked.__qualname__ = "Plain"
Same = Plain                        # a second name for an ordinary class (control)

# ---- classes with mutable nested state, driven by scripts (history cases) ----------------------
_installed_ = []
def _reset_(static, mod):
    g = globals()
    for owner, name in _installed_:
        if owner is None:
            g.pop(name, None)
        elif name in vars(owner):
            delattr(owner, name)
    del _installed_[:]
    for cls, name, value in static or ():
        setattr(g[cls], name, value)
        _installed_.append((g[cls], name))
    for name, value in mod or ():
        g[name] = value
        _installed_.append((None, name))
def _nav_(cur, path):
    for p in path:
        if isinstance(cur, (list, tuple)) and cur:
            cur = cur[p % len(cur)]
        elif isinstance(cur, dict) and cur:
            cur = list(cur.values())[p % len(cur)]
        else:
            return None
    return cur
def _find_(self, root, name, path):
    if root == "self":
        start = vars(self).get(name)
    elif root == "cls":
        start = vars(type(self)).get(name)
    else:
        start = globals().get(name)
    return _nav_(start, path)
def _bind_(self, root, name, value):
    if root == "self":
        setattr(self, name, value)
    elif root == "cls":
        setattr(type(self), name, value)
        _installed_.append((type(self), name))
    else:
        globals()[name] = value
        _installed_.append((None, name))
def _hashable_(x):
    try:
        hash(x)
    except TypeError:
        return False
    return True
def _run_(self, script):
    done = 0
    ret = None
    for step in script:
        op = step[0]
        if op == "ret":
            how = step[1]
            if how == "count":
                ret = done
            elif how == "val":
                ret = step[2]
            elif how == "self":
                ret = self
            elif how == "get":
                ret = _find_(self, step[2], step[3], step[4])
            elif how == "box":
                ret = Box([["items", _find_(self, step[2], step[3], step[4])], ["n", done]])
            continue
        if op == "rebind":
            _bind_(self, step[1], step[2], step[3])
            done += 1
            continue
        if op == "del":
            if step[1] == "self" and step[2] in vars(self):
                delattr(self, step[2])
                done += 1
            continue
        t = _find_(self, step[1], step[2], step[3])
        args = step[4:]
        if op == "link":
            other = _find_(self, args[0], args[1], args[2])
            if isinstance(t, list):
                t.append(other)
                done += 1
            elif isinstance(t, dict):
                t[len(t)] = other
                done += 1
        elif op == "append" and isinstance(t, list):
            t.append(args[0]); done += 1
        elif op == "insert0" and isinstance(t, list):
            t.insert(0, args[0]); done += 1
        elif op == "pop" and isinstance(t, (list, set)) and t:
            t.pop(); done += 1
        elif op == "pop" and isinstance(t, dict) and t:
            t.popitem(); done += 1
        elif op == "setitem" and isinstance(t, list) and t and type(args[0]) is int:
            t[args[0] % len(t)] = args[1]; done += 1
        elif op == "setitem" and isinstance(t, dict) and _hashable_(args[0]):
            t[args[0]] = args[1]; done += 1
        elif op == "add" and isinstance(t, set) and _hashable_(args[0]):
            t.add(args[0]); done += 1
        elif op == "clear" and isinstance(t, (list, set, dict)):
            t.clear(); done += 1
    return ret
class Store:
    label = "store"
    _hidden = [0]
    def __init__(self, fields=(), static=(), mod=()):
        _reset_(static, mod)
        for name, value in fields:
            setattr(self, name, value)
        self._steps = []
    def do(self, script):
        return _run_(self, script)
    @property
    def view(self):
        return 1
class Box:
    capacity = 4
    def __init__(self, fields=()):
        for name, value in fields:
            setattr(self, name, value)
    def do(self, script):
        return _run_(self, script)
class Pile:
    def __init__(self, fields=()):
        for name, value in fields:
            setattr(self, name, value)
    def __len__(self):
        return len(vars(self))
    def do(self, script):
        return _run_(self, script)
'''

# instances of classes of the module under test whose qualified name, looked up from the module, denotes
# something else (a function, a wrapper object, an instance, another class, nothing) — and controls
REBOUND = {
    "sut_singleton": "Registry()", "sut_proxied": "Service()", "sut_rebound_instance": "Settings",
    "sut_redefined_old": "ORIGIN", "sut_redefined_new": "Point()", "sut_nested_other": "old_part()",
    "sut_nested_nonclass": "old_node()", "sut_nested_deleted": "old_tail()", "sut_deleted": "gone()",
    "sut_masked": "Masked()", "sut_second_name": "Same()",
}
OPAQUE_KINDS = ["dict_keys", "function", "list_iterator", "range", "frozenset", "bytearray", "memoryview",
                "ellipsis", "object", "sut_plain", "sut_sized", "sut_nested", "sut_local", "fraction",
                "ordereddict", "deque", "generator", "module", "type", "notimplemented", "dict_values",
                *REBOUND]
PLAIN_ENUMS = [("Color", "RED"), ("Color", "GREEN"), ("Color", "BLUE"), ("Shade", "DARK"), ("Shade", "light_1")]
ODD_ENUMS = [("IntE", "A"), ("IntE", "B"), ("StrE", "A"), ("MixI", "A"), ("MixI", "B"), ("Fl", "A"), ("Fl", "A|B")]


def sut_module():
    m = sys.modules.get(SUT)
    if m is None:
        m = types.ModuleType(SUT)
        sys.modules[SUT] = m
        exec(SUT_SOURCE, m.__dict__)  # noqa: S102
    return m


def make_opaque(kind):
    m = sut_module()
    if kind in REBOUND:
        return eval("m." + REBOUND[kind], {"m": m})  # noqa: S307 - the harness's own table
    return {
        "dict_keys": lambda: {1: 2}.keys(), "function": lambda: m.make_local, "list_iterator": lambda: iter([1]),
        "range": lambda: range(3), "frozenset": lambda: frozenset({1, 2}), "bytearray": lambda: bytearray(b"ab"),
        "memoryview": lambda: memoryview(b"abc"), "ellipsis": lambda: Ellipsis, "object": object,
        "sut_plain": m.Plain, "sut_sized": m.WithLen, "sut_nested": m.Outer.Inner, "sut_local": m.make_local,
        "fraction": lambda: fractions.Fraction(1, 3), "ordereddict": lambda: collections.OrderedDict(a=1),
        "deque": lambda: collections.deque([1, 2]), "generator": lambda: m.gen(), "module": lambda: math,
        "type": lambda: int, "notimplemented": lambda: NotImplemented, "dict_values": lambda: {1: 2}.values(),
    }[kind]()


def dec20(j):
    """Case JSON → live Python value (c23 encodings + {"e": [cls, member]} + {"o": kind})."""
    if isinstance(j, dict):
        (k, x), = j.items()
        if k == "e":
            cls = getattr(sut_module(), x[0])
            if "|" in x[1]:
                out = None
                for part in x[1].split("|"):
                    out = cls[part] if out is None else out | cls[part]
                return out
            return cls[x[1]]
        if k == "o":
            return make_opaque(x)
        if k == "l":
            return [dec20(y) for y in x]
        if k == "t":
            return tuple(dec20(y) for y in x)
        if k == "S":
            return {dec20(y) for y in x}
        if k == "d":
            return {dec20(a): dec20(b) for a, b in x}
    return cc.dec(j)


def plain_enum(v) -> bool:
    return isinstance(v, enum.Enum) and type(v).__mro__[1] is enum.Enum and not isinstance(v, enum.Flag)


def enc20(v):
    """Live value → model JSON; returns None when the value contains something the model does not
    cover (an enum with a data mixin / a Flag)."""
    if isinstance(v, enum.Enum):
        if not plain_enum(v):
            raise NotModelled("enum with data mixin or Flag")
        return {"e": [type(v).__name__, v.name]}
    if v is None or isinstance(v, (bool, int, float, complex, str, bytes)):
        return cc.enc(v)
    t = type(v)
    if t is list:
        return {"l": [enc20(x) for x in v]}
    if t is tuple:
        return {"t": [enc20(x) for x in v]}
    if t is set:
        return {"S": [enc20(x) for x in emission_order(v)]}
    if t is dict:
        return {"d": [[enc20(k), enc20(x)] for k, x in v.items()]}
    ln = None
    if isinstance(v, collections.abc.Sized):
        ln = len(v)
    return {"obj": dict(type_id(t), len=ln)}


class NotModelled(Exception):
    pass


def emission_order(members):
    """The members of a set in the order `_value_to_cst` emits them: stably sorted by the source text of the rendered
    member (the rule of the code; the printer is libcst's).  The model's `AVal.set xs` lists the members in this order
    — the order is an input of the model, whose theorems hold for every order.  Members that cannot be rendered make
    the set non-assertable (no object assertion is rendered): iteration order then."""
    import libcst as cst
    from pynguin.assertion.assertion_to_ast import _value_to_cst
    members = list(members)
    try:
        printer = cst.Module(body=[])
        return sorted(members, key=lambda x: printer.code_for_node(_value_to_cst(x)))
    except Exception:  # noqa: BLE001 - an unrenderable member
        return members


# ---- history cases: statements, heap snapshots ------------------------------------------------
HIST_OPAQUE = {
    "range": "range(3)", "frozenset": "frozenset({1, 2})", "bytearray": "bytearray(b'ab')", "ellipsis": "...",
    "object": "object()", "sut_plain": ALIAS + ".Plain()", "sut_sized": ALIAS + ".WithLen()",
    "sut_nested": ALIAS + ".Outer.Inner()", "sut_local": ALIAS + ".make_local()", "list_iterator": "iter([1])",
    "dict_keys": "{1: 2}.keys()", "deque": "__import__('collections').deque([1, 2])",
    "fraction": "__import__('fractions').Fraction(1, 3)", "memoryview": "memoryview(b'abc')",
    "notimplemented": "NotImplemented", "generator": ALIAS + ".gen()",
    **{k: ALIAS + "." + e for k, e in REBOUND.items()},
}
# what a statement of a history case can bind a variable to (besides constructors and `do` calls)
HIST_BIND = sorted([*REBOUND, "sut_plain", "sut_nested", "sut_local", "sut_sized"])
# hashable AND with a hash that does not depend on the object's address (the execution and the replay build
# their own objects: an address-hashed set element would make `set.pop()` / iteration order differ)
HIST_OPAQUE_HASHABLE = ["range", "frozenset", "ellipsis", "fraction"]
FIELD_NAMES = ["rows", "tags", "pair", "flat", "cfg", "data"]
STATIC_NAMES = ["shared", "cache", "limits"]
MOD_NAMES = ["REG", "TABLE", "state"]
_COLL_KEY = {list: "l", tuple: "t", set: "S"}


def _float_expr(x: float) -> str:
    if x != x:
        return "-float('nan')" if math.copysign(1.0, x) < 0 else "float('nan')"
    if math.isinf(x):
        return "float('inf')" if x > 0 else "float('-inf')"
    return repr(x)


def py_expr(j) -> str:
    """Case-JSON value → Python source building it (inside a statement of the test case)."""
    if j is None:
        return "None"
    if j is True or j is False:
        return repr(j)
    (k, x), = j.items()
    if k == "i":
        v = int(x, 16)
        return repr(v) if abs(v) < 10 ** 18 else hex(v)
    if k == "f":
        return _float_expr(cc.dec_float(x))
    if k == "c":
        return f"complex({_float_expr(cc.dec_float(x[0]))}, {_float_expr(cc.dec_float(x[1]))})"
    if k == "s":
        return repr("".join(chr(c) for c in x))
    if k == "b":
        return repr(bytes(x))
    if k == "e":
        return " | ".join(f"{ALIAS}.{x[0]}.{part}" for part in x[1].split("|"))
    if k == "o":
        return HIST_OPAQUE[x]
    if k == "l":
        return "[" + ", ".join(py_expr(y) for y in x) + "]"
    if k == "t":
        return "(" + ", ".join(py_expr(y) for y in x) + ("," if len(x) == 1 else "") + ")"
    if k == "S":
        return "{" + ", ".join(py_expr(y) for y in x) + "}" if x else "set()"
    if k == "d":
        return "{" + ", ".join(f"{py_expr(a)}: {py_expr(b)}" for a, b in x) + "}"
    raise ValueError(f"py_expr: {j!r}")


def script_expr(x) -> str:
    """A script / field list of a history case → Python source (values are wrapped as {"v": value})."""
    if isinstance(x, dict):
        return py_expr(x["v"])
    if isinstance(x, list):
        return "[" + ", ".join(script_expr(y) for y in x) + "]"
    return repr(x)


def stmt_code(i: int, st) -> str:
    if "bind" in st:
        return f"var_{i} = {HIST_OPAQUE[st['bind']]}"
    if "new" in st:
        args = [script_expr(st.get("fields", []))]
        if st["new"] == "Store":
            args += [script_expr(st.get("static", [])), script_expr(st.get("mod", []))]
        return f"var_{i} = {ALIAS}.{st['new']}({', '.join(args)})"
    return f"var_{i} = var_{st['on']}.do({script_expr(st['script'])})"


def ignored_attr(name: str, value) -> bool:
    """Public data attributes only (the harness's own statement of which attributes are observable)."""
    return (name.startswith("_") or name.endswith("__") or callable(value)
            or isinstance(value, (types.ModuleType, staticmethod, classmethod, property)))


_SERIALS: dict = {}   # (module, qualname) → the class objects seen with these names (kept alive)
_OBJ_IDS: dict = {}
_OBJ_KEEP: list = []


def type_id(t) -> dict:
    """A class object: its names plus which of the classes with these names it is (identity)."""
    known = _SERIALS.setdefault((t.__module__, t.__qualname__), [])
    for k, c in enumerate(known):
        if c is t:
            return {"module": t.__module__, "qual": t.__qualname__.split("."), "serial": k}
    known.append(t)
    return {"module": t.__module__, "qual": t.__qualname__.split("."), "serial": len(known) - 1}


def py_ref(o) -> dict:
    """An object by identity, as the model's `PyRef`."""
    if isinstance(o, type):
        return {"cls": type_id(o)}
    k = _OBJ_IDS.get(id(o))
    if k is None:
        k = _OBJ_IDS[id(o)] = len(_OBJ_IDS)
        _OBJ_KEEP.append(o)
    return {"other": k}


def world_facts(types):
    """The interpreter state `_is_type_importable` and the exported file look at, as far as the qualified
    names of `types` lead: `getattr(owner, part, None)` edges between objects (by identity) from `builtins` and
    from the module under test.  The decision (does the walk end at the class itself?) is the model's."""
    import builtins
    m = sys.modules.get(SUT)
    edges, seen = [], set()
    for t in types:
        owner = builtins if t.__module__ == "builtins" else m if t.__module__ == SUT else None
        for part in t.__qualname__.split("."):
            if owner is None:
                break
            nxt = getattr(owner, part, None)
            if nxt is None:
                break
            e = [py_ref(owner), part, py_ref(nxt)]
            k = vcommon.jdump(e)
            if k not in seen:
                seen.add(k)
                edges.append(e)
            owner = nxt
    te = {"moduleName": SUT, "builtins": py_ref(builtins), "sutModule": None if m is None else py_ref(m),
          "getattr": edges}
    return te, [[ALIAS, py_ref(m)]]


class HeapEncoder:
    """Live objects → the model's heap: containers get addresses (stable over the positions of one
    replay, objects are kept alive), everything else is an immediate value."""

    def __init__(self):
        self.addr: dict[int, int] = {}
        self.keep: list = []
        self.types: dict = {}

    def item(self, v, cells):
        t = type(v)
        if t in (list, tuple, set, dict):
            a = self.addr.get(id(v))
            if a is None:
                a = len(self.addr)
                self.addr[id(v)] = a
                self.keep.append(v)
            if a not in cells:
                cells[a] = None
                if t is dict:
                    cells[a] = {"d": [[self.item(k, cells), self.item(x, cells)] for k, x in v.items()]}
                else:
                    cells[a] = {_COLL_KEY[t]: [self.item(x, cells) for x in v]}
            return {"ref": a}
        j = enc20(v)
        if isinstance(j, dict) and "obj" in j:
            self.types[id(t)] = t
        return j

    def nval(self, x, cells):
        d = getattr(x, "__dict__", None)
        if (x is None or type(x) in (bool, int, float, complex, str, bytes, list, tuple, set, dict)
                or isinstance(x, enum.Enum) or type(d) is not dict):
            return {"plain": self.item(x, cells)}
        t = type(x)
        self.types[id(t)] = t
        ln = len(x) if isinstance(x, collections.abc.Sized) else None
        return {"inst": dict(type_id(t), len=ln,
                             fields=[[f, self.item(fv, cells)] for f, fv in d.items() if not ignored_attr(f, fv)])}

    def snapshot(self, ns, bound: str, n_vars: int) -> dict:
        m = sut_module()
        cells: dict = {}
        vars_ = [[f"var_{k}", self.nval(ns[f"var_{k}"], cells)] for k in range(n_vars)]
        mod = [[f, self.nval(v, cells)] for f, v in list(vars(m).items()) if not ignored_attr(f, v)]
        classes, seen = [], set()
        for k in range(n_vars):
            t = type(ns[f"var_{k}"])
            if t.__module__ == SUT and t not in seen and not isinstance(ns[f"var_{k}"], enum.Enum):
                seen.add(t)
                classes.append([type_id(t), [[f, self.nval(v, cells)] for f, v in list(vars(t).items())
                                             if not ignored_attr(f, v)]])
        return {"heap": [[a, c] for a, c in sorted(cells.items())], "bound": bound, "vars": vars_, "mod": mod,
                "classes": classes}


def safe_leaves(v, _seen=None):
    """`c23_common.leaves` for live values that may be cyclic."""
    seen = set() if _seen is None else _seen
    if isinstance(v, (list, tuple, set, frozenset, dict)):
        if id(v) in seen:
            return
        seen.add(id(v))
        for x in (v.items() if isinstance(v, dict) else v):
            if isinstance(v, dict):
                yield from safe_leaves(x[0], seen)
                yield from safe_leaves(x[1], seen)
            else:
                yield from safe_leaves(x, seen)
    else:
        yield v


def canon_expr(j):
    """Expression JSON with set displays sorted (the iteration order of a set is not semantic)."""
    if isinstance(j, dict):
        out = {k: canon_expr(v) for k, v in j.items()}
        if "S" in out and isinstance(out["S"], list):
            out["S"] = sorted(out["S"], key=vcommon.jdump)
        return out
    if isinstance(j, list):
        return [canon_expr(x) for x in j]
    return j


def _dotted(j):
    if isinstance(j, dict) and set(j) == {"n"}:
        return j["n"]
    if isinstance(j, dict) and set(j) == {"attr", "a"}:
        head = _dotted(j["attr"])
        return None if head is None else head + "." + j["a"]
    return None


def canon_stmt(st):
    """Rendered statement JSON: the source path as one dotted name (the model treats reference paths as
    atomic names of the namespace), set displays sorted."""
    if not isinstance(st, dict):
        return st
    out = canon_expr(st)
    key = "l" if out.get("k") in ("cmp", "approx") else "v"
    d = _dotted(out.get(key))
    if d is not None:
        out[key] = {"n": d}
    return out


def stmt2j(node):
    """The rendered `assert` statement → the model's Stmt JSON."""
    import libcst as cst
    assert isinstance(node, cst.SimpleStatementLine) and len(node.body) == 1
    a = node.body[0]
    assert isinstance(a, cst.Assert) and a.msg is None
    t = a.test
    if isinstance(t, cst.Call) and isinstance(t.func, cst.Name) and t.func.value == "isinstance":
        assert len(t.args) == 2
        return {"k": "isinstance", "v": cc.cst2j(t.args[0].value), "ty": cc.cst2j(t.args[1].value)}
    assert isinstance(t, cst.Comparison) and len(t.comparisons) == 1
    tgt = t.comparisons[0]
    op = "is" if isinstance(tgt.operator, cst.Is) else "eq" if isinstance(tgt.operator, cst.Equal) else "?"
    c = tgt.comparator
    if isinstance(c, cst.Call) and isinstance(c.func, cst.Attribute) and cc.code_of(c.func) == "pytest.approx":
        assert op == "eq" and [x.keyword.value if x.keyword else None for x in c.args] == [None, "abs", "rel"]
        return {"k": "approx", "l": cc.cst2j(t.left), "v": cc.cst2j(c.args[0].value),
                "a": cc.cst2j(c.args[1].value), "r": cc.cst2j(c.args[2].value)}
    if isinstance(t.left, cst.FormattedString):
        code = cc.code_of(t.left)
        var = code[len('f"{type('):code.index(").__module__}")]
        assert code == 'f"{type(%s).__module__}.{type(%s).__qualname__}"' % (var, var) and op == "eq"
        return {"k": "typeName", "v": cc.cst2j(cst.parse_expression(var)), "expected": c.evaluated_value}
    if isinstance(t.left, cst.Call) and isinstance(t.left.func, cst.Name) and t.left.func.value == "len":
        assert op == "eq" and len(t.left.args) == 1
        return {"k": "len", "v": cc.cst2j(t.left.args[0].value), "n": cc.cst2j(c)}
    return {"k": "cmp", "l": cc.cst2j(t.left), "op": op, "r": cc.cst2j(c)}


KIND = {"FloatAssertion": "float", "ObjectAssertion": "object", "TypeNameAssertion": "typeName",
        "IsInstanceAssertion": "isinstance", "CollectionLengthAssertion": "len"}


class C20(PropertyCheck):
    prop_id = "C20"
    prop_modules = ["PynguinModel.Props.C20"]
    extra_modules = ["PynguinModel.Model.AssertRender", "PynguinModel.Model.AssertTrace"]
    driver = "Driver/C20.lean"
    n_quick = 2600
    n_thorough = 50000
    n_search = 30000
    rule = ("random observed values: nested lists/tuples/sets/dicts (depth ≤ 6, so also beyond is_assertable's "
            "limit), ints up to 4500 digits, all float specials/subnormals/random bit patterns, str/bytes with "
            "arbitrary code points, complex, plain / mixin / Flag enum members, 32 kinds of non-assertable objects "
            "(unbound builtin types, module-level / nested / function-local SUT classes, foreign types, instances of "
            "SUT classes whose qualified name is rebound: @singleton accessor function, wrapper object, module-level "
            "instance, class defined twice, nested name rebound to another class / a function / deleted, deleted "
            "module-level name, borrowed __qualname__, plus a second name for an ordinary class); "
            "non-trivial = distinct value that is a collection, a float, a complex, an enum, an object, or a "
            "negative / huge int; 8 % history cases: test cases of 2-6 statements (constructors of three classes of "
            "the synthetic module, `obj.do(script)` calls, variables bound to instances of the rebound-name classes — "
            "also present as public module attributes and as attribute values) executed by the real TestCaseExecutor + "
            "RemoteAssertionTraceObserver, scripts mutate nested containers held by instance / class / module "
            "attributes in place (append, insert, pop, setitem, add, clear at a path), rebind and delete attributes, "
            "share containers between attributes and objects, return primitives / the object / a new object / a "
            "container; every recorded assertion is evaluated at its position in a replay")
    assumptions = [
        "repr/str of a finite float and float(text), repr / evaluated_value of str and bytes are inverse "
        "(checked on every sample through exec of the printed code)",
        "the namespace of an exported test file binds the module alias, pytest and the test's variables",
        "enum members with a data mixin (IntEnum, StrEnum, int/str mixins) and Flag composites are not "
        "modelled (checked by the oracle only)",
        "a dotted assertion source (`var_0.rows`, `alias.Store.shared`) is an atomic name of the model's namespace: "
        "its resolution by attribute access is Python's (done by exec in the replay)",
        "history cases: the statements' effect on the object graph is not modelled (module under test); the model "
        "gets the heap snapshot of every position from the replay",
        "the `getattr(owner, part, None)` edges between objects (by identity) along the qualified name of every "
        "observed type, from `builtins` and from the module under test, are inputs of the model (read off the live "
        "interpreter by the harness); whether the walk ends at the class object itself is decided by the model; "
        "`isinstance` is modelled for exact types (and bool/int) only — no subclassing, `__instancecheck__`, or names "
        "bound to tuples of classes in the synthetic module",
        "history cases: test variables are never bound to enum members (their class would become a static-field "
        "owner) or to type / module objects; statements do not raise",
    ]

    # ------------------------------------------------------------------------------------------
    def gen_case(self, rng):
        if rng.random() < self.hist_share:
            return self._gen_hist(rng)
        r = rng.random()
        if r < 0.12:
            v = {"f": cc.enc_float(cc.rand_float(rng))}
        elif r < 0.22:
            v = {"o": rng.choice(OPAQUE_KINDS)}
        else:
            v = self._rand(rng, rng.choice([0, 0, 1, 2, 3, 4, 5, 6]), hashable=False)
        return {"v": v, "ns": "export" if rng.random() < 0.7 else "bound",
                "prec": rng.choice([0.01, 0.01, 0.01, 0.5, 1e-9, 0.0, 3.0])}

    def _scalar(self, rng, hashable):
        r = rng.random()
        if r < 0.10:
            return None
        if r < 0.20:
            return rng.random() < 0.5
        if r < 0.40:
            return cc.enc(cc.rand_int(rng))
        if r < 0.50:
            return cc.enc(cc.rand_str(rng))
        if r < 0.58:
            return cc.enc(cc.rand_bytes(rng))
        if r < 0.70:
            return cc.enc(complex(cc.rand_float(rng), cc.rand_float(rng)))
        if r < 0.84:
            return {"e": list(rng.choice(PLAIN_ENUMS))}
        if r < 0.88:
            return {"e": list(rng.choice(ODD_ENUMS))}
        if r < 0.95:
            return cc.enc(cc.rand_float(rng))  # makes the enclosing collection non-assertable
        if hashable:
            return {"o": rng.choice(["frozenset", "range", "ellipsis", "object", "fraction", "type"])}
        return {"o": rng.choice(OPAQUE_KINDS)}

    def _rand(self, rng, depth, hashable):
        if depth <= 0 or rng.random() < 0.3:
            return self._scalar(rng, hashable)
        k = rng.choice(["t"] if hashable else ["l", "t", "S", "d"])
        n = rng.choice([0, 1, 1, 2, 3])
        if depth >= 5:
            n = max(n, 1)
        if k == "l":
            return {"l": [self._rand(rng, depth - 1, False) for _ in range(n)]}
        if k == "t":
            return {"t": [self._rand(rng, depth - 1, hashable) for _ in range(n)]}
        if k == "S":
            return {"S": [self._rand(rng, depth - 1, True) for _ in range(n)]}
        return {"d": [[self._rand(rng, depth - 1, True), self._rand(rng, depth - 1, False)] for _ in range(n)]}

    # ---- history cases ------------------------------------------------------------------------
    hist_share = 0.08

    def _hscalar(self, rng, hashable):
        r = rng.random()
        if r < 0.36:
            return {"i": hex(rng.randint(-5, 20))}
        if r < 0.50:
            return cc.enc("".join(rng.choice("abxyz' \\é") for _ in range(rng.choice([0, 1, 2, 3]))))
        if r < 0.58:
            return None
        if r < 0.66:
            return rng.random() < 0.5
        if r < 0.71:
            return cc.enc(cc.rand_bytes(rng))
        if r < 0.79:
            return {"e": list(rng.choice(PLAIN_ENUMS))}
        if r < 0.83:
            return cc.enc(cc.rand_int(rng))
        if r < 0.91:
            # hash(nan) depends on the object's address (CPython ≥ 3.10): as a set element / dict key it would
            # make iteration and `pop()` order differ between the execution and the replay
            x, y = cc.rand_float(rng), cc.rand_float(rng)
            if hashable:
                x, y = (1.5 if x != x else x), (-0.0 if y != y else y)
            return cc.enc(x) if r < 0.88 else cc.enc(complex(x, y))
        if r < 0.913:
            return {"e": list(rng.choice(ODD_ENUMS))}
        return {"o": rng.choice(HIST_OPAQUE_HASHABLE if hashable else sorted(HIST_OPAQUE))}

    def _hval(self, rng, depth, hashable=False):
        if depth <= 0 or rng.random() < 0.2:
            return self._hscalar(rng, hashable)
        k = "t" if hashable else rng.choice(["l", "l", "l", "d", "d", "t", "S"])
        n = rng.choice([0, 1, 1, 2, 2, 3])
        if k == "l":
            return {"l": [self._hval(rng, depth - 1) for _ in range(n)]}
        if k == "t":
            return {"t": [self._hval(rng, depth - 1, hashable) for _ in range(n)]}
        if k == "S":
            return {"S": [self._hval(rng, depth - 1, True) for _ in range(n)]}
        return {"d": [[self._hval(rng, min(depth - 1, 1), True), self._hval(rng, depth - 1)] for _ in range(n)]}

    @staticmethod
    def _sim_module():
        m = types.ModuleType("c20sim")
        exec(SUT_SOURCE, m.__dict__)  # noqa: S102 - the harness's own synthetic module
        return m

    @staticmethod
    def _targets(obj, sim):
        """Every container reachable the way `_nav_` walks: (root, name, path, container)."""
        out = []

        def walk(root, name, v, path):
            if isinstance(v, (list, tuple, dict, set)):
                out.append((root, name, list(path), v))
            if len(path) >= 4:
                return
            if isinstance(v, (list, tuple)):
                for i, x in enumerate(v):
                    walk(root, name, x, [*path, i])
            elif isinstance(v, dict):
                for i, x in enumerate(v.values()):
                    walk(root, name, x, [*path, i])
        for name, v in vars(obj).items():
            if not ignored_attr(name, v):
                walk("self", name, v, [])
        for name, v in vars(type(obj)).items():
            if not ignored_attr(name, v):
                walk("cls", name, v, [])
        for name, v in vars(sim).items():
            if not ignored_attr(name, v):
                walk("mod", name, v, [])
        return out

    def _gen_script(self, rng, obj, sim):
        steps = []
        targets = self._targets(obj, sim)
        for _ in range(rng.choice([1, 1, 2, 2, 3])):
            r = rng.random()
            if r < 0.12 or not targets:
                root = rng.choice(["self", "self", "cls", "mod"])
                name = rng.choice({"self": FIELD_NAMES, "cls": STATIC_NAMES, "mod": MOD_NAMES}[root])
                steps.append(["rebind", root, name, {"v": self._hval(rng, rng.choice([0, 1, 2, 3]))}])
                continue
            if r < 0.15:
                steps.append(["del", "self", rng.choice(FIELD_NAMES)])
                continue
            inner = [t for t in targets if t[2] and not isinstance(t[3], tuple)]
            outer = [t for t in targets if not t[2] and not isinstance(t[3], tuple)]
            pool = inner if inner and (rng.random() < 0.7 or not outer) else outer
            if not pool:
                steps.append(["rebind", "self", rng.choice(FIELD_NAMES), {"v": self._hval(rng, 2)}])
                continue
            root, name, path, cont = rng.choice(pool)
            if isinstance(cont, list):
                op = rng.choice(["append", "append", "append", "insert0", "pop", "setitem", "clear", "link"])
            elif isinstance(cont, dict):
                op = rng.choice(["setitem", "setitem", "setitem", "pop", "clear", "link"])
            else:
                op = rng.choice(["add", "add", "add", "pop", "clear"])
            if op in ("append", "insert0"):
                steps.append([op, root, name, path, {"v": self._hval(rng, rng.choice([0, 0, 1, 2]))}])
            elif op == "add":
                steps.append([op, root, name, path, {"v": self._hval(rng, rng.choice([0, 0, 1]), True)}])
            elif op == "setitem" and isinstance(cont, list):
                steps.append([op, root, name, path, rng.randint(0, 3), {"v": self._hval(rng, rng.choice([0, 1, 2]))}])
            elif op == "setitem":
                steps.append([op, root, name, path, {"v": self._hval(rng, rng.choice([0, 0, 1]), True)},
                              {"v": self._hval(rng, rng.choice([0, 1, 2]))}])
            elif op == "link":
                r2, n2, p2, _ = rng.choice(targets)
                steps.append([op, root, name, path, r2, n2, p2])
            else:
                steps.append([op, root, name, path])
        r = rng.random()
        if r < 0.5:
            steps.append(["ret", "count"])
        elif r < 0.68:
            v = self._hval(rng, rng.choice([0, 0, 1]))
            if isinstance(v, dict) and "e" in v:
                v = None  # a variable bound to an enum member makes the enum class a "static field owner"
            steps.append(["ret", "val", {"v": v}])
        elif r < 0.76:
            steps.append(["ret", "self"])
        elif r < 0.88 and targets:
            root, name, path, _ = rng.choice(targets)
            steps.append(["ret", "box", root, name, path])
        elif targets:
            root, name, path, _ = rng.choice(targets)
            steps.append(["ret", "get", root, name, path])
        return steps

    def _gen_hist(self, rng):
        sim = self._sim_module()
        ns = {ALIAS: sim}
        stmts = []

        def fields():
            names = rng.sample(FIELD_NAMES, rng.choice([1, 2, 2, 3]))
            return [[n, {"v": self._hval(rng, rng.choice([0, 2, 2, 3, 3, 4]))}] for n in names]

        def add(st):
            stmts.append(st)
            exec(stmt_code(len(stmts) - 1, st), ns)  # noqa: S102 - simulation on a private copy of the module

        first = {"new": "Store", "fields": fields(),
                 "static": [["Store", n, {"v": self._hval(rng, rng.choice([0, 2, 3]))}]
                            for n in rng.sample(STATIC_NAMES, rng.choice([0, 0, 1, 2]))],
                 "mod": [[n, {"v": self._hval(rng, rng.choice([0, 2, 3]))}]
                         for n in rng.sample(MOD_NAMES, rng.choice([0, 0, 1, 2]))]}
        add(first)
        objs = [0]
        for _ in range(rng.choice([1, 2, 2, 3, 4])):
            if rng.random() < 0.2:
                # a variable bound to an object whose class cannot (or can) be referenced by its qualified name
                add({"bind": rng.choice(HIST_BIND)})
                continue
            if rng.random() < 0.15:
                add({"new": rng.choice(["Box", "Box", "Pile"]), "fields": fields()})
                objs.append(len(stmts) - 1)
                continue
            on = rng.choice(objs)
            add({"on": on, "script": self._gen_script(rng, ns[f"var_{on}"], sim)})
            got = ns[f"var_{len(stmts) - 1}"]
            if isinstance(got, enum.Enum) and stmts[-1]["script"][-1][0] == "ret":
                # the script changed what its own `ret get` path points at: a variable bound to an enum member is
                # outside the modelled domain (see `assumptions`); the mutations stay, only the result changes
                stmts[-1]["script"][-1] = ["ret", "count"]
                got = ns[f"var_{len(stmts) - 1}"] = 0
            if type(got).__name__ in ("Store", "Box", "Pile") and type(got).__module__ == "c20sim":
                objs.append(len(stmts) - 1)
        return {"kind": "hist", "stmts": stmts, "prec": rng.choice([0.01, 0.01, 0.5, 1e-9])}

    _executor = None

    def _hist_executor(self):
        if self._executor is None:
            import pynguin.configuration as config
            from pynguin.instrumentation.tracer import SubjectProperties
            from pynguin.testcase.execution import TestCaseExecutor
            config.configuration.module_name = SUT
            sut_module()
            type(self)._executor = TestCaseExecutor(SubjectProperties(), maximum_test_execution_timeout=300,
                                                    test_execution_time_per_statement=100)
        return self._executor

    def _impl_hist(self, case):
        import libcst as cst
        import pytest
        import pynguin.configuration as config
        import pynguin.testcase.testcase as tcm
        from pynguin.assertion.assertion_to_ast import assertion_to_cst
        from pynguin.assertion.assertiontraceobserver import RemoteAssertionTraceObserver
        config.configuration.module_name = SUT
        m = sut_module()
        codes = [stmt_code(i, st) for i, st in enumerate(case["stmts"])]
        # 1. the real executor with the real observer
        test_case = tcm.TestCase()
        for i, code in enumerate(codes):
            test_case.add_statement(tcm.Statement(node=cst.parse_statement(code), bound_variable=f"var_{i}"))
        executor = self._hist_executor()
        with executor.temporarily_add_remote_observer(RemoteAssertionTraceObserver()):
            result = executor.execute(test_case)
        if result.timeout or result.has_test_exceptions():
            raise RuntimeError(f"history case did not execute cleanly: timeout={result.timeout} "
                               f"exceptions={result.exceptions}")
        recorded = result.assertion_trace.trace
        # 2. render (after the whole execution, as the assertion generator / the exporter do)
        positions = []
        # (a position beyond the last statement can only come from a mis-numbered trace: keep it visible)
        for i in range(max([len(codes), *[k + 1 for k in recorded]])):
            recs = []
            for a in recorded.get(i, []):
                kind = KIND[type(a).__name__]
                self.count("hist-assertion:" + kind)
                r = {"kind": kind, "src": a.source}
                try:
                    node = assertion_to_cst(a, float_precision=case["prec"])
                    r["stmt"] = canon_stmt(stmt2j(node))
                    r["code"] = cst.Module(body=[node]).code
                except Exception as e:  # rendering must never fail
                    r["err"] = type(e).__name__
                    r["detail"] = str(e)[:80]
                recs.append(r)
            positions.append(recs)
        # 3. replay in the namespace of an exported test file; snapshot the live object graph per position
        ns = {ALIAS: m, "pytest": pytest}
        enc = HeapEncoder()
        snaps, modelled, pending = [], True, []
        for i in range(len(positions)):
            if i < len(codes):
                exec(compile(codes[i], "<statement>", "exec"), ns)  # noqa: S102 - our own statement
                try:
                    snaps.append(enc.snapshot(ns, f"var_{i}", i + 1))
                except NotModelled:
                    modelled = False
            for r in pending:
                if "later" not in r and self._passes(r["compiled"], ns) is True:
                    r["later"] = i
            for r in positions[i]:
                try:
                    live = eval(r["src"], dict(ns))  # noqa: S307 - a reference path of the namespace
                except Exception:
                    live = None
                try:
                    r["observed"] = repr(live)[:120]
                except Exception:  # e.g. an int beyond the str() digit limit
                    r["observed"] = "<" + type(live).__name__ + ">"
                if "err" in r:
                    r["class"] = self._classify_failure(live, r)
                    continue
                try:
                    r["compiled"] = compile(r["code"], "<assertion>", "exec")
                    r["valid"] = True
                except (SyntaxError, ValueError) as e:
                    r["valid"], r["eval"], r["detail"] = False, None, str(e)[:80]
                    r["class"] = self._classify_failure(live, r)
                    continue
                r["eval"] = self._passes(r["compiled"], ns, r)
                if r["eval"] is not True:
                    pending.append(r)
                    r["class"] = self._classify_failure(live, r)
        for recs in positions:
            for r in recs:
                r.pop("compiled", None)
                if "later" in r and r["class"].endswith("-assertion-fails"):
                    r["class"] = "shows-later-state"
        out = {"hist": True, "positions": positions, "codes": codes}
        line = None
        if modelled:
            te, globs = world_facts([list, tuple, set, dict, *enc.types.values()])
            line = vcommon.jdump({
                "op": "hist", "prec": cc.enc_float(case["prec"]), "lim": INT_LIMIT, "alias": ALIAS,
                "te": te, "ns": {"enums": [], "globals": globs, "pytest": True}, "positions": snaps})
        m._reset_((), ())
        return out, line

    @staticmethod
    def _passes(compiled, ns, rec=None):
        try:
            exec(compiled, dict(ns))  # noqa: S102 - our own rendered assertion
            return True
        except AssertionError:
            return False
        except Exception as e:
            if rec is not None:
                rec["detail"] = type(e).__name__ + ": " + str(e)[:60]
            return None

    # ------------------------------------------------------------------------------------------
    def _namespace(self, v, variant):
        import pytest
        m = sut_module()
        ns = {"var_0": v, ALIAS: m, "pytest": pytest}
        if variant == "bound":
            for name in ("Color", "Shade", "IntE", "StrE", "MixI", "Fl"):
                ns[name] = getattr(m, name)
        return ns

    def impl(self, case):
        import libcst as cst
        import pynguin.assertion.assertion_trace as at
        import pynguin.configuration as config
        from pynguin.assertion.assertion_to_ast import assertion_to_cst
        from pynguin.assertion.assertiontraceobserver import RemoteAssertionTraceObserver
        from pynguin.utils.type_utils import is_assertable
        if not hasattr(self, "_lines"):
            self._lines = {}
        if case.get("kind") == "hist":
            out, self._lines[id(case)] = self._impl_hist(case)
            return out
        config.configuration.module_name = SUT
        v = dec20(case["v"])
        out = {"assertable": bool(is_assertable(v)) and not isinstance(v, float)}
        try:
            out["actual"] = enc20(v)
        except NotModelled:
            out["actual"] = None
        obs = RemoteAssertionTraceObserver()
        trace = at.AssertionTrace()
        obs._check_value("var_0", v, 0, trace, depth=0, max_depth=0)
        assertions = list(trace.trace.get(0, []))
        for a in assertions:
            # the observer deep-copies the value; a copied set may iterate in another order (ties of the sort key)
            if type(a).__name__ == "ObjectAssertion" and out["actual"] is not None:
                out["actual"] = enc20(a.object)
        ns = self._namespace(v, case["ns"])
        res = []
        for a in assertions:
            kind = KIND[type(a).__name__]
            self.count("assertion:" + kind)
            r = {"kind": kind}
            try:
                node = assertion_to_cst(a, float_precision=case["prec"])
            except Exception as e:  # rendering must never fail
                r["err"] = type(e).__name__
                r["detail"] = str(e)[:80]
                res.append(r)
                continue
            r["stmt"] = stmt2j(node)
            code = cst.Module(body=[node]).code
            try:
                compiled = compile(code, "<assertion>", "exec")
                r["valid"] = True
            except (SyntaxError, ValueError) as e:
                r["valid"] = False
                r["eval"] = None
                r["detail"] = str(e)[:80]
                res.append(r)
                continue
            try:
                exec(compiled, dict(ns))  # noqa: S102 - our own rendered assertion
                r["eval"] = True
            except AssertionError:
                r["eval"] = False
            except Exception as e:
                r["eval"] = None
                r["detail"] = type(e).__name__ + ": " + str(e)[:60]
            res.append(r)
        out["assertions"] = res
        # environment facts for the model: the objects the qualified name of the value's type leads to
        out["te"], out["globals"] = world_facts([type(v)])
        if not hasattr(self, "_lines"):
            self._lines = {}
        self._lines[id(case)] = self._line(case, out)
        return out

    def model_line(self, case):
        # built from the same live objects as the implementation's output (set iteration order)
        if id(case) not in getattr(self, "_lines", {}):
            self.impl(case)
        return self._lines[id(case)]

    def _line(self, case, io):
        if io["actual"] is None:
            return None
        enums = ["Color", "Shade"] if case["ns"] == "bound" else []
        return vcommon.jdump({
            "op": "check", "v": io["actual"], "src": "var_0", "prec": cc.enc_float(case["prec"]), "lim": INT_LIMIT,
            "te": io["te"], "alias": ALIAS,
            "ns": {"enums": enums, "globals": io["globals"], "pytest": True}})

    def _compare_hist(self, io, mo):
        mp = mo.get("positions")
        if mp is None or len(mp) != len(io["positions"]):
            return False
        key = lambda r: (r.get("src"), r.get("kind"))  # noqa: E731
        for real, model in zip(io["positions"], mp):
            real, model = sorted(real, key=key), sorted(model, key=key)
            if [key(r) for r in real] != [key(r) for r in model]:
                return False
            for a, b in zip(real, model):
                if "err" in a:
                    if a["err"] == "ValueError":
                        if b.get("err") != "ValueError":
                            return False
                    elif b.get("valid") is not False:
                        return False
                    continue
                if ("err" in b or a["stmt"] != canon_stmt(b.get("stmt")) or a["valid"] != b.get("valid")
                        or a["eval"] != b.get("eval")):
                    return False
        return True

    def compare(self, case, io, mo):
        if io.get("hist"):
            return self._compare_hist(io, mo)
        if mo.get("assertable") != io["assertable"]:
            return False
        ma = mo.get("assertions")
        if ma is None or len(ma) != len(io["assertions"]):
            return False
        for a, b in zip(io["assertions"], ma):
            if a["kind"] != b.get("kind"):
                return False
            if "err" in a:
                # the implementation raised: ValueError = digit limit (model: err), CSTValidationError = invalid tree
                if a["err"] == "ValueError":
                    if b.get("err") != "ValueError":
                        return False
                elif b.get("valid") is not False:
                    return False
                continue
            if "err" in b or a["stmt"] != b.get("stmt") or a["valid"] != b.get("valid") or a["eval"] != b.get("eval"):
                return False
        return True

    # ------------------------------------------------------------------------------------------
    @staticmethod
    def _classify_failure(v, a):
        kind = a["kind"]
        leaves = list(safe_leaves(v))
        if kind == "float":
            if "err" in a:
                return "negative-zero-invalid-token" if cc.is_negzero(v) else "render-" + a["err"]
            return "nan-approx-false" if v != v else "float-assertion-fails"
        if kind == "object":
            if a.get("err") == "ValueError" and any(isinstance(x, int) and not isinstance(x, bool)
                                                    and abs(x) >= 10 ** INT_LIMIT for x in leaves):
                return "int-digits>4300"
            if any(isinstance(x, enum.Enum) and not plain_enum(x) for x in leaves) and ("err" in a or a.get("eval") is not True):
                return "enum-data-mixin-or-flag"
            if "err" in a:
                return "complex-invalid-token" if any(isinstance(x, complex) for x in leaves) else "render-" + a["err"]
            if a.get("eval") is None and any(isinstance(x, enum.Enum) for x in leaves):
                return "enum-class-not-bound"
            if a.get("eval") is False and any(isinstance(x, complex) and (x.real != x.real or x.imag != x.imag)
                                               for x in leaves):
                return "complex-nan-component"
            return "object-assertion-fails"
        if kind == "isinstance":
            return "type-name-denotes-another-class" if a.get("eval") is False else "type-not-resolvable"
        return kind + "-assertion-fails"

    def _oracle_hist(self, case, io):
        fs = []
        for i, recs in enumerate(io["positions"]):
            for r in recs:
                if "err" in r or not r.get("valid") or r.get("eval") is not True:
                    what = (f"test case {' ; '.join(io['codes'])[:400]}: assertion recorded for position {i} on "
                            f"{r['src']} (value there: {r.get('observed')}): "
                            + (f"rendering raised {r['err']} ({r.get('detail')})" if "err" in r else
                               f"`{r['code'].strip()[:200]}` → valid={r.get('valid')} passes={r.get('eval')} "
                               f"{r.get('detail', '')}")
                            + (f"; it holds only after statement {r['later']} (the expected value is that of a "
                               f"later state)" if "later" in r else ""))
                    fs.append(Failure({"kind": r["kind"], "class": r["class"]}, what))
        return fs

    def oracle(self, case, io):
        if io.get("hist"):
            return self._oracle_hist(case, io)
        if case["ns"] != "export":
            return []  # the property speaks about the exported file's namespace
        v = dec20(case["v"])
        fs = []
        for a in io["assertions"]:
            if "err" in a or not a.get("valid") or a.get("eval") is not True:
                cls = self._classify_failure(v, a)
                what = (f"{a['kind']} assertion on {str(case['v'])[:140]}: "
                        + (f"rendering raised {a['err']} ({a.get('detail')})" if "err" in a else
                           f"rendered {str(a.get('stmt'))[:160]} → valid={a.get('valid')} passes={a.get('eval')} "
                           f"{a.get('detail', '')}"))
                fs.append(Failure({"kind": a["kind"], "class": cls}, what))
        return fs

    def classify(self, case, io):
        if io.get("hist"):
            self.count("kind:hist")
            scripts = [st["script"] for st in case["stmts"] if "script" in st]
            inner = any(step[0] in ("append", "insert0", "pop", "setitem", "add", "clear", "link") and step[3]
                        for sc in scripts for step in sc)
            if inner:
                self.count("hist:inner-container-mutated-in-place")
            if any(step[0] == "link" or step[:2] == ["ret", "box"] for sc in scripts for step in sc):
                self.count("hist:shared-container")
            binds = [st["bind"] for st in case["stmts"] if "bind" in st]
            if any(b in REBOUND for b in binds):
                self.count("hist:variable-of-class-with-rebound-name")
            return vcommon.jdump(case["stmts"]) if scripts or binds else None
        v = case["v"]
        if isinstance(v, dict):
            (k, x), = v.items()
            if k in ("l", "t", "S", "d") and not x:
                return None
            if k == "i" and 0 <= int(x, 16) < 10 ** 6:
                return None
            if k in ("s", "b"):
                return None if all(c < 128 for c in x) else vcommon.jdump(v)
            self.count("kind:" + k)
            if k == "o" and x in REBOUND:
                self.count("kind:o:class-name-rebound")
            return vcommon.jdump([v, case["ns"]])
        return None

    # ------------------------------------------------------------------------------------------
    def witnesses(self):
        fs = []
        for v, sig in [
            ({"f": cc.enc_float(math.nan)}, {"kind": "float", "class": "nan-approx-false"}),
            (cc.enc(complex(math.nan, 1.0)), {"kind": "object", "class": "complex-nan-component"}),
            ({"e": ["Color", "RED"]}, {"kind": "object", "class": "enum-class-not-bound"}),
            ({"i": hex(10 ** INT_LIMIT)}, {"kind": "object", "class": "int-digits>4300"}),
            ({"e": ["StrE", "A"]}, {"kind": "object", "class": "enum-data-mixin-or-flag"}),
            ({"e": ["MixI", "A"]}, {"kind": "object", "class": "enum-data-mixin-or-flag"}),
            ({"e": ["Fl", "A|B"]}, {"kind": "object", "class": "enum-data-mixin-or-flag"}),
        ]:
            case = {"v": v, "ns": "export", "prec": 0.01}
            for f in self.oracle(case, self.impl(case)):
                if f.signature == sig:
                    f.case = case
                    fs.append(f)
        return fs


if __name__ == "__main__":
    run_main(C20)
