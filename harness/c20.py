"""C20 — rendered assertions are valid Python and hold for the observed value (DESIGN §5 C20).

One case = one observed value.  The real `RemoteAssertionTraceObserver._check_value` decides which
assertions to make (float / object / isinstance / type-name / length), the real
`assertion_to_cst` renders each of them, `libcst.Module(...).code` prints it, `compile` + `exec`
run it in the namespace of an exported test file (the module alias, `pytest`, the variable).
The Lean model (`Driver/C20.lean`) gets the same value and must produce the same assertions, the
same rendered trees, the same validity verdict and the same pass / fail / raise verdict.

Oracle (the property itself): every assertion renders without raising, compiles and passes on
the observed value in the exported-file namespace.
"""
from __future__ import annotations

import collections
import enum
import fractions
import math
import sys
import types

import vcommon
from vcommon import Failure, PropertyCheck, run_main

import c23_common as cc

SUT = "c20sut"
ALIAS = "c20sut_"
INT_LIMIT = sys.get_int_max_str_digits()

SUT_SOURCE = '''
import enum
class Color(enum.Enum):
    RED = 1
    GREEN = "g"
    BLUE = (1, 2)
class Shade(enum.Enum):
    DARK = 0
    light_1 = None
class IntE(enum.IntEnum):
    A = 3
    B = -3
class StrE(enum.StrEnum):
    A = "a"
class MixI(int, enum.Enum):
    A = 3
    B = -4
class Fl(enum.Flag):
    A = 1
    B = 2
class Plain:
    def __init__(self):
        self.x = 1
class WithLen:
    def __len__(self):
        return 3
class Outer:
    class Inner:
        def __len__(self):
            return 2
def make_local():
    class Loc:
        pass
    return Loc()
def gen():
    yield 1
'''

OPAQUE_KINDS = ["dict_keys", "function", "list_iterator", "range", "frozenset", "bytearray", "memoryview",
                "ellipsis", "object", "sut_plain", "sut_sized", "sut_nested", "sut_local", "fraction",
                "ordereddict", "deque", "generator", "module", "type", "notimplemented", "dict_values"]
PLAIN_ENUMS = [("Color", "RED"), ("Color", "GREEN"), ("Color", "BLUE"), ("Shade", "DARK"), ("Shade", "light_1")]
ODD_ENUMS = [("IntE", "A"), ("IntE", "B"), ("StrE", "A"), ("MixI", "A"), ("MixI", "B"), ("Fl", "A"), ("Fl", "A|B")]


def sut_module():
    m = sys.modules.get(SUT)
    if m is None:
        m = types.ModuleType(SUT)
        sys.modules[SUT] = m
        exec(SUT_SOURCE, m.__dict__)  # noqa: S102
    return m


def make_opaque(kind):
    m = sut_module()
    return {
        "dict_keys": lambda: {1: 2}.keys(), "function": lambda: m.make_local, "list_iterator": lambda: iter([1]),
        "range": lambda: range(3), "frozenset": lambda: frozenset({1, 2}), "bytearray": lambda: bytearray(b"ab"),
        "memoryview": lambda: memoryview(b"abc"), "ellipsis": lambda: Ellipsis, "object": object,
        "sut_plain": m.Plain, "sut_sized": m.WithLen, "sut_nested": m.Outer.Inner, "sut_local": m.make_local,
        "fraction": lambda: fractions.Fraction(1, 3), "ordereddict": lambda: collections.OrderedDict(a=1),
        "deque": lambda: collections.deque([1, 2]), "generator": lambda: m.gen(), "module": lambda: math,
        "type": lambda: int, "notimplemented": lambda: NotImplemented, "dict_values": lambda: {1: 2}.values(),
    }[kind]()


def dec20(j):
    """Case JSON → live Python value (c23 encodings + {"e": [cls, member]} + {"o": kind})."""
    if isinstance(j, dict):
        (k, x), = j.items()
        if k == "e":
            cls = getattr(sut_module(), x[0])
            if "|" in x[1]:
                out = None
                for part in x[1].split("|"):
                    out = cls[part] if out is None else out | cls[part]
                return out
            return cls[x[1]]
        if k == "o":
            return make_opaque(x)
        if k == "l":
            return [dec20(y) for y in x]
        if k == "t":
            return tuple(dec20(y) for y in x)
        if k == "S":
            return {dec20(y) for y in x}
        if k == "d":
            return {dec20(a): dec20(b) for a, b in x}
    return cc.dec(j)


def plain_enum(v) -> bool:
    return isinstance(v, enum.Enum) and type(v).__mro__[1] is enum.Enum and not isinstance(v, enum.Flag)


def enc20(v):
    """Live value → model JSON; returns None when the value contains something the model does not
    cover (an enum with a data mixin / a Flag)."""
    if isinstance(v, enum.Enum):
        if not plain_enum(v):
            raise NotModelled("enum with data mixin or Flag")
        return {"e": [type(v).__name__, v.name]}
    if v is None or isinstance(v, (bool, int, float, complex, str, bytes)):
        return cc.enc(v)
    t = type(v)
    if t is list:
        return {"l": [enc20(x) for x in v]}
    if t is tuple:
        return {"t": [enc20(x) for x in v]}
    if t is set:
        return {"S": [enc20(x) for x in v]}
    if t is dict:
        return {"d": [[enc20(k), enc20(x)] for k, x in v.items()]}
    ln = None
    if isinstance(v, collections.abc.Sized):
        ln = len(v)
    return {"obj": {"module": t.__module__, "qual": t.__qualname__.split("."), "len": ln}}


class NotModelled(Exception):
    pass


def stmt2j(node):
    """The rendered `assert` statement → the model's Stmt JSON."""
    import libcst as cst
    assert isinstance(node, cst.SimpleStatementLine) and len(node.body) == 1
    a = node.body[0]
    assert isinstance(a, cst.Assert) and a.msg is None
    t = a.test
    if isinstance(t, cst.Call) and isinstance(t.func, cst.Name) and t.func.value == "isinstance":
        assert len(t.args) == 2
        return {"k": "isinstance", "v": cc.cst2j(t.args[0].value), "ty": cc.cst2j(t.args[1].value)}
    assert isinstance(t, cst.Comparison) and len(t.comparisons) == 1
    tgt = t.comparisons[0]
    op = "is" if isinstance(tgt.operator, cst.Is) else "eq" if isinstance(tgt.operator, cst.Equal) else "?"
    c = tgt.comparator
    if isinstance(c, cst.Call) and isinstance(c.func, cst.Attribute) and cc.code_of(c.func) == "pytest.approx":
        assert op == "eq" and [x.keyword.value if x.keyword else None for x in c.args] == [None, "abs", "rel"]
        return {"k": "approx", "l": cc.cst2j(t.left), "v": cc.cst2j(c.args[0].value),
                "a": cc.cst2j(c.args[1].value), "r": cc.cst2j(c.args[2].value)}
    if isinstance(t.left, cst.FormattedString):
        code = cc.code_of(t.left)
        var = code[len('f"{type('):code.index(").__module__}")]
        assert code == 'f"{type(%s).__module__}.{type(%s).__qualname__}"' % (var, var) and op == "eq"
        return {"k": "typeName", "v": cc.cst2j(cst.parse_expression(var)), "expected": c.evaluated_value}
    if isinstance(t.left, cst.Call) and isinstance(t.left.func, cst.Name) and t.left.func.value == "len":
        assert op == "eq" and len(t.left.args) == 1
        return {"k": "len", "v": cc.cst2j(t.left.args[0].value), "n": cc.cst2j(c)}
    return {"k": "cmp", "l": cc.cst2j(t.left), "op": op, "r": cc.cst2j(c)}


KIND = {"FloatAssertion": "float", "ObjectAssertion": "object", "TypeNameAssertion": "typeName",
        "IsInstanceAssertion": "isinstance", "CollectionLengthAssertion": "len"}


class C20(PropertyCheck):
    prop_id = "C20"
    prop_modules = ["PynguinModel.Props.C20"]
    extra_modules = ["PynguinModel.Model.AssertRender"]
    driver = "Driver/C20.lean"
    n_quick = 4000
    n_thorough = 100000
    n_search = 30000
    rule = ("random observed values: nested lists/tuples/sets/dicts (depth ≤ 6, so also beyond is_assertable's "
            "limit), ints up to 4500 digits, all float specials/subnormals/random bit patterns, str/bytes with "
            "arbitrary code points, complex, plain / mixin / Flag enum members, 21 kinds of non-assertable objects "
            "(unbound builtin types, module-level / nested / function-local SUT classes, foreign types); "
            "non-trivial = distinct value that is a collection, a float, a complex, an enum, an object, or a "
            "negative / huge int")
    assumptions = [
        "repr/str of a finite float and float(text), repr / evaluated_value of str and bytes are inverse "
        "(checked on every sample through exec of the printed code)",
        "the namespace of an exported test file binds the module alias, pytest and the test's variables",
        "enum members with a data mixin (IntEnum, StrEnum, int/str mixins) and Flag composites are not "
        "modelled (checked by the oracle only)",
        "assertion sources are plain variable names (dotted attribute paths are not modelled)",
    ]

    # ------------------------------------------------------------------------------------------
    def gen_case(self, rng):
        r = rng.random()
        if r < 0.12:
            v = {"f": cc.enc_float(cc.rand_float(rng))}
        elif r < 0.22:
            v = {"o": rng.choice(OPAQUE_KINDS)}
        else:
            v = self._rand(rng, rng.choice([0, 0, 1, 2, 3, 4, 5, 6]), hashable=False)
        return {"v": v, "ns": "export" if rng.random() < 0.7 else "bound",
                "prec": rng.choice([0.01, 0.01, 0.01, 0.5, 1e-9, 0.0, 3.0])}

    def _scalar(self, rng, hashable):
        r = rng.random()
        if r < 0.10:
            return None
        if r < 0.20:
            return rng.random() < 0.5
        if r < 0.40:
            return cc.enc(cc.rand_int(rng))
        if r < 0.50:
            return cc.enc(cc.rand_str(rng))
        if r < 0.58:
            return cc.enc(cc.rand_bytes(rng))
        if r < 0.70:
            return cc.enc(complex(cc.rand_float(rng), cc.rand_float(rng)))
        if r < 0.84:
            return {"e": list(rng.choice(PLAIN_ENUMS))}
        if r < 0.88:
            return {"e": list(rng.choice(ODD_ENUMS))}
        if r < 0.95:
            return cc.enc(cc.rand_float(rng))  # makes the enclosing collection non-assertable
        if hashable:
            return {"o": rng.choice(["frozenset", "range", "ellipsis", "object", "fraction", "type"])}
        return {"o": rng.choice(OPAQUE_KINDS)}

    def _rand(self, rng, depth, hashable):
        if depth <= 0 or rng.random() < 0.3:
            return self._scalar(rng, hashable)
        k = rng.choice(["t"] if hashable else ["l", "t", "S", "d"])
        n = rng.choice([0, 1, 1, 2, 3])
        if depth >= 5:
            n = max(n, 1)
        if k == "l":
            return {"l": [self._rand(rng, depth - 1, False) for _ in range(n)]}
        if k == "t":
            return {"t": [self._rand(rng, depth - 1, hashable) for _ in range(n)]}
        if k == "S":
            return {"S": [self._rand(rng, depth - 1, True) for _ in range(n)]}
        return {"d": [[self._rand(rng, depth - 1, True), self._rand(rng, depth - 1, False)] for _ in range(n)]}

    # ------------------------------------------------------------------------------------------
    def _namespace(self, v, variant):
        import pytest
        m = sut_module()
        ns = {"var_0": v, ALIAS: m, "pytest": pytest}
        if variant == "bound":
            for name in ("Color", "Shade", "IntE", "StrE", "MixI", "Fl"):
                ns[name] = getattr(m, name)
        return ns

    def impl(self, case):
        import libcst as cst
        import pynguin.assertion.assertion_trace as at
        import pynguin.configuration as config
        from pynguin.assertion.assertion_to_ast import assertion_to_cst
        from pynguin.assertion.assertiontraceobserver import RemoteAssertionTraceObserver
        from pynguin.utils.type_utils import is_assertable
        config.configuration.module_name = SUT
        v = dec20(case["v"])
        out = {"assertable": bool(is_assertable(v)) and not isinstance(v, float)}
        try:
            out["actual"] = enc20(v)
        except NotModelled:
            out["actual"] = None
        obs = RemoteAssertionTraceObserver()
        trace = at.AssertionTrace()
        obs._check_value("var_0", v, 0, trace, depth=0, max_depth=0)
        assertions = list(trace.trace.get(0, []))
        for a in assertions:
            # the observer deep-copies the value; a copied set may iterate in another order
            if type(a).__name__ == "ObjectAssertion" and out["actual"] is not None:
                out["actual"] = enc20(a.object)
        ns = self._namespace(v, case["ns"])
        res = []
        for a in assertions:
            kind = KIND[type(a).__name__]
            self.count("assertion:" + kind)
            r = {"kind": kind}
            try:
                node = assertion_to_cst(a, float_precision=case["prec"])
            except Exception as e:  # rendering must never fail
                r["err"] = type(e).__name__
                r["detail"] = str(e)[:80]
                res.append(r)
                continue
            r["stmt"] = stmt2j(node)
            code = cst.Module(body=[node]).code
            try:
                compiled = compile(code, "<assertion>", "exec")
                r["valid"] = True
            except (SyntaxError, ValueError) as e:
                r["valid"] = False
                r["eval"] = None
                r["detail"] = str(e)[:80]
                res.append(r)
                continue
            try:
                exec(compiled, dict(ns))  # noqa: S102 - our own rendered assertion
                r["eval"] = True
            except AssertionError:
                r["eval"] = False
            except Exception as e:
                r["eval"] = None
                r["detail"] = type(e).__name__ + ": " + str(e)[:60]
            res.append(r)
        out["assertions"] = res
        # environment facts for the model: does the rendered type path reach the type here?
        t = type(v)
        tid = {"module": t.__module__, "qual": t.__qualname__.split(".")}
        path = t.__qualname__ if t.__module__ == "builtins" else ALIAS + "." + t.__qualname__
        try:
            reaches = eval(path, dict(ns)) is t  # noqa: S307
        except Exception:
            reaches = False
        out["type"] = tid
        out["resolves"] = reaches
        out["path"] = [t.__qualname__] if t.__module__ == "builtins" else [ALIAS, *t.__qualname__.split(".")]
        if not hasattr(self, "_lines"):
            self._lines = {}
        self._lines[id(case)] = self._line(case, out)
        return out

    def model_line(self, case):
        # built from the same live objects as the implementation's output (set iteration order)
        if id(case) not in getattr(self, "_lines", {}):
            self.impl(case)
        return self._lines[id(case)]

    def _line(self, case, io):
        if io["actual"] is None:
            return None
        enums = ["Color", "Shade"] if case["ns"] == "bound" else []
        return vcommon.jdump({
            "op": "check", "v": io["actual"], "src": "var_0", "prec": cc.enc_float(case["prec"]), "lim": INT_LIMIT,
            "te": {"moduleName": SUT, "resolves": [io["type"]] if io["resolves"] else []}, "alias": ALIAS,
            "ns": {"enums": enums, "types": [[io["path"], io["type"]]] if io["resolves"] else [], "pytest": True}})

    def compare(self, case, io, mo):
        if mo.get("assertable") != io["assertable"]:
            return False
        ma = mo.get("assertions")
        if ma is None or len(ma) != len(io["assertions"]):
            return False
        for a, b in zip(io["assertions"], ma):
            if a["kind"] != b.get("kind"):
                return False
            if "err" in a:
                # the implementation raised: ValueError = digit limit (model: err), CSTValidationError = invalid tree
                if a["err"] == "ValueError":
                    if b.get("err") != "ValueError":
                        return False
                elif b.get("valid") is not False:
                    return False
                continue
            if "err" in b or a["stmt"] != b.get("stmt") or a["valid"] != b.get("valid") or a["eval"] != b.get("eval"):
                return False
        return True

    # ------------------------------------------------------------------------------------------
    @staticmethod
    def _classify_failure(v, a):
        kind = a["kind"]
        leaves = list(cc.leaves(v))
        if kind == "float":
            if "err" in a:
                return "negative-zero-invalid-token" if cc.is_negzero(v) else "render-" + a["err"]
            return "nan-approx-false" if v != v else "float-assertion-fails"
        if kind == "object":
            if a.get("err") == "ValueError" and any(isinstance(x, int) and not isinstance(x, bool)
                                                    and abs(x) >= 10 ** INT_LIMIT for x in leaves):
                return "int-digits>4300"
            if any(isinstance(x, enum.Enum) and not plain_enum(x) for x in leaves) and ("err" in a or a.get("eval") is not True):
                return "enum-data-mixin-or-flag"
            if "err" in a:
                return "complex-invalid-token" if any(isinstance(x, complex) for x in leaves) else "render-" + a["err"]
            if a.get("eval") is None and any(isinstance(x, enum.Enum) for x in leaves):
                return "enum-class-not-bound"
            if a.get("eval") is False and any(isinstance(x, complex) and (x.real != x.real or x.imag != x.imag)
                                               for x in leaves):
                return "complex-nan-component"
            return "object-assertion-fails"
        if kind == "isinstance":
            return "type-not-resolvable"
        return kind + "-assertion-fails"

    def oracle(self, case, io):
        if case["ns"] != "export":
            return []  # the property speaks about the exported file's namespace
        v = dec20(case["v"])
        fs = []
        for a in io["assertions"]:
            if "err" in a or not a.get("valid") or a.get("eval") is not True:
                cls = self._classify_failure(v, a)
                what = (f"{a['kind']} assertion on {str(case['v'])[:140]}: "
                        + (f"rendering raised {a['err']} ({a.get('detail')})" if "err" in a else
                           f"rendered {str(a.get('stmt'))[:160]} → valid={a.get('valid')} passes={a.get('eval')} "
                           f"{a.get('detail', '')}"))
                fs.append(Failure({"kind": a["kind"], "class": cls}, what))
        return fs

    def classify(self, case, io):
        v = case["v"]
        if isinstance(v, dict):
            (k, x), = v.items()
            if k in ("l", "t", "S", "d") and not x:
                return None
            if k == "i" and 0 <= int(x, 16) < 10 ** 6:
                return None
            if k in ("s", "b"):
                return None if all(c < 128 for c in x) else vcommon.jdump(v)
            self.count("kind:" + k)
            return vcommon.jdump([v, case["ns"]])
        return None

    # ------------------------------------------------------------------------------------------
    def witnesses(self):
        fs = []
        for v, sig in [
            ({"f": cc.enc_float(math.nan)}, {"kind": "float", "class": "nan-approx-false"}),
            (cc.enc(complex(math.nan, 1.0)), {"kind": "object", "class": "complex-nan-component"}),
            ({"e": ["Color", "RED"]}, {"kind": "object", "class": "enum-class-not-bound"}),
            ({"i": hex(10 ** INT_LIMIT)}, {"kind": "object", "class": "int-digits>4300"}),
            ({"e": ["StrE", "A"]}, {"kind": "object", "class": "enum-data-mixin-or-flag"}),
            ({"e": ["MixI", "A"]}, {"kind": "object", "class": "enum-data-mixin-or-flag"}),
            ({"e": ["Fl", "A|B"]}, {"kind": "object", "class": "enum-data-mixin-or-flag"}),
        ]:
            case = {"v": v, "ns": "export", "prec": 0.01}
            for f in self.oracle(case, self.impl(case)):
                if f.signature == sig:
                    f.case = case
                    fs.append(f)
        return fs


if __name__ == "__main__":
    run_main(C20)
