"""C01 — instrumentation does not change the behaviour of the module under test (DESIGN §5 C01).

Tie 1 (translator, `translate()`): on every run the snippet shapes the live adapters emit are
recorded by wrapping the live `InstrumentationInstructionsGenerator.generate_instructions /
generate_overriding_instructions` while instrumenting a fixed corpus under all 2^3 metric subsets
with dynamic seeding, the instructions are re-generated from the live generator, translated to the
ops of `Model/StackMachine.lean` and written to `Generated/C01Snippets.lean` (`usedItems`), together
with the canonical use of every `InstrumentationSetupAction` for every generator class of
`version/python3_1x.py` (`enumItems`; non-live versions are extracted with a stub `ArtificialInstr`).
`Props/C01.lean` `decide`s that every used shape is neutral + observe-only and every enum action is
stack-neutral, and proves what that implies for ALL stacks/worlds/instruction sequences.

Tie 2 (correspondence, kind "snippet"): the live generator's instructions for a shape are assembled
into a real code object and executed by CPython on token objects (with a recording callback object
and recording operands for the overridden original instruction); the Lean stack machine must predict
the final stack, the callback events with their arguments, the operands the original instruction
saw, and the exception.

Tie 2b (correspondence, kinds "pred" and "prov"): the Python side of the instrumentation, modelled in
`Model/Callbacks.lean`.  "pred": the real `ExecutionTracer.executed_compare_predicate` /
`executed_bool_predicate` on fresh operands with programmable (partial, raising) comparison / truth /
membership protocols; the outcomes of the comparison and of the distance estimate are measured with
pynguin's own `_COMPARISONS` entries on a second set of operands, the model predicts what the callback
records or raises; oracle: the callback raises only what the module's own operation raises.  "prov": the
real `DynamicConstantProvider.add_value*` entry points on operands of plain / subclass / enum / unrelated
classes whose dunders and str methods log or raise; the model predicts the user calls (none) and the pool
additions; oracle: no operator of an operand's class runs, nothing is raised.

Tie 3 / oracle (kind "prog"): the property itself.  Modules (adversarial templates, random programs
of harness/progen.py, sources of pure-Python stdlib modules) are imported plain and through
pynguin's real import hook under all 2^3 metric subsets with a DynamicConstantProvider (as
`install_import_hook` always does); every call is compared on return value / exception type /
stdout / argument state / module globals.  While instrumenting, every emitted shape must be in the
generated table and every frame read of an inserted snippet must be licensed by its neighbour
instruction (placement).
"""
from __future__ import annotations

import contextlib
import hashlib
import importlib
import io
import itertools
import json
import os
import shutil
import sys
import tempfile
import types
from pathlib import Path

import vcommon
from vcommon import Failure, PropertyCheck, run_main

GEN_PATH = vcommon.LEAN / "PynguinModel" / "Generated" / "C01Snippets.lean"
SUBSETS = [(), ("BRANCH",), ("LINE",), ("CHECKED",), ("BRANCH", "LINE"), ("BRANCH", "CHECKED"),
           ("LINE", "CHECKED"), ("BRANCH", "LINE", "CHECKED")]


def subset_name(ms) -> str:
    return "".join(m[0] for m in ms) or "-"


class TranslationError(Exception):
    """The live generator emitted something the model's op set cannot express."""


# =================================================================================================
# shapes <-> live instructions <-> model ops
# =================================================================================================
ENV_KINDS = {"fast": 0, "name": 1, "global": 2, "deref": 3, "classderef": 4}

#: canonical use of every setup action (args, overridden opcode or None); the depth the placement
#: guarantees is 0/1/2 for inserting uses and the pops of the overridden instruction otherwise
CANONICAL = {
    "NO_ACTION": (("const",), None),
    "COPY_FIRST": (("stack1", "const"), None),
    "COPY_FIRST_TWO": (("stack2", "stack1", "const"), None),
    "COPY_SECOND": (("const", "stack1"), None),
    "COPY_FIRST_SHIFT_DOWN_TWO": (("const", "stack1"), "STORE_ATTR"),
    "COPY_SECOND_SHIFT_DOWN_TWO": (("const", "stack1"), "DELETE_SUBSCR"),
    "COPY_SECOND_SHIFT_DOWN_THREE": (("const", "stack1"), "STORE_SUBSCR"),
    "COPY_THIRD_SHIFT_DOWN_THREE": (("const", "stack1"), "STORE_SUBSCR"),
    "COPY_THIRD_SHIFT_DOWN_FOUR": (("const", "stack1"), "STORE_SLICE"),
    "ADD_FIRST_TWO": (("stack1",), None),
    "ADD_FIRST_TWO_REVERSED": (("stack1",), None),
    "COPY_THIRD": (("const", "stack1"), None),
}
INSERT_DEPTH = {"NO_ACTION": 0, "COPY_FIRST": 1, "COPY_FIRST_TWO": 2, "COPY_SECOND": 2, "COPY_THIRD": 3,
                "ADD_FIRST_TWO": 2, "ADD_FIRST_TWO_REVERSED": 2}
#: (pops, pushes) of the overridden instructions, used ONLY for generator classes of other Python
#: versions (their `stack_effects` cannot be evaluated on this interpreter); for the live version
#: pynguin's own `version.stack_effects` is read
ORIG_EFFECTS = {"STORE_ATTR": (2, 0), "DELETE_SUBSCR": (2, 0), "STORE_SUBSCR": (3, 0),
                "BINARY_SLICE": (3, 1), "STORE_SLICE": (4, 0), "BINARY_SUBSCR": (2, 1),
                "DELETE_ATTR": (1, 0)}
VERSION_MODULES = ["python3_10", "python3_11", "python3_12", "python3_13", "python3_14"]


class _StubInstr:
    """Stands in for `cf.ArtificialInstr` when a generator of another Python version is read."""

    def __init__(self, name, arg=None, lineno=None):
        self.name, self.arg, self.lineno = name, arg, lineno


class _OrigStub:
    def __init__(self, name):
        self.name, self.arg, self.lineno = name, None, None


def shape_key(shape) -> str:
    return vcommon.jdump([shape["gen"], shape["action"], list(shape["args"]), shape["override"]])


def _mk_args(shape, common, live=True):
    """Argument objects of an InstrumentationMethodCall for a shape (fresh unique constants)."""
    out, consts = [], []
    if live:
        from bytecode import CellVar
    else:
        CellVar = lambda n: n  # noqa: E731, N806
    names = iter(["vx", "vy", "vz", "vw"])
    for k in shape["args"]:
        if k == "const":
            v = f"K{len(consts)}"
            consts.append(v)
            out.append(common.InstrumentationConstantLoad(value=v))
        elif k == "stack1":
            out.append(common.InstrumentationStackValue.FIRST)
        elif k == "stack2":
            out.append(common.InstrumentationStackValue.SECOND)
        elif k == "fast":
            out.append(common.InstrumentationFastLoad(name=next(names)))
        elif k == "fasttuple":
            out.append(common.InstrumentationFastLoadTuple(names=(next(names), next(names))))
        elif k == "name":
            out.append(common.InstrumentationNameLoad(name=next(names)))
        elif k == "global":
            out.append(common.InstrumentationGlobalLoad(name=next(names)))
        elif k == "deref":
            out.append(common.InstrumentationDeref(name=CellVar(next(names))))
        elif k == "classderef":
            out.append(common.InstrumentationClassDeref(name=CellVar(next(names))))
        else:
            raise TranslationError(f"unknown argument kind {k}")
    return tuple(out)


def generator_classes():
    """{class name: (class, module name, live?)} for every generator class of version/python3_1x."""
    import pynguin.instrumentation.version as version
    live = {a.instructions_generator for a in (version.BranchCoverageInstrumentation,
                                               version.LineCoverageInstrumentation,
                                               version.CheckedCoverageInstrumentation,
                                               version.DynamicSeedingInstrumentation)}
    if len(live) != 1:
        raise TranslationError(f"the adapters use different generator classes: {live}")
    out = {}
    for mn in VERSION_MODULES:
        try:
            mod = importlib.import_module(f"pynguin.instrumentation.version.{mn}")
        except Exception:  # noqa: BLE001 - not importable on this interpreter
            continue
        for n, c in vars(mod).items():
            if isinstance(c, type) and n.endswith("InstrumentationInstructionsGenerator") \
                    and c.__module__ == mod.__name__:
                out[n] = (c, mn, c in live)
    return out


def live_instructions(shape, self_obj, gencls=None):
    """The instruction tuple the generator class emits for a shape (+ the overridden instr)."""
    import pynguin.instrumentation.controlflow as cf
    import pynguin.instrumentation.version.common as common
    classes = generator_classes()
    cls, modname, live = classes[shape["gen"]] if gencls is None else gencls
    action = getattr(common.InstrumentationSetupAction, shape["action"])
    call = common.InstrumentationMethodCall(self_obj, "cb", _mk_args(shape, common, live))
    if not live:
        # other versions: opcode names unknown to `bytecode` on this interpreter -> stub class
        real = cf.ArtificialInstr
        cf.ArtificialInstr = _StubInstr
    try:
        if shape["override"] is None:
            return cls.generate_instructions(action, call, 1), None
        if live:
            from bytecode import Instr
            name = shape["override"]
            orig = Instr(name, "attr", lineno=1) if name in ("STORE_ATTR", "DELETE_ATTR") else Instr(name, lineno=1)
        else:
            orig = _OrigStub(shape["override"])
        return cls.generate_overriding_instructions(action, orig, call, 1), orig
    finally:
        if not live:
            cf.ArtificialInstr = real


def to_ops(instrs, orig, self_obj, live: bool):
    """Translate an instruction tuple to model ops. Returns (pre, orig_op|None, post, info)."""
    consts: list = []
    names: list = []
    env: list = []

    def cid(v):
        for i, c in enumerate(consts):
            if c is v or (type(c) is type(v) and not isinstance(v, (types.FunctionType,)) and c == v
                          and isinstance(v, (str, int, bool, type(None)))):
                return i
        consts.append(v)
        return len(consts) - 1

    def nid(n):
        n = getattr(n, "name", n)
        if n not in names:
            names.append(n)
        return names.index(n)

    cid(self_obj)
    ops, split = [], None
    for ins in instrs:
        if orig is not None and ins is orig:
            if live:
                import pynguin.instrumentation.version as version
                eff = version.stack_effects(ins.opcode, ins.arg if isinstance(ins.arg, int) else None)
                p, q = int(eff.pops), int(eff.pushes)
            else:
                p, q = ORIG_EFFECTS[ins.name]
            split = len(ops)
            ops.append({"orig": {"id": 1, "p": p, "q": q, "raises": False}})
            continue
        n, a = ins.name, ins.arg
        if n == "COPY":
            ops.append({"copy": {"n": int(a)}})
        elif n == "SWAP":
            ops.append({"swap": {"n": int(a)}})
        elif n == "POP_TOP":
            ops.append("popTop")
        elif n == "LOAD_CONST":
            ops.append({"loadConst": {"c": cid(a)}})
        elif n == "LOAD_ATTR" and isinstance(a, tuple) and a[0] is True:
            ops.append({"loadMethod": {"name": nid(a[1])}})
        elif n == "LOAD_METHOD":
            ops.append({"loadMethod": {"name": nid(a)}})
        elif n in ("CALL", "CALL_METHOD"):
            ops.append({"call": {"n": int(a)}})
        elif n == "PRECALL":
            ops.append({"precall": {"n": int(a)}})
        elif n == "LOAD_FAST":
            env.append((0, nid(a)))
            ops.append({"loadEnv": {"kind": 0, "name": nid(a)}})
        elif n == "LOAD_FAST_LOAD_FAST":
            for x in a:
                env.append((0, nid(x)))
                ops.append({"loadEnv": {"kind": 0, "name": nid(x)}})
        elif n == "LOAD_NAME":
            env.append((1, nid(a)))
            ops.append({"loadEnv": {"kind": 1, "name": nid(a)}})
        elif n == "LOAD_GLOBAL":
            if isinstance(a, tuple):
                if a[0] is not False:
                    raise TranslationError(f"LOAD_GLOBAL pushing NULL: {a}")
                a = a[1]
            env.append((2, nid(a)))
            ops.append({"loadEnv": {"kind": 2, "name": nid(a)}})
        elif n == "LOAD_DEREF":
            env.append((3, nid(a)))
            ops.append({"loadEnv": {"kind": 3, "name": nid(a)}})
        elif n == "LOAD_CLASSDEREF":
            env.append((4, nid(a)))
            ops.append({"loadEnv": {"kind": 4, "name": nid(a)}})
        elif n == "LOAD_LOCALS":
            ops.append("loadLocals")
        elif n == "LOAD_FROM_DICT_OR_DEREF":
            env.append((4, nid(a)))
            ops.append({"loadFromDictOrDeref": {"name": nid(a)}})
        elif n == "BUILD_TUPLE" and a == 2:
            ops.append("buildTuple2")
        elif (n == "BINARY_OP" and int(a) == 0) or n == "BINARY_ADD":
            ops.append("binaryOp")
        elif n == "DUP_TOP":
            ops.append("dupTop")
        elif n == "DUP_TOP_TWO":
            ops.append("dupTopTwo")
        elif n == "ROT_TWO":
            ops.append("rotTwo")
        elif n == "ROT_THREE":
            ops.append("rotThree")
        elif n == "ROT_FOUR":
            ops.append("rotFour")
        else:
            raise TranslationError(f"instruction {n} {a!r} is outside the modelled op set")
    info = {"consts": consts, "names": names, "env": env}
    if split is None:
        return ops, None, [], info
    return ops[:split], ops[split], ops[split + 1:], info


def shape_depth(shape, orig_op) -> int:
    if shape["override"] is None:
        if shape["action"] not in INSERT_DEPTH:
            raise TranslationError(f"{shape['action']} used without an overridden instruction")
        return INSERT_DEPTH[shape["action"]]
    return orig_op["orig"]["p"]


def shape_item(shape, self_obj="SELF"):
    """The model `Item` (JSON form) of a shape, from the live generator."""
    classes = generator_classes()
    live = classes[shape["gen"]][2]
    instrs, orig = live_instructions(shape, self_obj)
    pre, oop, post, info = to_ops(instrs, orig, self_obj, live)
    k = shape_depth(shape, oop)
    lic = sorted(set(info["env"]))
    if oop is None:
        item = {"snip": {"ops": pre, "k": k, "lic": [list(x) for x in lic]}}
    else:
        o = oop["orig"]
        item = {"over": {"pre": pre, "post": post, "id": o["id"], "p": o["p"], "q": o["q"], "raises": False,
                         "k": k, "lic": [list(x) for x in lic]}}
    return item, info


# ---- Lean rendering -------------------------------------------------------------------------------
def lean_op(op) -> str:
    if isinstance(op, str):
        return "." + op
    (k, v), = op.items()
    if k == "orig":
        return f".orig {v['id']} {v['p']} {v['q']} {'true' if v['raises'] else 'false'}"
    return f".{k} " + " ".join(str(x) for x in v.values())


def lean_ops(ops) -> str:
    return "[" + ", ".join(lean_op(o) for o in ops) + "]"


def lean_item(item) -> str:
    (k, v), = item.items()
    lic = "[" + ", ".join(f"({a}, {b})" for a, b in v["lic"]) + "]"
    if k == "snip":
        return f".snip {lean_ops(v['ops'])} {v['k']} {lic}"
    return (f".over {lean_ops(v['pre'])} {lean_ops(v['post'])} {v['id']} {v['p']} {v['q']} false "
            f"{v['k']} {lic}")


# =================================================================================================
# recording what the live adapters emit
# =================================================================================================
def _arg_kind(arg, common) -> str:
    if isinstance(arg, common.InstrumentationStackValue):
        return "stack1" if arg == common.InstrumentationStackValue.FIRST else "stack2"
    return {common.InstrumentationConstantLoad: "const", common.InstrumentationFastLoad: "fast",
            common.InstrumentationFastLoadTuple: "fasttuple", common.InstrumentationNameLoad: "name",
            common.InstrumentationGlobalLoad: "global", common.InstrumentationDeref: "deref",
            common.InstrumentationClassDeref: "classderef"}[type(arg)]


class Recorder:
    """Wraps the live generator's two entry points; records every emitted shape."""

    def __init__(self):
        self.shapes: dict[str, dict] = {}
        self.unlicensed: list[str] = []
        self._saved = None

    def __enter__(self):
        import pynguin.instrumentation.version.common as common
        classes = generator_classes()
        (name, (cls, _, _)), = [(n, v) for n, v in classes.items() if v[2]]
        rec = self
        orig_gi = cls.generate_instructions.__func__
        orig_go = cls.generate_overriding_instructions.__func__
        self._saved = (cls, "generate_instructions" in vars(cls), "generate_overriding_instructions" in vars(cls),
                       vars(cls).get("generate_instructions"), vars(cls).get("generate_overriding_instructions"))

        def note(action, call, override):
            shape = {"gen": name, "action": action.name,
                     "args": [_arg_kind(a, common) for a in call.args], "override": override}
            rec.shapes.setdefault(shape_key(shape), shape)
            # frame reads must name what the instrumented instruction itself accesses
            fr = sys._getframe(2)
            instr = fr.f_locals.get("instr")
            own = set()
            if instr is not None:
                a = instr.arg
                for x in (a if isinstance(a, tuple) else (a,)):
                    x = getattr(x, "name", x)
                    if isinstance(x, str):
                        own.add(x)
            for a in call.args:
                for nm in (getattr(a, "names", None) or ([a.name] if hasattr(a, "name") and not
                                                       isinstance(a, common.InstrumentationStackValue) else [])):
                    if getattr(nm, "name", nm) not in own:
                        rec.unlicensed.append(f"{action.name}: reads {nm!r} next to {instr!r}")

        def gi(c, action, call, lineno):
            note(action, call, None)
            return orig_gi(c, action, call, lineno)

        def go(c, action, instr, call, lineno):
            note(action, call, instr.name)
            return orig_go(c, action, instr, call, lineno)

        cls.generate_instructions = classmethod(gi)
        cls.generate_overriding_instructions = classmethod(go)
        return self

    def __exit__(self, *exc):
        cls, had_gi, had_go, old_gi, old_go = self._saved
        if had_gi:
            cls.generate_instructions = old_gi
        else:
            del cls.generate_instructions
        if had_go:
            cls.generate_overriding_instructions = old_go
        else:
            del cls.generate_overriding_instructions


_counter = itertools.count()


def import_instrumented(src: str, metrics, tmp: str):
    """Import `src` through pynguin's real import hook (seeding always on, as install_import_hook
    does). Returns (module | None, SubjectProperties, import outcome, stdout)."""
    import pynguin.configuration as config
    from pynguin.analyses.constants import ConstantPool, DynamicConstantProvider, EmptyConstantProvider
    from pynguin.instrumentation.machinery import install_import_hook
    from pynguin.instrumentation.tracer import SubjectProperties

    name = f"c01sut_{os.getpid()}_{next(_counter)}"
    Path(tmp, name + ".py").write_text(src, encoding="utf-8")
    sp = SubjectProperties()
    cm = {getattr(config.CoverageMetric, m) for m in metrics}
    tc = config.ToCoverConfiguration()
    dcp = DynamicConstantProvider(ConstantPool(), EmptyConstantProvider(), probability=0,
                                  max_constant_length=50)
    buf = io.StringIO()
    sys.path.insert(0, tmp)
    mod, out = None, ["ok"]
    try:
        with install_import_hook(name, sp, coverage_metrics=cm, to_cover_config=tc,
                                 dynamic_constant_provider=dcp):
            with sp.instrumentation_tracer, contextlib.redirect_stdout(buf):
                try:
                    mod = importlib.import_module(name)
                except Exception as e:  # noqa: BLE001 - the outcome of the import is data
                    out = ["err", type(e).__name__, str(e)[:160]]
    finally:
        sys.path.remove(tmp)
        sys.modules.pop(name, None)
    return mod, sp, out, buf.getvalue()


def import_plain(src: str, tmp: str):
    name = f"c01plain_{os.getpid()}_{next(_counter)}"
    Path(tmp, name + ".py").write_text(src, encoding="utf-8")
    buf = io.StringIO()
    sys.path.insert(0, tmp)
    mod, out = None, ["ok"]
    try:
        with contextlib.redirect_stdout(buf):
            try:
                mod = importlib.import_module(name)
            except Exception as e:  # noqa: BLE001
                out = ["err", type(e).__name__, str(e)[:160]]
    finally:
        sys.path.remove(tmp)
        sys.modules.pop(name, None)
    return mod, out, buf.getvalue()


def placement_violations(sp) -> list[str]:
    """Frame reads of inserted instructions must be licensed by the neighbouring original
    instruction: after a LOAD_*/STORE_* of the same name, or before a DELETE_*; and the neighbour must
    itself need the name bound.  Entries starting with "UNBOUND" are reads of a local that may be
    unbound at that point (next to LOAD_FAST_AND_CLEAR / the STORE_FAST that restores it): CPython's
    unchecked LOAD_FAST then pushes NULL and the interpreter crashes."""
    import pynguin.instrumentation.controlflow as cf
    from bytecode import Instr
    bad = []
    loads = ("LOAD_FAST", "LOAD_NAME", "LOAD_GLOBAL", "LOAD_DEREF", "LOAD_FROM_DICT_OR_DEREF", "LOAD_CLASSDEREF")

    def nm(a):
        if isinstance(a, tuple):
            a = a[-1]
        return getattr(a, "name", a)

    for cid, meta in sp.existing_code_objects.items():
        cleared = {nm(i.arg) for node in meta.cfg.basic_block_nodes for i in node.basic_block
                   if isinstance(i, Instr) and i.name == "LOAD_FAST_AND_CLEAR"}
        for node in meta.cfg.basic_block_nodes:
            block = [i for i in node.basic_block if isinstance(i, Instr)]
            for idx, ins in enumerate(block):
                if not isinstance(ins, cf.ArtificialInstr) or ins.name not in loads:
                    continue
                name = nm(ins.arg)
                prev = next((b for b in reversed(block[:idx]) if not isinstance(b, cf.ArtificialInstr)), None)
                nxt = next((b for b in block[idx + 1:] if not isinstance(b, cf.ArtificialInstr)), None)
                where = (f"code object {cid} block {node.index}: {ins.name} {name!r} between "
                         f"{prev.name if prev else None} and {nxt.name if nxt else None}")
                ok = False
                if prev is not None and (prev.name.startswith(("LOAD_", "STORE_")) or prev.name == "IMPORT_NAME"):
                    pa = prev.arg
                    ok = name in [nm(x) for x in (pa if isinstance(pa, tuple) else (pa,))]
                    if ok and ins.name == "LOAD_FAST" and prev.name == "STORE_FAST" and name in cleared:
                        bad.append("UNBOUND " + where)
                if not ok and nxt is not None and (nxt.name.startswith("DELETE_") or nxt.name == "LOAD_FAST_AND_CLEAR"):
                    ok = nm(nxt.arg) == name
                    if ok and nxt.name == "LOAD_FAST_AND_CLEAR":
                        bad.append("UNBOUND " + where)
                if not ok:
                    bad.append(where)
    return bad


def first_comprehension_line(src: str):
    """line of the first list/set/dict comprehension (inlined by CPython 3.12: its variable is saved with
    LOAD_FAST_AND_CLEAR and may be unbound), or None"""
    import ast
    try:
        tree = ast.parse(src)
    except SyntaxError:
        return None
    lines = [n.lineno for n in ast.walk(tree) if isinstance(n, (ast.ListComp, ast.SetComp, ast.DictComp))]
    return min(lines) if lines else None


UNBOUND_SIG = {"class": "inserted-code-reads-possibly-unbound-local", "effect": "interpreter-crash"}
CRASH_WITNESS = "def f(x):\n    y = [k for k in range(3)]\n    return y\n"


def crash_witness_rc() -> int:
    """Run the minimal witness (list comprehension in a function, CHECKED coverage) in a child."""
    import subprocess
    code = (
        "import sys, tempfile\n"
        f"sys.path.insert(0, {str(vcommon.ROOT / 'harness')!r})\n"
        "import vcommon; vcommon.use_repo_sources()\n"
        "import c01\n"
        f"mod, sp, out, so = c01.import_instrumented({CRASH_WITNESS!r}, ('CHECKED',), tempfile.mkdtemp())\n"
        "with sp.instrumentation_tracer:\n"
        "    print(mod.f(1))\n")
    r = subprocess.run([vcommon.PY, "-c", code], capture_output=True, text=True, timeout=300,
                       env=dict(os.environ, VERIF_REPO=str(vcommon.REPO)))
    return r.returncode


# =================================================================================================
# adversarial template module
# =================================================================================================
ADV_HELPERS = r'''
import decimal
import fractions



class Lg:
    """Total comparison protocol; every user operator leaves a trace in `log`."""
    def __init__(self, v):
        self.v = v
        self.log = []
    def _o(self, o):
        return o.v if isinstance(o, Lg) else o
    def __eq__(self, o):
        self.log.append("eq"); return self.v == self._o(o)
    def __ne__(self, o):
        self.log.append("ne"); return self.v != self._o(o)
    def __lt__(self, o):
        self.log.append("lt"); return self.v < self._o(o)
    def __le__(self, o):
        self.log.append("le"); return self.v <= self._o(o)
    def __gt__(self, o):
        self.log.append("gt"); return self.v > self._o(o)
    def __ge__(self, o):
        self.log.append("ge"); return self.v >= self._o(o)
    def __hash__(self):
        return hash(self.v)
    def __bool__(self):
        self.log.append("bool"); return bool(self.v)
    def __len__(self):
        self.log.append("len"); return 2
    def __contains__(self, x):
        self.log.append("contains"); return x == self.v
    def __getitem__(self, k):
        self.log.append("getitem")
        if k == self.v:
            return 1
        raise KeyError(k)
    def __iter__(self):
        self.log.append("iter"); return iter([self.v])
    def __add__(self, o):
        self.log.append("add"); return Lg(self.v)
    def __radd__(self, o):
        self.log.append("radd"); return Lg(self.v)
    def startswith(self, x):
        self.log.append("startswith"); return True
    def endswith(self, x):
        self.log.append("endswith"); return False


class OnlyLt:
    def __init__(self, v):
        self.v = v
    def __lt__(self, o):
        return self.v < o.v


class OnlyEq:
    def __init__(self, v):
        self.v = v
    def __eq__(self, o):
        if not isinstance(o, OnlyEq):
            return NotImplemented
        return self.v == o.v
    __hash__ = None


class _NoBool:
    def __bool__(self):
        raise ValueError("ambiguous truth value")


class BoolRaises:
    """numpy-like: comparisons return an object without a truth value"""
    def __init__(self, v):
        self.v = v
    def __eq__(self, o):
        return _NoBool()
    def __lt__(self, o):
        return _NoBool()
    def __hash__(self):
        return 7


class EqRaises:
    def __eq__(self, o):
        raise RuntimeError("eq")
    def __lt__(self, o):
        raise RuntimeError("lt")
    def __contains__(self, o):
        raise RuntimeError("contains")
    def __bool__(self):
        raise RuntimeError("bool")
    def __hash__(self):
        return 3


class S2(str):
    pass


class Abort(BaseException):
    """derives from BaseException only (like KeyboardInterrupt / SystemExit)"""


def _exc(name):
    import builtins
    return globals().get(name) or getattr(builtins, name)


class _P:
    """Partial comparison protocols: the operators the templates use work, the converse / reflected
    operator (which only a distance heuristic would evaluate) raises `exc`.  Stateless, no log."""
    def __init__(self, v, exc="NotImplementedError"):
        self.v = v
        self.exc = exc
    def _o(self, o):
        return o.v if isinstance(o, _P) else o
    def _r(self, *a):
        raise _exc(self.exc)("unsupported by " + type(self).__name__)


class PC(_P):
    """strict order only: < and > work, <= and >= raise"""
    def __lt__(self, o):
        return self.v < self._o(o)
    def __gt__(self, o):
        return self.v > self._o(o)
    __le__ = __ge__ = _P._r


class PW(_P):
    """weak order only: <= and >= work, < and > raise"""
    def __le__(self, o):
        return self.v <= self._o(o)
    def __ge__(self, o):
        return self.v >= self._o(o)
    __lt__ = __gt__ = _P._r


class PE(_P):
    """== works, != raises"""
    def __eq__(self, o):
        return self.v == self._o(o)
    __ne__ = _P._r
    def __hash__(self):
        return 11


class PN(_P):
    """!= works, == raises"""
    def __ne__(self, o):
        return self.v != self._o(o)
    __eq__ = _P._r
    def __hash__(self):
        return 12


class _NoBoolX:
    def __init__(self, exc):
        self.exc = exc
    def __bool__(self):
        raise _exc(self.exc)("ambiguous truth value")


class PB(_P):
    """< and > work; <= and >= return an object whose truth value raises (array-like)"""
    def __lt__(self, o):
        return self.v < self._o(o)
    def __gt__(self, o):
        return self.v > self._o(o)
    def __le__(self, o):
        return _NoBoolX(self.exc)
    __ge__ = __le__


class TB(_P):
    """truth value works, len() raises"""
    def __bool__(self):
        return bool(self.v)
    __len__ = _P._r


class CI(_P):
    """membership works, iteration raises"""
    def __contains__(self, x):
        return x == self.v
    __iter__ = _P._r


class SL(str):
    """str subclass: every overridden operator / method leaves a trace in `log`"""
    def __new__(cls, s=""):
        o = super().__new__(cls, s)
        o.log = []
        return o
    def __add__(self, o):
        self.log.append("add"); return str.__add__(self, o)
    def __radd__(self, o):
        self.log.append("radd"); return str.__add__(o, self) if isinstance(o, str) else NotImplemented
    def __len__(self):
        self.log.append("len"); return str.__len__(self)
    def __format__(self, spec):
        self.log.append("format"); return str.__format__(self, spec)
    def __str__(self):
        self.log.append("str"); return str.__str__(self)
    def __mod__(self, o):
        self.log.append("mod"); return str.__mod__(self, o)
    def __contains__(self, o):
        self.log.append("contains"); return str.__contains__(self, o)
    def __iter__(self):
        self.log.append("iter"); return str.__iter__(self)
    def __getitem__(self, k):
        self.log.append("getitem"); return str.__getitem__(self, k)
    def upper(self):
        self.log.append("upper"); return str.upper(self)
    def lower(self):
        self.log.append("lower"); return str.lower(self)
    def startswith(self, *a):
        self.log.append("startswith"); return str.startswith(self, *a)
    def endswith(self, *a):
        self.log.append("endswith"); return str.endswith(self, *a)
    def isalnum(self):
        self.log.append("isalnum"); return str.isalnum(self)
    def isdigit(self):
        self.log.append("isdigit"); return str.isdigit(self)
    def islower(self):
        self.log.append("islower"); return str.islower(self)
    def isupper(self):
        self.log.append("isupper"); return str.isupper(self)
    def isspace(self):
        self.log.append("isspace"); return str.isspace(self)
    def istitle(self):
        self.log.append("istitle"); return str.istitle(self)


class SR(str):
    """str subclass that cannot be concatenated, formatted or case-converted"""
    def _r(self, *a):
        raise ArithmeticError("not supported by SR")
    __add__ = __radd__ = __format__ = __mod__ = upper = lower = _r


class BL(bytes):
    """bytes subclass with logging operators"""
    def __new__(cls, s=b""):
        o = super().__new__(cls, s)
        o.log = []
        return o
    def __add__(self, o):
        self.log.append("add"); return bytes.__add__(self, o)
    def __radd__(self, o):
        self.log.append("radd"); return bytes.__add__(o, self) if isinstance(o, bytes) else NotImplemented
    def __len__(self):
        self.log.append("len"); return bytes.__len__(self)
    def startswith(self, *a):
        self.log.append("startswith"); return bytes.startswith(self, *a)
    def endswith(self, *a):
        self.log.append("endswith"); return bytes.endswith(self, *a)
    def decode(self, *a):
        self.log.append("decode"); return bytes.decode(self, *a)


class BR(bytes):
    """bytes subclass that cannot be concatenated"""
    def _r(self, *a):
        raise ArithmeticError("not supported by BR")
    __add__ = __radd__ = _r


class IL(int):
    """int subclass with logging operators"""
    def __new__(cls, v=0):
        o = super().__new__(cls, v)
        o.log = []
        return o
    def __eq__(self, o):
        self.log.append("eq"); return int.__eq__(self, o)
    def __ne__(self, o):
        self.log.append("ne"); return int.__ne__(self, o)
    def __lt__(self, o):
        self.log.append("lt"); return int.__lt__(self, o)
    def __le__(self, o):
        self.log.append("le"); return int.__le__(self, o)
    def __gt__(self, o):
        self.log.append("gt"); return int.__gt__(self, o)
    def __ge__(self, o):
        self.log.append("ge"); return int.__ge__(self, o)
    def __hash__(self):
        return int.__hash__(self)
    def __sub__(self, o):
        self.log.append("sub"); return int.__sub__(self, o)
    def __rsub__(self, o):
        self.log.append("rsub"); return int.__rsub__(self, o)
    def __abs__(self):
        self.log.append("abs"); return int.__abs__(self)
    def __float__(self):
        self.log.append("float"); return int.__float__(self)
    def __bool__(self):
        self.log.append("bool"); return int.__bool__(self)


import enum as _enum


class Col(_enum.StrEnum):
    RED = "abc"
    A = "a"


class Num(_enum.IntEnum):
    ONE = 1
    TWO = 2


class Box:
    def __init__(self, v):
        self.v = v


class MyErr(Exception):
    pass


class SubErr(MyErr, KeyError):
    pass


class Ctx:
    def __init__(self, v, swallow=False):
        self.v = v
        self.swallow = swallow
    def __enter__(self):
        return self.v
    def __exit__(self, et, ev, tb):
        return self.swallow
'''

ADV_FUNC_SRC = r'''
def cmp_eq(a, b):
    if a == b:
        return 1
    return 0

def cmp_ne(a, b):
    if a != b:
        return 1
    return 0

def cmp_lt(a, b):
    if a < b:
        return 1
    return 0

def cmp_le(a, b):
    if a <= b:
        return 1
    return 0

def cmp_gt(a, b):
    if a > b:
        return 1
    return 0

def cmp_ge(a, b):
    if a >= b:
        return 1
    return 0

def cmp_chain(a, b, c):
    if a < b <= c:
        return 1
    elif a == c != b:
        return 2
    return 0

def cmp_is(a, b):
    r = 0
    if a is b:
        r += 1
    if a is not None:
        r += 2
    if b is None:
        r += 4
    return r

def cmp_while(a, b):
    n = 0
    while a < b and n < 3:
        n += 1
    return n

def in_(a, c):
    if a in c:
        return 1
    return 0

def notin(a, c):
    if a not in c:
        return 1
    return 0

def truth(a):
    if a:
        return 1
    return 0

def nottruth(a):
    if not a:
        return 1
    return 0

def boolops(a, b, c):
    return (a and b) or c

def ternary(a, b):
    return b if a else -1

def sw(s, t):
    if s.startswith(t):
        return 1
    return 0

def ew(s, t):
    if s.endswith(t):
        return 1
    return 0

def sw_tern(s, t):
    return "y" if s.startswith(t) else "n"

def ew_while(s, t):
    n = 0
    while s.endswith(t) and n < 2:
        n += 1
    return n

def strfn(s):
    r = 0
    if s.isalnum():
        r += 1
    if s.isdigit():
        r += 2
    if s.islower():
        r += 4
    if s.isupper():
        r += 8
    if s.isspace():
        r += 16
    if s.istitle():
        r += 32
    return r

def subscr(c, k):
    return c[k]

def subscr_try(c, k):
    try:
        return c[k]
    except (KeyError, IndexError) as e:
        return type(e).__name__

def store_sub(c, k, v):
    c[k] = v
    return c

def del_sub(c, k):
    del c[k]
    return c

def slices(c, i, j):
    x = c[i:j]
    c[i:j] = [0]
    del c[0:1]
    return x, c

def attrs(o, v):
    o.v = v
    r = o.v
    del o.v
    return r, hasattr(o, "v")

def exc_match(k):
    try:
        if k == 0:
            raise KeyError("k")
        if k == 1:
            raise MyErr("m")
        if k == 2:
            raise SubErr("s")
        if k == 3:
            raise ValueError("v")
        if k == 4:
            raise ZeroDivisionError
        return -1
    except (KeyError, ValueError) as e:
        return 1, type(e).__name__
    except MyErr:
        return 2
    finally:
        global G
        G += 1

def exc_escape(k):
    try:
        return [1, 2][k] // (k - 1)
    except IndexError:
        return "index"

def glob(n):
    global G
    G += n
    H.append(n)
    return G

def closure(a):
    def inner(b):
        nonlocal a
        a += b
        return a
    return inner(1) + inner(2), a

def delfast(a):
    x = a
    del x
    try:
        return x
    except UnboundLocalError:
        return "unbound"

def unbound(a):
    if a:
        y = 1
    return y

def gen(n):
    for i in range(n):
        if i % 2:
            yield i
    return

def loop(it):
    s = 0
    for x in it:
        if x == 2:
            continue
        s += x
    else:
        s -= 1
    return s

def comp(a):
    return [k for k in a if k > 1], {k: k for k in a}, sum(k for k in a), {k for k in a if k}

def with_(a, sw_):
    with Ctx(a, sw_) as c:
        if c:
            raise ValueError("in with")
    return "after"

def match_(a):
    match a:
        case [x, y]:
            return "pair", x, y
        case {"k": v}:
            return "map", v
        case str() | bytes():
            return "text"
        case Box(v=3):
            return "box3"
        case int(n) if n > 2:
            return "big"
        case _:
            return "other"

def imports():
    import math
    from math import floor as fl
    return fl(math.pi)

def lam(a):
    return (lambda q: q if q else -1)(a), sorted([3, 1, 2], key=lambda z: -z)

def kwcall(a):
    def f(*args, **kw):
        return args, sorted(kw)
    return f(a, *[1, 2], x=a, **{"y": 1})

def fstr(a):
    return f"{a!r:>5}|{a}"

def assert_(a):
    assert a, "msg"
    return 1

def aug(a, b):
    a += b
    a *= 2
    return a

def unpack(a):
    x, *y = a
    return x, y

def classdef(a):
    class C:
        z = a
        def m(self):
            return a
        def n(self):
            return __class__.__name__
    return C().m(), C.z, C().n()

def recursion(n):
    return 1 if n <= 1 else n * recursion(n - 1)

def prints(a):
    print("value", a)
    if a:
        print("truthy")
    return None

def mutarg(lst, d):
    lst.append(len(lst))
    d["k"] = d.get("k", 0) + 1
    if lst:
        lst.sort()
    return None

def tryfinally(a):
    r = []
    for i in range(3):
        try:
            if i == a:
                break
            r.append(i)
        finally:
            r.append(-i)
    return r

def async_(a):
    import asyncio
    async def co(x):
        if x > 1:
            return x
        return -x
    return asyncio.run(co(a))
'''

#: value pools (expressions evaluated inside the module under test, so classes are the module's own)
NUMS = ["0", "1", "-1", "2", "2**53", "2**53+1", "10**400", "-10**400", "1.0", "0.0", "-0.0",
        "float('nan')", "float('inf')", "-float('inf')", "2.0**53", "1e308", "decimal.Decimal('1.5')",
        "decimal.Decimal('NaN')", "fractions.Fraction(1,3)", "True", "False", "1+2j", "None", "'a'", "'b'",
        "b'a'", "[1]", "(1,2)", "{1}", "''"]
#: "@PARTIAL" expands (per draw) to an operand with a partial comparison protocol whose converse operator raises
CMPOBJ = ["Lg(1)", "Lg(2)", "Lg(0)", "OnlyLt(1)", "OnlyLt(2)", "OnlyEq(1)", "OnlyEq(2)", "BoolRaises(1)",
          "EqRaises()", "IL(1)", "IL(2)", "Num.ONE", "Num.TWO"] + ["@PARTIAL"] * 12
#: exception types a converse / reflected operator may raise (all are `Exception`s, so the original comparison
#: still succeeds and the instrumented one has to as well); `Abort` derives from BaseException only (known finding)
EXCS = ["NotImplementedError", "AttributeError", "KeyError", "ZeroDivisionError", "RuntimeError", "AssertionError",
        "StopIteration", "OSError", "MyErr", "SubErr", "LookupError", "ArithmeticError", "EOFError", "BufferError",
        "UnicodeError", "TypeError", "ValueError", "OverflowError", "IndexError", "NameError"]
BASE_ONLY_EXCS = ["Abort"]
PARTIAL_CLASSES = ["PC", "PW", "PE", "PN", "PB"]


def expand_pool_entry(rng, entry: str) -> str:
    """Pool entries starting with "@" are families of expressions: draw one member."""
    if entry == "@PARTIAL":
        exc = rng.choice(BASE_ONLY_EXCS) if rng.random() < 0.04 else rng.choice(EXCS)
        return f"{rng.choice(PARTIAL_CLASSES)}({rng.choice([0, 1, 1, 2])},{exc!r})"
    if entry == "@TRUTH":
        exc = rng.choice(BASE_ONLY_EXCS) if rng.random() < 0.04 else rng.choice(EXCS)
        return f"TB({rng.choice([0, 1, 2])},{exc!r})"
    if entry == "@CONT":
        exc = rng.choice(BASE_ONLY_EXCS) if rng.random() < 0.04 else rng.choice(EXCS)
        return f"CI({rng.choice([1, 2])},{exc!r})"
    return entry
CONTAINERS = ["[1,2,3]", "(1,2)", "{1,2}", "{1:2}", "'abc'", "b'abc'", "range(3)", "iter([1,2,3,2])", "iter([2,2,2,5])",
              "(x for x in [1,2,3])", "Lg(1)", "[float('nan')]", "[Lg(1),Lg(2)]", "None", "5", "{}", "[]",
              "EqRaises()", "[[1],[2]]", "{'a':1}", "SL('abc')"] + ["@CONT"] * 4
#: str / bytes subclasses with logging (SL, BL) or raising (SR, BR) operators, enum members
STRS = ["'abc'", "''", "'ABC'", "'123'", "' '", "'Abc Def'", "b'abc'", "S2('abc')", "Lg('abc')", "None", "'a1'",
        "SL('abc')", "SL('abc')", "SL('ABC')", "SL('12')", "SL('')", "SR('abc')", "SR('abc')", "BL(b'abc')",
        "BL(b'abc')", "BR(b'abc')", "Col.RED"]
STRARGS = ["'a'", "'c'", "('a','b')", "('c',)", "()", "b'a'", "None", "1", "''", "S2('a')", "['a']",
           "Lg('a')", "SL('a')", "SL('a')", "SL('c')", "SR('a')", "SR('c')", "BL(b'a')", "BL(b'c')", "BR(b'a')",
           "Col.A", "(SL('a'),)"]
TRUTHOBJ = ["@TRUTH"] * 6 + ["SL('abc')", "SL('')", "BL(b'')", "IL(0)", "IL(3)", "Col.RED", "Num.ONE"]
KEYS = ["0", "1", "-1", "5", "'a'", "'k'", "[1]", "None", "Lg(1)", "1.0", "float('nan')", "slice(0,1)", "True"]
SUBCONT = ["[1,2,3]", "(1,2)", "{1:2}", "{'a':1}", "'abc'", "Lg(1)", "iter([1,2])", "None", "{}", "[]",
           "{1.0: 'x'}", "range(3)"]
MUTCONT = ["[1,2,3]", "{1:2}", "{}", "[]", "(1,2)", "Lg(1)", "None"]
SEQS = ["[1,2,3]", "(3,1,2)", "[]", "'ab'", "{1,2}", "iter([1,2,3])", "(x for x in [2,0,1])", "[0,2,5]", "None",
        "range(4)", "{1:2,3:4}"]

#: template functions: (construct group, [pool per argument])
ADV_FUNCS = {
    "cmp_eq": ("compare", [NUMS + CMPOBJ, NUMS + CMPOBJ]),
    "cmp_ne": ("compare", [NUMS + CMPOBJ, NUMS + CMPOBJ]),
    "cmp_lt": ("compare", [NUMS + CMPOBJ, NUMS + CMPOBJ]),
    "cmp_le": ("compare", [NUMS + CMPOBJ, NUMS + CMPOBJ]),
    "cmp_gt": ("compare", [NUMS + CMPOBJ, NUMS + CMPOBJ]),
    "cmp_ge": ("compare", [NUMS + CMPOBJ, NUMS + CMPOBJ]),
    "cmp_chain": ("compare", [NUMS + CMPOBJ, NUMS + CMPOBJ, NUMS]),
    "cmp_is": ("compare", [NUMS, NUMS]),
    "cmp_while": ("compare", [NUMS + CMPOBJ, NUMS]),
    "in_": ("contains", [NUMS + CMPOBJ, CONTAINERS]),
    "notin": ("contains", [NUMS + CMPOBJ, CONTAINERS]),
    "truth": ("truth", [NUMS + CMPOBJ + CONTAINERS + TRUTHOBJ]),
    "nottruth": ("truth", [NUMS + CMPOBJ + CONTAINERS + TRUTHOBJ]),
    "boolops": ("truth", [NUMS + CMPOBJ, NUMS + CMPOBJ, NUMS]),
    "ternary": ("truth", [NUMS + CMPOBJ + CONTAINERS + TRUTHOBJ, NUMS]),
    "sw": ("strfunc", [STRS, STRARGS]),
    "ew": ("strfunc", [STRS, STRARGS]),
    "sw_tern": ("strfunc", [STRS, STRARGS]),
    "ew_while": ("strfunc", [STRS, STRARGS]),
    "strfn": ("strfunc", [STRS]),
    "subscr": ("subscript", [SUBCONT, KEYS]),
    "subscr_try": ("subscript", [SUBCONT, KEYS]),
    "store_sub": ("subscript", [MUTCONT, KEYS, NUMS]),
    "del_sub": ("subscript", [MUTCONT, KEYS]),
    "slices": ("subscript", [["[1,2,3]", "[]", "(1,2)", "'abc'", "None", "[5,6,7,8]"], ["0", "1", "None", "-1"],
                             ["2", "None", "0", "'x'"]]),
    "attrs": ("attribute", [["Box(1)", "Lg(1)", "None", "5", "Box(None)"], NUMS]),
    "exc_match": ("exception", [["0", "1", "2", "3", "4", "5"]]),
    "exc_escape": ("exception", [["0", "1", "2", "3", "-1", "'x'"]]),
    "glob": ("scope", [["1", "2", "-3"]]),
    "closure": ("scope", [["1", "0", "'a'", "2.5"]]),
    "delfast": ("scope", [NUMS]),
    "unbound": ("scope", [["0", "1", "None", "[]", "[0]"]]),
    "classdef": ("scope", [NUMS]),
    "gen": ("iteration", [["0", "1", "5", "-1"]]),
    "loop": ("iteration", [SEQS]),
    "comp": ("iteration", [SEQS]),
    "tryfinally": ("iteration", [["0", "1", "2", "7"]]),
    "with_": ("with", [["0", "1", "None", "'x'"], ["True", "False"]]),
    "match_": ("match", [["[1,2]", "{'k':1}", "'s'", "b's'", "Box(3)", "Box(4)", "5", "1", "None", "(3,4)",
                          "[1,2,3]", "{}"]]),
    "imports": ("misc", []),
    "lam": ("misc", [NUMS]),
    "kwcall": ("misc", [NUMS]),
    "fstr": ("misc", [["1", "'a'", "None", "1.5", "[1]"]]),
    "assert_": ("misc", [NUMS]),
    "aug": ("misc", [["1", "[1]", "'a'", "2.5", "(1,)"], ["1", "[2]", "'b'", "2", "(3,)"]]),
    "unpack": ("misc", [SEQS]),
    "recursion": ("misc", [["0", "1", "5"]]),
    "prints": ("misc", [NUMS]),
    "mutarg": ("misc", [["[3,1]", "[]", "['a',1]"], ["{}", "{'k':1}"]]),
    "async_": ("misc", [["0", "1", "5"]]),
}
ONE_SHOT = ("iter(", " for x in ")

ADV_PRELUDE = "import decimal\nimport fractions\nfrom c01adv_helpers import *\n\nG = 0\nH = [1, 2]\n\n"
BUCKET_OF_GROUP = {"compare": "A", "truth": "A", "contains": "B", "subscript": "B", "strfunc": "B",
                   "attribute": "B", "exception": "C", "scope": "C", "iteration": "C", "with": "C",
                   "match": "C", "misc": "D"}


def bucket_of(fn: str) -> str:
    # `comp` has inlined comprehensions: CHECKED instrumentation of those is unsafe (known finding),
    # so it lives in a module of its own and does not cost the other templates their CHECKED runs
    return "E" if fn == "comp" else BUCKET_OF_GROUP[ADV_FUNCS[fn][0]]


def _adv_buckets():
    chunks = ("\n" + ADV_FUNC_SRC).split("\ndef ")[1:]
    out: dict[str, str] = {}
    for ch in chunks:
        name = ch[:ch.index("(")]
        b = bucket_of(name)
        out[b] = out.get(b, ADV_PRELUDE) + "def " + ch.rstrip() + "\n\n"
    return out


ADV_BUCKETS = _adv_buckets()
ADV_SRC = ADV_PRELUDE + ADV_FUNC_SRC        # everything in one module (translator corpus only)


# =================================================================================================
# observing behaviour
# =================================================================================================
def canon(v, depth=0):
    """Address-free, order-free canonical form of a value (never calls user code of the module
    under test except iterating an iterator that is being consumed for inspection)."""
    import decimal
    import fractions
    if depth > 6:
        return "<deep>"
    t = type(v)
    if v is None or t in (bool, int, str, bytes, float, complex, decimal.Decimal, fractions.Fraction,
                          range, slice):
        return [t.__name__, repr(v)]
    if t in (list, tuple):
        return [t.__name__, [canon(x, depth + 1) for x in v]]
    if t in (set, frozenset):
        return [t.__name__, sorted((canon(x, depth + 1) for x in v), key=vcommon.jdump)]
    if t is dict:
        return ["dict", [[canon(k, depth + 1), canon(x, depth + 1)] for k, x in v.items()]]
    if isinstance(v, BaseException):
        return ["exc", t.__name__, canon(v.args, depth + 1)]
    if isinstance(v, type):
        return ["type", v.__qualname__]
    if isinstance(v, (types.FunctionType, types.BuiltinFunctionType, types.MethodType)):
        return ["callable", getattr(v, "__qualname__", "?")]
    if isinstance(v, types.ModuleType):
        return ["module", v.__name__]
    if hasattr(t, "__next__") and "__dict__" not in dir(t):
        items = []
        try:
            for x in itertools.islice(v, 40):
                items.append(canon(x, depth + 1))
        except Exception as e:  # noqa: BLE001
            items.append(["raised", type(e).__name__])
        return ["iterator", t.__name__, items]
    try:
        d = object.__getattribute__(v, "__dict__")
    except AttributeError:
        d = None
    if isinstance(d, dict):
        return ["obj", t.__name__, [[k, canon(x, depth + 1)] for k, x in d.items()]]
    return ["obj", t.__name__]


def _plain_data(v, depth=0) -> bool:
    if v is None or type(v) in (bool, int, float, complex, str, bytes):
        return True
    if depth < 4 and type(v) in (list, tuple, set, frozenset):
        return all(_plain_data(x, depth + 1) for x in v)
    if depth < 4 and type(v) is dict:
        return all(_plain_data(k, depth + 1) and _plain_data(x, depth + 1) for k, x in v.items())
    return False


def canon_globals(mod):
    """module-level plain data (numbers, strings, containers of those): the state a function can change
    through `global` / by mutating a module-level container"""
    out = []
    for k, v in vars(mod).items():
        if k.startswith("__") or not _plain_data(v):
            continue
        out.append([k, canon(v)])
    return out


def run_call(mod, tracer_cm, fname, argexprs):
    """One call of the module under test; everything observable about it."""
    ns = vars(mod)
    buf = io.StringIO()
    rec = {"out": None, "stdout": "", "args": None, "globals": None}
    with tracer_cm, contextlib.redirect_stdout(buf):
        try:
            args = [eval(e, ns) for e in argexprs]  # noqa: S307 - harness-generated expressions
        except Exception as e:  # noqa: BLE001
            rec["out"] = ["argerr", type(e).__name__]
            args = []
        if rec["out"] is None:
            try:
                r = getattr(mod, fname)(*args)
                if isinstance(r, types.GeneratorType):
                    r = list(itertools.islice(r, 60))
                rec["out"] = ["ok", canon(r)]
            except RecursionError:
                rec["out"] = ["err", "RecursionError"]
            except Exception as e:  # noqa: BLE001 - the exception type is the observation
                rec["out"] = ["err", type(e).__name__]
            except BaseException as e:  # noqa: BLE001 - the helpers' `Abort` (derives from BaseException only)
                if type(e).__name__ not in BASE_ONLY_EXCS:
                    raise
                rec["out"] = ["err", type(e).__name__]
    rec["stdout"] = buf.getvalue()
    rec["args"] = [canon(a) for a in args]
    rec["globals"] = canon_globals(mod)
    return rec


def logs_of(c, acc=None):
    """all `log` lists inside a canonical value (user-operator traces of the template objects)"""
    acc = [] if acc is None else acc
    if isinstance(c, list):
        if len(c) == 3 and c[0] == "obj" and isinstance(c[2], list):
            for kv in c[2]:
                if isinstance(kv, list) and len(kv) == 2 and kv[0] == "log":
                    acc.append(vcommon.jdump(kv[1]))
        for x in c:
            logs_of(x, acc)
    return acc


def strip_logs(c):
    if isinstance(c, list):
        if len(c) == 3 and c[0] == "obj" and isinstance(c[2], list):
            return ["obj", c[1], [strip_logs(kv) for kv in c[2] if not (isinstance(kv, list) and kv and kv[0] == "log")]]
        return [strip_logs(x) for x in c]
    return c


def diff_call(plain, instr, argexprs):
    """None if the instrumented call behaved like the plain one, else (diff class, cause, detail)."""
    if plain == instr:
        return None
    one_shot = any(m in e for e in argexprs for m in ONE_SHOT)
    po, io_ = plain["out"], instr["out"]
    if po != io_:
        if po[0] == "ok" and io_[0] == "err":
            d = "raises:" + io_[1]
        elif po[0] == "err" and io_[0] == "ok":
            d = "swallows:" + po[1]
        elif po[0] == "err" and io_[0] == "err":
            d = "exception-type:" + io_[1]
        elif po[0] == "argerr" or io_[0] == "argerr":
            d = "argument-construction"
        else:
            d = "return"
        if d == "return" and strip_logs(po) == strip_logs(io_):
            cause = "extra-user-calls"
        elif d.startswith("raises:") and io_[1] in BASE_ONLY_EXCS:
            cause = "base-exception"     # escapes the tracer's `except Exception` (known finding)
        else:
            cause = "one-shot-iterator" if one_shot else "unexplained"
        return d, cause, {"plain": po, "instrumented": io_}
    if plain["stdout"] != instr["stdout"]:
        return "stdout", "unexplained", {"plain": plain["stdout"][:200], "instrumented": instr["stdout"][:200]}
    for key in ("args", "globals"):
        if plain[key] != instr[key]:
            if strip_logs(plain[key]) == strip_logs(instr[key]):
                cause = "extra-user-calls"
            else:
                cause = "one-shot-iterator" if one_shot else "unexplained"
            return key, cause, {"plain": plain[key], "instrumented": instr[key]}
    return "other", "unexplained", {}


# =================================================================================================
# real execution of one generated snippet by CPython
# =================================================================================================
class _Raise(Exception):
    pass


class Tok:
    """A value of the 'module under test': identity is all that matters; every operation an original
    instruction performs on it is logged with its operands."""

    def __init__(self, name, log, raising=False):
        self.name, self._log, self._raising = name, log, raising

    def _op(self, *operands):
        self._log.append(["orig", [nm(o) for o in operands]])
        if self._raising:
            raise _Raise

    def __setattr__(self, k, v):
        if k in ("name", "_log", "_raising"):
            object.__setattr__(self, k, v)
        else:
            self._op(self, v)          # STORE_ATTR: TOS = obj, TOS1 = value

    def __delattr__(self, k):
        self._op(self)

    def __setitem__(self, k, v):
        if isinstance(k, slice):
            self._op(k.stop, k.start, self, v)   # STORE_SLICE: TOS = stop, start, container, value
        else:
            self._op(k, self, v)       # STORE_SUBSCR: TOS = key, TOS1 = container, TOS2 = value

    def __delitem__(self, k):
        self._op(k, self)

    def __getitem__(self, k):
        if isinstance(k, slice):
            self._op(k.stop, k.start, self)
        else:
            self._op(k, self)
        return Tok("out0", self._log)

    def __add__(self, o):
        if self._raising:
            raise _Raise
        return Tok(["sum", nm(self), nm(o)], self._log)


def nm(o):
    if isinstance(o, Tok):
        return o.name
    if isinstance(o, tuple) and len(o) == 2:
        return ["tup", nm(o[0]), nm(o[1])]
    if o is None:
        return "None"
    if isinstance(o, str):
        return o
    return repr(o)


class Callback:
    def __init__(self, log):
        self._log = log

    def cb(self, *args):
        self._log.append(["call", "cb", [nm(a) for a in args]])


def run_snippet_real(shape, extra: int, variant: str):
    """Assemble [push tokens] ++ live snippet ++ [BUILD_TUPLE, RETURN] and run it."""
    from bytecode import Bytecode, CellVar, Instr
    import pynguin.instrumentation.version.common as common

    log: list = []
    cbobj = Callback(log)
    classes = generator_classes()
    cls, _, live = classes[shape["gen"]]
    assert live
    action = getattr(common.InstrumentationSetupAction, shape["action"])
    args = list(_mk_args(shape, common))
    env_names = []     # (kind, name)
    for i, (k, a) in enumerate(zip(shape["args"], args)):
        if k == "deref":
            env_names.append(("deref", a.name.name, 3))
        elif k == "classderef":
            env_names.append(("deref", a.name.name, 4))
        elif k == "fasttuple":
            env_names += [("fast", n, 0) for n in a.names]
        elif k in ("fast", "name", "global"):
            env_names.append((k, a.name, ENV_KINDS[k]))
    call = common.InstrumentationMethodCall(cbobj, "cb", tuple(args))
    if shape["override"] is None:
        instrs, p, q = list(cls.generate_instructions(action, call, 1)), 0, 0
    else:
        import pynguin.instrumentation.version as version
        name = shape["override"]
        orig = Instr(name, "attr", lineno=1) if name in ("STORE_ATTR", "DELETE_ATTR") else Instr(name, lineno=1)
        eff = version.stack_effects(orig.opcode, None)
        p, q = int(eff.pops), int(eff.pushes)
        instrs = list(cls.generate_overriding_instructions(action, orig, call, 1))
    depth = (INSERT_DEPTH.get(shape["action"], 0) if shape["override"] is None else p) + extra
    toks = [Tok(f"t{i}", log, raising=(variant == "raises")) for i in range(depth)]
    code = Bytecode()
    code.name, code.filename = "snip", "<c01>"
    glob: dict = {}
    cells = sorted({n for k, n, _ in env_names if k == "deref"})
    code.cellvars = list(cells)
    pre = [Instr("MAKE_CELL", CellVar(c), lineno=1) for c in cells] + [Instr("RESUME", 0, lineno=1)]
    unbound = variant == "unbound"
    for k, n, kind in env_names:
        val = Tok(f"e{kind}_{n}", log)
        if k == "fast":
            pre += [Instr("LOAD_CONST", val, lineno=1), Instr("STORE_FAST", n, lineno=1)]
        elif k == "deref":
            pre += [Instr("LOAD_CONST", val, lineno=1), Instr("STORE_DEREF", CellVar(n), lineno=1)]
        elif k == "global" and not unbound:
            glob[n] = val
        elif k == "name" and not unbound:
            glob[n] = val           # exec with one namespace: LOAD_NAME finds it in locals == globals
    body = [Instr("LOAD_CONST", t, lineno=1) for t in reversed(toks)]
    final = depth - p + q
    code.extend(pre + body + instrs + [Instr("BUILD_TUPLE", final, lineno=1), Instr("RETURN_VALUE", lineno=1)])
    has_name = any(k == "name" for k, _, _ in env_names)
    if has_name:
        code.flags = 0      # module-like code: LOAD_NAME needs a locals mapping
    try:
        co = code.to_code()
    except Exception as e:  # noqa: BLE001 - e.g. negative stack size: reported as the outcome
        return {"stack": None, "events": [], "err": "assemble:" + type(e).__name__}
    err, stack = None, None
    try:
        if has_name:
            # a code object without CO_NEWLOCALS: run it through exec and fetch the result via a wrapper
            res = eval(co, glob)  # noqa: S307
        else:
            res = types.FunctionType(co, glob)()
        stack = [nm(x) for x in reversed(res)]
    except _Raise:
        err = "raised"
    except NameError:
        err = "NameError"
    return {"stack": stack, "events": log, "err": err}


# =================================================================================================
# translator corpus: a module that drives every adapter path
# =================================================================================================
TRANSLATOR_EXTRA = r'''

class Outer:
    attr = 3
    def meth(self, a):
        self.attr = a
        del self.attr
        return [self.attr for _ in range(2)]
    def sup(self):
        return super().__repr__()

def nested(a):
    cell = a
    def inner():
        nonlocal cell
        cell = cell + 1
        del cell
    class K:
        val = cell
    inner()
    return K

def globals_():
    global ZZ
    ZZ = 1
    del ZZ

ZN = 1
del ZN

def strs(s, t):
    if s.startswith(t):
        return 1
    if s.endswith(t):
        return 2
    if s.isalnum():
        return 3
    return 0
'''


TRANSLATOR_FUNCS = ["cmp_eq", "cmp_is", "in_", "truth", "sw", "ew", "strfn", "subscr", "store_sub", "del_sub",
                    "slices", "attrs", "exc_match", "glob", "closure", "delfast", "loop", "comp", "imports",
                    "classdef", "with_", "kwcall", "gen"]


def _translator_corpus() -> str:
    chunks = {ch[:ch.index("(")]: "def " + ch.rstrip() + "\n\n"
              for ch in ("\n" + ADV_FUNC_SRC).split("\ndef ")[1:]}
    return ADV_PRELUDE + "".join(chunks[f] for f in TRANSLATOR_FUNCS) + TRANSLATOR_EXTRA


TRANSLATOR_CORPUS = _translator_corpus()
TRANSLATOR_SUBSETS = [(), ("LINE",), ("BRANCH", "LINE", "CHECKED")]


def stdlib_source(name: str) -> str:
    import sysconfig
    # (frozen modules such as posixpath/stat have no file origin in their spec)
    return (Path(sysconfig.get_paths()["stdlib"]) / (name.replace(".", "/") + ".py")).read_text(encoding="utf-8")


#: pure-Python stdlib modules instrumented from a copy of their source, with fixed calls
STDLIB_CALLS = {
    "colorsys": [["rgb_to_hls", ["0.2", "0.4", "0.4"]], ["hls_to_rgb", ["0.5", "0.3", "0.7"]],
                 ["rgb_to_hsv", ["0.0", "0.0", "0.0"]], ["hsv_to_rgb", ["0.9", "0.5", "0.1"]],
                 ["rgb_to_yiq", ["1", "0", "1"]]],
    "textwrap": [["wrap", ["'The quick brown fox jumps over the lazy dog ' * 3", "20"]],
                 ["dedent", ["'  a\\n   b\\n  c'"]], ["shorten", ["'hello  world, this is long'", "12"]],
                 ["indent", ["'a\\nb\\n\\nc'", "'> '"]], ["fill", ["'aa bb cc dd ee'", "5"]]],
    "fnmatch": [["translate", ["'*.py[co]'"]], ["fnmatchcase", ["'abc.py'", "'a?c.*'"]],
                ["filter", ["['a.py','b.txt','c.py']", "'*.py'"]], ["translate", ["'[!a-c]x?'"]]],
    "shlex": [["split", ["'a \"b c\" d\\\\ e'"]], ["quote", ["\"it's\""]], ["join", ["['a b', 'c']"]],
              ["split", ["'unterminated \"quote'"]]],
    "heapq": [["nsmallest", ["2", "[5,1,4,2]"]], ["nlargest", ["3", "[5,1,4,2,9]"]],
              ["merge", ["[1,4,7]", "[2,3,9]"]], ["heapify", ["[3,1,2]"]]],
    "bisect": [["bisect_left", ["[1,2,4,4,5]", "4"]], ["insort", ["[1,3]", "2"]],
               ["bisect_right", ["[1,2,4,4,5]", "4", "1", "3"]], ["bisect_left", ["[1,2]", "1", "-1"]]],
    "posixpath": [["normpath", ["'/a/./b/../c//d'"]], ["join", ["'/a'", "'b'", "'/c'", "'d'"]],
                  ["splitext", ["'a/b.tar.gz'"]], ["commonpath", ["['/a/b/c', '/a/b/d']"]],
                  ["relpath", ["'/a/b/c'", "'/a/x'"]], ["commonpath", ["[]"]]],
    "string": [["capwords", ["'hello  wORLD x'"]], ["capwords", ["'a-b-c'", "'-'"]]],
    "keyword": [["iskeyword", ["'for'"]], ["issoftkeyword", ["'match'"]]],
    "stat": [["filemode", ["0o100755"]], ["S_ISDIR", ["0o040000"]], ["filemode", ["0o120777"]]],
    "html": [["escape", ["'<a href=\"x\">&</a>'"]], ["unescape", ["'&lt;&amp;&#65;&bogus;&#x110000;'"]]],
    "graphlib": [],
    "reprlib": [["repr", ["list(range(20))"]], ["repr", ["{'a': [1,2,3,4,5,6,7,8]}"]]],
    "statistics": [["median", ["[3,1,2]"]], ["mean", ["[1,2,3,4]"]], ["mode", ["[1,1,2]"]],
                   ["median", ["[]"]], ["pstdev", ["[1.5,2.5,2.5,2.75]"]]],
    "ipaddress": [["ip_address", ["'192.168.0.1'"]], ["ip_network", ["'10.0.0.0/30'"]],
                  ["ip_address", ["'::1'"]], ["ip_address", ["'300.1.1.1'"]]],
    "difflib": [["get_close_matches", ["'appel'", "['ape','apple','peach']"]],
                ["ndiff", ["['a\\n','b\\n']", "['a\\n','c\\n']"]]],
    "base64": [["b64encode", ["b'hello'"]], ["b32decode", ["b'NBSWY3DP'"]], ["b16decode", ["b'zz'"]],
               ["a85encode", ["b'hello world'"]]],
    "calendar": [["isleap", ["2024"]], ["monthrange", ["2023", "2"]], ["month", ["2024", "2"]]],
    "fractions": [["Fraction", ["'3/4'"]], ["Fraction", ["1.5"]], ["Fraction", ["1", "0"]]],
    "quopri": [["encodestring", ["b'a=b \\xff'"]], ["decodestring", ["b'a=3Db'"]]],
    "csv": [],
    "json.encoder": [["py_encode_basestring_ascii", ["'a\\u1234\"'"]], ["py_encode_basestring", ["'a\\n\"'"]]],
    "json.decoder": [["py_scanstring", ["'abc\\\\n\"rest'", "0"]], ["py_scanstring", ["'abc'", "0"]]],
}
STDLIB_QUICK = ["colorsys", "fnmatch", "bisect", "keyword"]


# =================================================================================================
# kind "pred": the predicate callbacks of the branch tracer on operands with programmable protocols
# =================================================================================================
PY_COMPARE = {
    "EQ": lambda a, b: a == b, "NE": lambda a, b: a != b, "LT": lambda a, b: a < b, "LE": lambda a, b: a <= b,
    "GT": lambda a, b: a > b, "GE": lambda a, b: a >= b, "IN": lambda a, b: a in b,
    "NOT_IN": lambda a, b: a not in b, "IS": lambda a, b: a is b, "IS_NOT": lambda a, b: a is not b,
}
CMP_DUNDERS = {"lt": "__lt__", "le": "__le__", "gt": "__gt__", "ge": "__ge__", "eq": "__eq__", "ne": "__ne__"}
PLAIN_OPERANDS = ["0", "1", "2", "-1", "2**70", "10**400", "1.5", "0.0", "float('nan')", "float('inf')", "'a'", "'b'",
                  "''", "b'a'", "None", "(1, 2)", "True", "1+2j", "2.0**53", "2**53+1"]
PLAIN_CONTAINERS = ["[1, 2, 3]", "(1, 2)", "{1, 2}", "{1: 2}", "'abc'", "b'abc'", "range(3)", "[]", "None", "5",
                    "[float('nan')]", "{}"]


class PredAbort(BaseException):
    """an exception that derives from BaseException only"""


class PredErr(Exception):
    """a custom exception"""


def _pred_exc(name):
    import builtins
    return {"PredAbort": PredAbort, "PredErr": PredErr}.get(name) or getattr(builtins, name)


class _PredNoBool:
    def __init__(self, exc):
        self._exc = exc

    def __bool__(self):
        raise _pred_exc(self._exc)("no truth value")


def _behaviour(kind: str, natural):
    """A dunder from its description: "cmp" (natural result), "T", "F", "NI", "raise:<Exc>", "nobool:<Exc>",
    "n:<int>" (returns that int), "items" (iterates [v])."""
    if kind == "cmp":
        return natural
    if kind == "T":
        return lambda self, *a: True
    if kind == "F":
        return lambda self, *a: False
    if kind == "NI":
        return lambda self, *a: NotImplemented
    if kind.startswith("raise:"):
        def raiser(self, *a, _n=kind[6:]):
            raise _pred_exc(_n)("raised by the operand")
        return raiser
    if kind.startswith("nobool:"):
        return lambda self, *a, _n=kind[7:]: _PredNoBool(_n)
    if kind.startswith("n:"):
        return lambda self, *a, _n=int(kind[2:]): _n
    if kind == "items":
        return lambda self: iter([self.v])
    raise ValueError(kind)


def build_operand(spec):
    """{"plain": expr} or {"v": int, "ops": {dunder-short-name: behaviour}} -> a fresh stateless object"""
    import operator
    if spec is None:
        return None
    if "plain" in spec:
        return eval(spec["plain"], {})  # noqa: S307 - harness-generated literal
    nat = {"lt": operator.lt, "le": operator.le, "gt": operator.gt, "ge": operator.ge, "eq": operator.eq,
           "ne": operator.ne}
    ns = {}
    for short, kind in spec["ops"].items():
        if short in CMP_DUNDERS:
            def natural(self, o, _f=nat[short]):
                ov = getattr(o, "v", o)
                try:
                    return _f(self.v, ov)
                except TypeError:
                    return NotImplemented
            ns[CMP_DUNDERS[short]] = _behaviour(kind, natural)
        elif short == "contains":
            ns["__contains__"] = _behaviour(kind, lambda self, x: getattr(x, "v", x) == self.v)
        elif short == "iter":
            ns["__iter__"] = _behaviour(kind, None)
        elif short == "len":
            ns["__len__"] = _behaviour(kind, None)
        elif short == "bool":
            ns["__bool__"] = _behaviour(kind, lambda self: bool(self.v))
        else:
            raise ValueError(short)
    if "__eq__" in ns:
        ns["__hash__"] = lambda self: 5
    ns["__repr__"] = lambda self: f"Operand(v={self.v!r}, ops={spec['ops']!r})"
    obj = type("Operand", (), ns)()
    obj.v = spec["v"]
    return obj


def exc_class(e: BaseException) -> str:
    """the class of an exception as far as the tracer's `except` clauses tell (Model/Callbacks.lean `Exc`)"""
    if isinstance(e, TypeError):
        return "typeError"
    if isinstance(e, ValueError):
        return "valueError"
    if isinstance(e, OverflowError):
        return "overflowError"
    if isinstance(e, AssertionError):
        return "assertionError"
    if isinstance(e, Exception):
        return "other"
    return "base"


def f_class(x) -> str:
    """a number as far as `> 0.0`, `== 0.0`, `>= 0.0` tell (Model/Callbacks.lean `F`)"""
    import math
    x = float(x) if not isinstance(x, float) else x
    if math.isnan(x):
        return "nan"
    if math.isinf(x):
        return "posInf" if x > 0 else "negInf"
    return "zero" if x == 0 else ("pos" if x > 0 else "neg")


def _outcome(thunk, conv):
    """{"ok": conv(value)} | {"err": class, "type": name}; KeyboardInterrupt & co. are not observations"""
    try:
        return {"ok": conv(thunk())}
    except (KeyboardInterrupt, SystemExit, GeneratorExit, MemoryError):
        raise
    except BaseException as e:  # noqa: BLE001 - the outcome is data
        return {"err": exc_class(e), "type": type(e).__name__}


def run_pred_case(case):
    """The real callback of `ExecutionTracer` on fresh operands; the module's own operation on fresh
    operands; and, evaluated in the callback's order on a third set of operands, the outcomes of the
    comparison and of the distance estimate the callback consults."""
    import threading
    import pynguin.instrumentation.tracer as tr

    def fresh():
        return build_operand(case["a"]), build_operand(case.get("b"))

    tracer = tr.ExecutionTracer()
    tracer._current_thread_identifier = threading.current_thread().ident  # noqa: SLF001 - as the executor does
    dummy = {"ok": "pos"}
    if case["pk"] == "compare":
        cmp_op = getattr(tr.PynguinCompare, case["op"])
        compare, true_dist, false_dist = tr._COMPARISONS[cmp_op]  # noqa: SLF001
        a, b = fresh()
        plain = _outcome(lambda: bool(PY_COMPARE[case["op"]](a, b)), bool)
        a, b = fresh()
        primary = _outcome(lambda: bool(compare(a, b)), bool)
        td, fd = dummy, dummy
        if primary.get("ok") is True:
            fd = _outcome(lambda: false_dist(a, b), f_class)
        elif primary.get("ok") is False:
            td = _outcome(lambda: true_dist(a, b), f_class)
        a, b = fresh()
        call = lambda: tracer.executed_compare_predicate(a, b, 0, cmp_op)  # noqa: E731
    else:
        a, _ = fresh()
        plain = _outcome(lambda: bool(a), bool)
        a, _ = fresh()
        primary = _outcome(lambda: bool(a), bool)
        td, fd = dummy, dummy
        if primary.get("ok") is True:
            fd = _outcome(lambda: tr._falsy_distance(a), f_class)  # noqa: SLF001
        a, _ = fresh()
        call = lambda: tracer.executed_bool_predicate(a, 0)  # noqa: E731

    def recorded(_):
        trace = tracer.get_trace()
        return [f_class(trace.true_distances[0]), f_class(trace.false_distances[0])]

    callback = _outcome(call, recorded)
    enabled = not tracer.is_disabled()
    return {"plain": plain, "primary": primary, "td": td, "fd": fd, "callback": callback, "enabled_after": enabled}


# =================================================================================================
# kind "prov": the seeding callbacks of DynamicConstantProvider on operands of adversarial classes
# =================================================================================================
PROV_LOG: list = []
_LOGGED = ["__add__", "__radd__", "__mul__", "__rmul__", "__mod__", "__rmod__", "__len__", "__eq__", "__ne__",
           "__lt__", "__le__", "__gt__", "__ge__", "__hash__", "__bool__", "__format__", "__str__", "__bytes__",
           "__iter__", "__contains__", "__getitem__", "__int__", "__float__", "__index__", "__abs__", "__sub__",
           "__rsub__", "__neg__", "__complex__", "isalnum", "islower", "isupper", "isdecimal", "isalpha", "isdigit",
           "isidentifier", "isnumeric", "isprintable", "isspace", "istitle", "upper", "lower", "startswith",
           "endswith", "encode", "decode", "casefold", "strip", "join", "format"]


def _logging_namespace(base, raising=False):
    ns = {}
    for name in _LOGGED:
        inherited = getattr(base, name, None)
        if inherited is None and name not in ("__radd__", "__bool__", "__format__", "__str__", "startswith",
                                              "isalnum", "islower"):
            continue

        def method(self, *a, _name=name, _inh=inherited):
            PROV_LOG.append((id(self), _name))
            if raising and _name not in ("__hash__", "__eq__"):
                raise ArithmeticError("operator of a user class")
            if _inh is None:
                return NotImplemented if _name == "__radd__" else True
            return _inh(self, *a)
        ns[name] = method
    return ns


def _prov_classes():
    """{class key: (factory(text) -> operand, model base, exact)}; built once"""
    import enum
    if hasattr(_prov_classes, "cache"):
        return _prov_classes.cache
    strsub = type("StrSub", (str,), _logging_namespace(str))
    strsub_r = type("StrSubRaising", (str,), _logging_namespace(str, raising=True))
    bytessub = type("BytesSub", (bytes,), _logging_namespace(bytes))
    bytessub_r = type("BytesSubRaising", (bytes,), _logging_namespace(bytes, raising=True))
    intsub = type("IntSub", (int,), _logging_namespace(int))
    floatsub = type("FloatSub", (float,), _logging_namespace(float))
    tuplesub = type("TupleSub", (tuple,), _logging_namespace(tuple))
    other = type("Other", (), _logging_namespace(object))
    other_r = type("OtherRaising", (), _logging_namespace(object, raising=True))
    logged = _logging_namespace(str)

    class StrE(enum.StrEnum):
        A = "abc"
        B = "a"
        C = "Abc Def Ghi Jkl"
        D = "12"
        __add__ = logged["__add__"]
        __radd__ = logged["__radd__"]
        __format__ = logged["__format__"]
        __len__ = logged["__len__"]
        isalnum = logged["isalnum"]
        upper = logged["upper"]
        lower = logged["lower"]
        islower = logged["islower"]

    ilogged = _logging_namespace(int)

    class IntE(enum.IntEnum):
        ONE = 1
        __add__ = ilogged["__add__"]
        __hash__ = ilogged["__hash__"]
        __eq__ = ilogged["__eq__"]

    def strenum(text):
        return {"abc": StrE.A, "a": StrE.B, "12": StrE.D}.get(text, StrE.C)

    _prov_classes.cache = {
        "str": (lambda t: "".join(t), "str", True),     # (join: a fresh exact str)
        "bytes": (lambda t: t.encode(), "bytes", True),
        "int": (lambda t: len(t) + 7, "int", True),
        "float": (lambda t: 1.5, "float", True),
        "complex": (lambda t: 1j, "complex", True),
        "bool": (lambda t: True, "bool", True),
        "tuple": (lambda t: (t, "a"), "tuple", True),
        "bytestuple": (lambda t: (t.encode(),), "tuple", True),
        "none": (lambda t: None, "none", True),
        "strsub": (strsub, "str", False),
        "strsub_raising": (strsub_r, "str", False),
        "bytessub": (lambda t: bytessub(t.encode()), "bytes", False),
        "bytessub_raising": (lambda t: bytessub_r(t.encode()), "bytes", False),
        "intsub": (lambda t: intsub(len(t)), "int", False),
        "floatsub": (lambda t: floatsub(2.5), "float", False),
        "tuplesub": (lambda t: tuplesub((t,)), "tuple", False),
        "strenum": (strenum, "str", False),
        "intenum": (lambda t: IntE.ONE, "int", False),
        "other": (lambda t: other(), "other", False),
        "other_raising": (lambda t: other_r(), "other", False),
    }
    return _prov_classes.cache


PROV_TEXTS = ["abc", "a", "", "ABC", "12", " ", "Abc Def", "a1", "x_y", "abcdefgh", "abcdefghi", "Abc Def Ghi Jkl",
              "\t", "a b", "A1", "ab!"]
PROV_STRING_FUNCS = ["isalnum", "islower", "isupper", "isdecimal", "isalpha", "isdigit", "isidentifier", "isnumeric",
                     "isprintable", "isspace", "istitle"]
PROV_TEXT_CLASSES = ["str", "bytes", "strsub", "strsub_raising", "bytessub", "bytessub_raising", "strenum"]
PROV_MAXLEN = 8


def prov_operand(spec):
    """-> (object, model descriptor)"""
    factory, base, exact = _prov_classes()[spec["cls"]]
    obj = factory(spec["text"])
    if base == "str":
        n = str.__len__(obj)
    elif base == "bytes":
        n = bytes.__len__(obj)
    else:
        n = 0
    return obj, {"base": base, "exact": exact, "len": n, "pred": False}


def run_prov_case(case):
    from pynguin.analyses.constants import ConstantPool, DynamicConstantProvider, EmptyConstantProvider
    added = []

    class RecordingPool(ConstantPool):
        def add_constant(self, constant):
            t = type(constant)
            added.append([t.__name__, len(constant) if t in (str, bytes) else 0])
            super().add_constant(constant)

    prov = DynamicConstantProvider(RecordingPool(), EmptyConstantProvider(), probability=0,
                                   max_constant_length=case["maxlen"])
    v, dv = prov_operand(case["v"])
    p, dp = prov_operand(case["p"])
    name = case.get("name")
    if case["entry"] == "strings" and dv["base"] == "str" and name in PROV_STRING_FUNCS:
        dv["pred"] = bool(getattr(str, name)(v))      # the builtin method, not an override
    tags = {id(v): 0, id(p): 1}
    del PROV_LOG[:]
    err = None
    try:
        if case["entry"] == "addValue":
            prov.add_value(v)
        elif case["entry"] == "strings":
            prov.add_value_for_strings(v, name)
        elif case["entry"] == "startswith":
            prov.add_value_for_startswith(v, p)
        elif case["entry"] == "endswith":
            prov.add_value_for_endswith(v, p)
        else:
            raise ValueError(case["entry"])
    except ValueError:
        raise
    except Exception as e:  # noqa: BLE001 - the callback raising is the observation
        err = type(e).__name__
    user = [[tags.get(i, 2), n] for i, n in PROV_LOG]
    del PROV_LOG[:]
    return {"user": user, "pool": added, "err": err, "v": dv, "p": dp}


# =================================================================================================
# the check
# =================================================================================================
class C01(PropertyCheck):
    prop_id = "C01"
    prop_modules = ["PynguinModel.Props.C01"]
    extra_modules = ["PynguinModel.Model.StackMachine", "PynguinModel.Model.Callbacks",
                     "PynguinModel.Generated.C01Snippets"]
    driver = "Driver/C01.lean"
    n_quick = 280
    n_thorough = 2000
    n_search = 600
    rule = ("case kinds: pred (real ExecutionTracer predicate callback on operands with random partial comparison / "
            "truth / membership protocols vs Model/Callbacks.lean; 45 %), prov (real DynamicConstantProvider entry "
            "point on operands of plain / subclass / enum / unrelated classes with logging or raising operators vs "
            "the model; 45 %), and 10 %: "
            "snippet (live generator output run by CPython vs the Lean stack machine), adv "
            "(adversarial template module, ~14 calls), progen (random program, 3-5 functions x 4 inputs), stdlib "
            "(copied pure-Python stdlib module with fixed calls); every prog case runs under all 8 metric subsets "
            "with dynamic seeding; non-trivial = distinct (shape, depth, variant) / distinct (source, calls) whose "
            "plain run executed at least one call that returned or raised inside the module")
    assumptions = [
        "tracer/provider callbacks return normally and leave the module's state alone (C04/C05; violated by the "
        "known findings listed for this property: the tracer re-evaluates comparisons, truth tests and membership)",
        "CPython evaluates the modelled opcodes as Model/StackMachine.lean says (tied by the snippet correspondence)",
        "snippets are placed where the stack holds the operands they copy (checked only through bytecode's "
        "stack-size computation and the differential runs; the placement theorem hypothesis PlacedOk)",
    ]
    trusted_base_extra = [
        "translator in harness/c01.py (records shapes by wrapping the live generator, re-generates instructions "
        "from it, maps opcode names to model ops; unknown opcodes abort the translation)",
        "the `bytecode` library's assembly/stack-size computation and CPython's evaluation of original instructions",
    ]

    def __init__(self, tier, seed):
        super().__init__(tier, seed)
        self._tmp = tempfile.mkdtemp(prefix="c01-")
        import atexit
        atexit.register(shutil.rmtree, self._tmp, True)
        Path(self._tmp, "c01adv_helpers.py").write_text(ADV_HELPERS.lstrip("\n"), encoding="utf-8")
        if self._tmp not in sys.path:
            sys.path.insert(0, self._tmp)      # the (uninstrumented) helper classes of the templates
        self._used: dict[str, dict] = {}
        self._enum: list[dict] = []
        self._seen_shapes: dict[str, dict] = {}
        self._placement: list[str] = []
        self._adv_cache: dict = {}
        self._cache: dict[str, dict] = {}

    def run(self) -> int:
        """The runner prints one KNOWN-FINDING line per reproduced known signature (11 for this property) and
        the VIOLATION line last; consumers that read only the first few verdict lines (tools/seeded_eval.py keeps
        six) would never see it.  Same lines, verdict first."""
        buf = io.StringIO()
        try:
            with contextlib.redirect_stdout(buf):
                rc = super().run()
        finally:
            lines = buf.getvalue().splitlines()
            for line in sorted(lines, key=lambda l: not l.startswith("VIOLATION")):    # stable sort
                print(line)
            sys.stdout.flush()
        return rc

    # -- translator -----------------------------------------------------------------------------
    def _canary(self):
        """Everything that executes generated/instrumented code is first run once in a child process:
        a stack-corrupting instrumentation kills the child, not this check.  Returns None or a
        description of the crash (with the input that was running)."""
        import subprocess
        code = (
            "import sys, json\n"
            f"sys.path.insert(0, {str(vcommon.ROOT / 'harness')!r})\n"
            "import vcommon; vcommon.use_repo_sources()\n"
            "import c01\n"
            "c = c01.C01('quick', 0)\n"
            "try:\n"
            "    c.translate()\n"
            "except c01.TranslationError:\n"
            "    pass\n"
            "for sh in c._shapes():\n"
            "    case = {'kind': 'snippet', 'shape': {k: sh[k] for k in ('gen', 'action', 'args', 'override')},\n"
            "            'extra': 1, 'variant': 'normal'}\n"
            "    print('CANARY-AT', json.dumps(case), flush=True)\n"
            "    c.impl(case)\n"
            "for case in c.corpus():\n"
            "    print('CANARY-AT', json.dumps(case), flush=True)\n"
            "    c.impl(case)\n"
            "print('CANARY-OK', flush=True)\n")
        env = dict(os.environ, VERIF_REPO=str(vcommon.REPO), C01_NO_CANARY="1")
        try:
            r = subprocess.run([vcommon.PY, "-c", code], capture_output=True, text=True, timeout=900, env=env)
        except subprocess.TimeoutExpired:
            return {"what": "canary child timed out", "case": None}
        if "CANARY-OK" in r.stdout:
            return None
        last = [l for l in r.stdout.splitlines() if l.startswith("CANARY-AT ")]
        case = json.loads(last[-1][10:]) if last else None
        if r.returncode < 0 or r.returncode in (139, 134, 136):
            return {"what": f"the interpreter crashed (return code {r.returncode}) while executing code produced "
                            f"by the instrumentation", "case": case}
        return {"what": f"canary child failed: rc={r.returncode} {r.stderr[-400:]}", "case": case, "machinery": True}

    def _record_corpus(self):
        errors = []
        with Recorder() as rec:
            for ms in TRANSLATOR_SUBSETS:
                mod, sp, out, _ = import_instrumented(TRANSLATOR_CORPUS, ms, self._tmp)
                if out[0] != "ok":
                    errors.append(f"translator corpus does not import under {ms}: {out}")
                    continue
                bad = [b for b in placement_violations(sp) if not b.startswith("UNBOUND")]
                if bad:
                    errors.append(f"unlicensed frame read in inserted code: {bad[:3]}")
        if rec.unlicensed:
            errors.append(f"adapter reads a name its instruction does not access: {rec.unlicensed[:3]}")
        return rec.shapes, errors

    def translate(self) -> None:
        import pynguin.instrumentation.version.common as common
        classes = generator_classes()
        self._translated = True
        self._crash = None
        if not os.environ.get("C01_NO_CANARY"):
            self._crash = self._canary()
            if self._crash is not None:
                if self._crash.get("machinery"):
                    raise RuntimeError(self._crash["what"])
                raise TranslationError(self._crash["what"])
        used, errors = self._record_corpus()
        live_name = next(n for n, v in classes.items() if v[2])
        actions = [a.name for a in common.InstrumentationSetupAction]
        missing = [a for a in actions if a not in CANONICAL]
        if missing:
            raise TranslationError(f"setup actions without a canonical use in the translator: {missing}")
        self._used = dict(sorted(used.items()))
        lines = ["import PynguinModel.Model.StackMachine",
                 "/-! GENERATED by harness/c01.py `translate()` from the live pynguin generators — do not edit.",
                 "`usedItems`: every snippet shape the adapters emit on the translator corpus under all metric",
                 "subsets + dynamic seeding.",
                 "`enumItems`: canonical use of EVERY setup action for every generator class. -/"]
        for mn in ["common"] + VERSION_MODULES + ["../transformer", "../machinery"]:
            p = vcommon.REPO / "src/pynguin/instrumentation/version" / (mn + ".py")
            if p.exists():
                lines.append(f"-- source: {p.resolve().relative_to(vcommon.REPO.resolve())} sha256 "
                             f"{hashlib.sha256(p.read_bytes()).hexdigest()}")
        lines += ["namespace PynguinModel.StackMachine.Generated", ""]
        names = []
        for i, (key, sh) in enumerate(self._used.items()):
            item, _ = shape_item(sh)
            sh["item"] = item
            lines += [f"/-- {sh['gen']}: {sh['action']} args={tuple(sh['args'])} override={sh['override']} -/",
                      f"def used{i} : Item := {lean_item(item)}"]
            names.append(f"used{i}")
        lines += ["", "def usedItems : List Item := [" + ", ".join(names) + "]", ""]
        enames, self._enum = [], []
        skipped = []
        for gname, (cls, mn, live) in sorted(classes.items()):
            for action in actions:
                args, override = CANONICAL[action]
                sh = {"gen": gname, "action": action, "args": list(args), "override": override}
                try:
                    item, _ = shape_item(sh)
                except ValueError as e:     # e.g. 3.10 cannot implement COPY_THIRD_SHIFT_DOWN_FOUR
                    skipped.append(f"{gname}.{action}: {e}")
                    continue
                sh["item"] = item
                self._enum.append(sh)
                nm_ = f"enum{len(enames)}"
                lines += [f"/-- {gname} ({mn}): {action} -/", f"def {nm_} : Item := {lean_item(item)}"]
                enames.append(nm_)
        lines += ["", "def enumItems : List Item := [" + ", ".join(enames) + "]", "",
                  "end PynguinModel.StackMachine.Generated", ""]
        text = "\n".join(lines)
        if not GEN_PATH.exists() or GEN_PATH.read_text() != text:
            GEN_PATH.parent.mkdir(parents=True, exist_ok=True)
            GEN_PATH.write_text(text)
        if errors:
            self.extra_coverage["translator_errors"] = errors
        self.extra_coverage["generated"] = {
            "used_shapes": [[s["action"], s["args"], s["override"]] for s in self._used.values()],
            "enum_items": len(self._enum), "generator_classes": sorted(classes),
            "live_generator": live_name, "skipped": skipped}
        if errors:
            raise TranslationError("; ".join(errors)[:600])

    # -- generation -----------------------------------------------------------------------------
    def _shapes(self):
        if not getattr(self, "_translated", False):
            try:
                self.translate()
            except TranslationError:
                pass
        live = [s for s in self._enum if generator_classes()[s["gen"]][2]]
        return list(self._used.values()) + live

    def gen_case(self, rng):
        if getattr(self, "_crash", None) is not None:
            return {"kind": "crash"}
        r0 = rng.random()
        if r0 < 0.45:
            return self._gen_pred(rng)
        if r0 < 0.90:
            return self._gen_prov(rng)
        r = rng.random()
        if r < 0.30:
            sh = rng.choice(self._shapes())
            variants = ["normal", "normal"]
            if sh["override"] is not None or sh["action"].startswith("ADD_"):
                variants.append("raises")
            if any(a in ("name", "global") for a in sh["args"]):
                variants.append("unbound")
            return {"kind": "snippet", "shape": {k: sh[k] for k in ("gen", "action", "args", "override")},
                    "extra": rng.choice([0, 0, 1, 2, 3]), "variant": rng.choice(variants)}
        names = [subset_name(ms) for ms in SUBSETS]
        if r < 0.72:
            bucket = rng.choice("AAABBBCCDDE")
            fns = sorted(f for f in ADV_FUNCS if bucket_of(f) == bucket)
            calls = []
            for _ in range(14):
                fn = rng.choice(fns)
                group, pools = ADV_FUNCS[fn]
                calls.append([fn, [expand_pool_entry(rng, rng.choice(p)) for p in pools]])
            return {"kind": "prog", "family": "adv", "src": "ADV:" + bucket, "calls": calls, "subsets": names}
        if r < 0.95:
            import progen
            src = progen.gen_module(rng, n_funcs=rng.randint(2, 3))
            funcs = [l[4:l.index("(")] for l in src.splitlines() if l.startswith("def ")]
            calls = []
            for f in funcs:
                for _ in range(3):
                    a = [str(rng.choice([rng.randint(-3, 7), rng.randint(-3, 7), 0, 1, 2])) for _ in range(3)]
                    calls.append([f, a])
            if "class K0" in src:
                calls.append(["_k0", ["1", "2", "3"]])
                src += "\ndef _k0(a, b, c):\n    k = K0(a)\n    return k.method(a, b, c), k.get(), K0(-b).get()\n"
            return {"kind": "prog", "family": "progen", "src": src, "calls": calls,
                    "subsets": sorted(rng.sample(names, 3))}
        pool = STDLIB_QUICK if self.tier == "quick" else sorted(k for k, v in STDLIB_CALLS.items() if v)
        name = rng.choice(pool)
        return {"kind": "prog", "family": "stdlib", "src": "STDLIB:" + name, "calls": STDLIB_CALLS[name],
                "subsets": sorted(rng.sample(names, 2))}

    @staticmethod
    def _gen_exc(rng):
        r = rng.random()
        if r < 0.06:
            return "PredAbort"
        if r < 0.16:
            return "PredErr"
        return rng.choice(EXCS[:6] + [e for e in EXCS if e not in ("MyErr", "SubErr")])

    def _gen_protocol(self, rng, shorts):
        """a random partial protocol over the given dunders"""
        ops = {}
        for sh in shorts:
            r = rng.random()
            if r < 0.22:
                continue                                   # not defined
            if r < 0.55:
                ops[sh] = "cmp"
            elif r < 0.80:
                ops[sh] = "raise:" + self._gen_exc(rng)
            elif r < 0.88:
                ops[sh] = "NI"
            elif r < 0.94:
                ops[sh] = "nobool:" + self._gen_exc(rng)
            else:
                ops[sh] = rng.choice(["T", "F"])
        return ops

    def _gen_pred(self, rng):
        cmp_shorts = ["lt", "le", "gt", "ge", "eq", "ne"]

        def operand():
            if rng.random() < 0.3:
                return {"plain": rng.choice(PLAIN_OPERANDS)}
            return {"v": rng.choice([0, 1, 1, 2]), "ops": self._gen_protocol(rng, cmp_shorts)}

        def container():
            if rng.random() < 0.35:
                return {"plain": rng.choice(PLAIN_CONTAINERS)}
            ops = {}
            for sh, kinds in (("contains", ["cmp", "cmp", "T", "F", "raise", None]),
                              ("iter", ["items", "raise", "raise", None]),
                              ("len", ["n:0", "n:2", "raise", None]), ("bool", ["T", "F", "raise", None, None])):
                k = rng.choice(kinds)
                if k is not None:
                    ops[sh] = "raise:" + self._gen_exc(rng) if k == "raise" else k
            return {"v": rng.choice([1, 2]), "ops": ops}

        r = rng.random()
        if r < 0.2:
            return {"kind": "pred", "pk": "bool", "a": container() if rng.random() < 0.8 else operand()}
        if r < 0.4:
            return {"kind": "pred", "pk": "compare", "op": rng.choice(["IN", "NOT_IN"]), "a": operand(),
                    "b": container()}
        op = rng.choice(["EQ", "NE", "LT", "LE", "GT", "GE", "LT", "LE", "GT", "GE", "EQ", "NE", "IS", "IS_NOT"])
        a, b = operand(), operand()
        if "ops" in a and op.lower() in CMP_DUNDERS and rng.random() < 0.7:
            # the operator the module itself uses works; what the converse / reflected ones do stays random
            a["ops"][op.lower()] = rng.choice(["cmp", "cmp", "T", "F"])
            conv = {"lt": "le", "le": "lt", "gt": "ge", "ge": "gt", "eq": "ne", "ne": "eq"}[op.lower()]
            if rng.random() < 0.5:
                kind = rng.choice(["raise:", "raise:", "nobool:"]) + self._gen_exc(rng)
                a["ops"][conv] = kind
                if "ops" in b:
                    b["ops"][conv] = kind
        return {"kind": "pred", "pk": "compare", "op": op, "a": a, "b": b}

    def _gen_prov(self, rng):
        classes = sorted(_prov_classes())

        def operand(text_bias):
            cls = rng.choice(PROV_TEXT_CLASSES) if rng.random() < text_bias else rng.choice(classes)
            return {"cls": cls, "text": rng.choice(PROV_TEXTS)}

        entry = rng.choice(["addValue", "strings", "strings", "startswith", "startswith", "endswith", "endswith"])
        case = {"kind": "prov", "entry": entry, "name": None, "maxlen": rng.choice([PROV_MAXLEN, PROV_MAXLEN, 3, 50]),
                "v": operand(0.75 if entry != "addValue" else 0.4), "p": {"cls": "none", "text": ""}}
        if entry == "strings":
            case["name"] = rng.choice(PROV_STRING_FUNCS + ["startswith", "upper"]) if rng.random() < 0.9 \
                else rng.choice(PROV_STRING_FUNCS)
        if entry in ("startswith", "endswith"):
            case["p"] = operand(0.75)
            if rng.random() < 0.5:       # the pair the guard is about: same family, possibly different exactness
                fam = {"str": ["str", "strsub", "strsub_raising", "strenum"],
                       "bytes": ["bytes", "bytessub", "bytessub_raising"]}
                for members in fam.values():
                    if case["v"]["cls"] in members:
                        case["p"]["cls"] = rng.choice(members)
        return case

    # -- implementation adapter -----------------------------------------------------------------
    def impl(self, case):
        if getattr(self, "_crash", None) is not None:
            return {"crash": self._crash["what"]}     # nothing is executed in-process any more
        key = vcommon.jdump(case)
        if key not in self._cache:
            self._cache[key] = {"snippet": self._impl_snippet, "prog": self._impl_prog, "pred": run_pred_case,
                                "prov": run_prov_case}[case["kind"]](case)
            if len(self._cache) > 4000:
                self._cache.pop(next(iter(self._cache)))
        return self._cache[key]

    def _impl_snippet(self, case):
        return run_snippet_real(case["shape"], case["extra"], case["variant"])

    def _source(self, case) -> str:
        if case["src"].startswith("ADV:"):
            return ADV_BUCKETS[case["src"][4:]]
        if case["src"].startswith("STDLIB:"):
            return stdlib_source(case["src"][7:])
        return case["src"]

    def _modules_for(self, case):
        """(plain module, {subset: (module, sp, import outcome, stdout)}), recording emitted shapes."""
        adv = case["src"].startswith("ADV:")
        if adv and case["src"] in self._adv_cache:
            return self._adv_cache[case["src"]]
        src = self._source(case)
        plain = import_plain(src, self._tmp)
        inst = {}
        with Recorder() as rec:
            for ms in SUBSETS:
                if subset_name(ms) not in case["subsets"]:
                    continue
                if "CHECKED" in ms and self._checked_comprehensions_crash():
                    line = first_comprehension_line(src)
                    if line is not None:
                        # importing/calling it could end this process (known finding): not executed
                        inst[subset_name(ms)] = (None, None, ["unsafe", f"comprehension at line {line} "
                                                              f"(CHECKED reads its possibly-unbound variable)"], "")
                        self.count("skipped-unsafe-subset:" + subset_name(ms))
                        continue
                mod, sp, out, so = import_instrumented(src, ms, self._tmp)
                inst[subset_name(ms)] = (mod, sp, out, so)
                self.count("subset:" + subset_name(ms))
                if out[0] == "ok":
                    pv = placement_violations(sp)
                    self._placement += [b for b in pv if not b.startswith("UNBOUND")][:3]
                    unb = [b for b in pv if b.startswith("UNBOUND")]
                    if unb:
                        # executing this module could crash the interpreter (and this check with it)
                        inst[subset_name(ms)] = (None, sp, ["unsafe", unb[0]], so)
                        self.count("skipped-unsafe-subset:" + subset_name(ms))
        for k, sh in rec.shapes.items():
            self._seen_shapes.setdefault(k, sh)
        self._placement += rec.unlicensed[:3]
        res = (plain, inst)
        if adv:
            self._adv_cache[case["src"]] = res
        return res

    def _checked_comprehensions_crash(self) -> bool:
        """Observed once per run in a child process: does the minimal witness still crash?"""
        if not hasattr(self, "_crash_rc"):
            self._crash_rc = crash_witness_rc()
            self.extra_coverage["crash_witness_rc"] = self._crash_rc
        return self._crash_rc != 0

    def _impl_prog(self, case):
        (pmod, pout, pso), inst = self._modules_for(case)
        diffs, digest, executed = [], hashlib.sha256(), 0
        for name, (mod, sp, out, so) in inst.items():
            if out[0] == "unsafe":
                diffs.append({"subset": name, "call": None, "diff": "unsafe-frame-read",
                              "cause": "possibly-unbound-local", "detail": {"where": out[1]}})
            elif out[:2] != pout[:2] or so != pso:
                diffs.append({"subset": name, "call": None, "diff": "import", "cause": "unexplained",
                              "detail": {"plain": pout, "instrumented": out}})
            elif mod is not None and canon_globals(mod) != canon_globals(pmod):
                diffs.append({"subset": name, "call": None, "diff": "import-globals", "cause": "unexplained",
                              "detail": {}})
        if pmod is None:
            return {"import": pout, "diffs": diffs, "executed": 0, "digest": "", "raised": 0}
        raised = 0
        dirty = False
        adv = case["src"].startswith("ADV:")
        for idx, (fn, argx) in enumerate(case["calls"]):
            p = run_call(pmod, contextlib.nullcontext(), fn, argx)
            digest.update(vcommon.jdump(p).encode())
            if p["out"][0] in ("ok", "err"):
                executed += 1
            raised += p["out"][0] == "err"
            self.count("plain-outcome:" + (p["out"][0] if p["out"][0] != "err" else "err:" + p["out"][1]))
            for name, (mod, sp, out, so) in inst.items():
                if mod is None:
                    continue
                q = run_call(mod, sp.instrumentation_tracer, fn, argx)
                d = diff_call(p, q, argx)
                if d is not None:
                    dirty = dirty or d[0] in ("globals", "import")
                    diffs.append({"subset": name, "call": [fn, argx], "diff": d[0], "cause": d[1], "detail": d[2]})
        if dirty and adv:
            self._adv_cache.pop(case["src"], None)   # module state diverged: start afresh next time
        return {"import": pout, "diffs": diffs, "executed": executed, "raised": raised,
                "digest": digest.hexdigest()[:16]}

    # -- model side -----------------------------------------------------------------------------
    def model_line(self, case):
        if getattr(self, "_crash", None) is not None:
            return None
        if case["kind"] == "pred":
            io = self.impl(case)
            strip = lambda o: {k: v for k, v in o.items() if k != "type"}  # noqa: E731
            return vcommon.jdump({"pred": {"kind": case["pk"], "primary": strip(io["primary"]),
                                           "td": strip(io["td"]), "fd": strip(io["fd"])}})
        if case["kind"] == "prov":
            io = self.impl(case)
            entry = case["entry"]
            return vcommon.jdump({"prov": {"entry": entry, "name": case["name"] if case["name"] is not None else "",
                                           "maxLen": case["maxlen"], "v": io["v"], "p": io["p"]}})
        if case["kind"] != "snippet":
            return None
        sh = case["shape"]
        instrs, orig = live_instructions(sh, "SELF")
        pre, oop, post, info = to_ops(instrs, orig, "SELF", True)
        k = shape_depth(sh, oop)
        variant = case["variant"]
        ops = list(pre)
        if oop is not None:
            o = dict(oop["orig"], raises=(variant == "raises"))
            ops += [{"orig": o}] + post
        unbound = [list(e) for e in set(info["env"]) if e[0] in (1, 2)] if variant == "unbound" else []
        stack = [{"tok": {"i": i}} for i in range(k + case["extra"])]
        return vcommon.jdump({"run": {"ops": ops, "stack": stack, "unbound": unbound,
                                      "userRaises": variant == "raises"}})

    def compare(self, case, io, mo):
        if case["kind"] == "prog":
            return True
        if "bad-op" in mo or "unparsable" in mo:
            return False
        if case["kind"] == "pred":
            cb = io["callback"]
            if "err" in cb:
                return mo.get("err") == cb["err"] and io["enabled_after"]
            return mo.get("ok") == cb["ok"] and io["enabled_after"]
        if case["kind"] == "prov":
            return io["err"] is None and mo["user"] == io["user"] and mo["pool"] == io["pool"]
        sh = case["shape"]
        instrs, orig = live_instructions(sh, "SELF")
        _, _, _, info = to_ops(instrs, orig, "SELF", True)

        def tr(v):
            if isinstance(v, list):
                return [v[0]] + [tr(x) for x in v[1:]]
            if isinstance(v, str) and v.startswith("c") and v[1:].isdigit():
                return nm(info["consts"][int(v[1:])])
            if isinstance(v, str) and v.startswith("e") and "_" in v:
                kind, n = v[1:].split("_")
                return f"e{kind}_{info['names'][int(n)]}"
            return v

        m_events = []
        for e in mo["events"]:
            if e[0] == "call":
                m_events.append(["call", info["names"][e[1]] if isinstance(e[1], int) else e[1], [tr(a) for a in e[2]]])
            else:
                m_events.append(["orig", [tr(a) for a in e[1]]])
        m_err = {None: None, "origRaised": "raised", "userRaised": "raised", "NameError": "NameError"}.get(
            mo["err"], "model:" + str(mo["err"]))
        if m_err != io["err"] or m_events != io["events"]:
            return False
        if m_err is None:
            return [tr(v) for v in mo["stack"]] == io["stack"]
        return True

    # -- the property on the observed behaviour -----------------------------------------------------
    def oracle(self, case, io):
        fs = []
        if "crash" in io:
            if not getattr(self, "_crash_reported", False):
                self._crash_reported = True
                fs.append(Failure({"class": "interpreter-crash", "stage": "canary"}, io["crash"],
                                  case=self._crash["case"]))
            return fs
        if case["kind"] == "pred":
            # the property at callback level: the callback raises only what the module's own operation (the
            # comparison / truth test it is about to evaluate on these operands) raises
            cb, plain = io["callback"], io["plain"]
            what = (f"{case['op']} predicate on ({case['a']}, {case.get('b')})" if case["pk"] == "compare"
                    else f"truth-test predicate on {case['a']}")
            if "err" in cb and "err" not in plain:
                cls = "callback-raises-base-exception" if cb["err"] == "base" else "callback-raises"
                sig = {"kind": "pred", "class": cls}
                if cls == "callback-raises":
                    sig["predicate"] = case["pk"] if case["pk"] == "bool" else case["op"]
                fs.append(Failure(sig, f"tracer callback for the {what} raises {cb['type']} although the module's own "
                                       f"operation returns {plain['ok']}", detail=io))
            elif "err" in cb and cb["type"] != plain["type"]:
                fs.append(Failure({"kind": "pred", "class": "callback-raises-other-type"},
                                  f"tracer callback for the {what} raises {cb['type']}, the module's own operation "
                                  f"raises {plain['type']}", detail=io))
            if not io["enabled_after"]:
                fs.append(Failure({"kind": "pred", "class": "tracer-left-disabled"},
                                  f"tracer stays disabled after the callback for the {what}", detail=io))
            return fs
        if case["kind"] == "prov":
            # the seeding callbacks may only observe: no operator / method of an operand's class, nothing raised
            if io["user"]:
                fs.append(Failure({"kind": "prov", "entry": case["entry"], "class": "user-operator-called"},
                                  f"DynamicConstantProvider entry {case['entry']}({case['v']}, {case['p']}, "
                                  f"name={case['name']}) calls operators of the module's classes: {io['user']}",
                                  detail=io))
            if io["err"] is not None:
                fs.append(Failure({"kind": "prov", "entry": case["entry"], "class": "raises"},
                                  f"DynamicConstantProvider entry {case['entry']}({case['v']}, {case['p']}, "
                                  f"name={case['name']}) raises {io['err']}", detail=io))
            return fs
        if case["kind"] == "snippet":
            # the property at snippet level: the inserted code leaves the stack as the original
            # instruction alone would, never raises itself, and calls back with observed values only
            sh, variant = case["shape"], case["variant"]
            if sh["action"].startswith("ADD_"):
                return fs      # not emitted by any adapter (checked by the shape table), user code by design
            n = len(io["stack"]) if io["stack"] is not None else None
            toks = None if n is None else [f"t{i}" for i in range(max(n, 8))]
            if io["err"] is not None and not (variant == "raises" and io["err"] == "raised") \
                    and not (variant == "unbound" and io["err"] == "NameError"):
                fs.append(Failure({"kind": "snippet", "action": sh["action"], "class": "snippet-raises"},
                                  f"inserted snippet {sh['action']} {sh['args']} raises {io['err']}", detail=io))
            elif io["err"] is None:
                depth = (INSERT_DEPTH.get(sh["action"], 0) if sh["override"] is None
                         else ORIG_EFFECTS[sh["override"]][0]) + case["extra"]
                want = [f"t{i}" for i in range(depth)]
                if sh["override"] is not None:
                    p, q = ORIG_EFFECTS[sh["override"]]
                    want = [f"out{j}" for j in range(q)] + want[p:]
                    origs = [e for e in io["events"] if e[0] == "orig"]
                    if len(origs) != 1 or origs[0][1][:p] != [f"t{i}" for i in range(p)][:len(origs[0][1])]:
                        fs.append(Failure({"kind": "snippet", "action": sh["action"], "class": "orig-operands"},
                                          f"overridden {sh['override']} saw operands {origs}", detail=io))
                if io["stack"] != want:
                    fs.append(Failure({"kind": "snippet", "action": sh["action"], "class": "stack-changed"},
                                      f"snippet {sh['action']} {sh['args']} leaves stack {io['stack']} instead of {want}",
                                      detail=io))
            return fs
        seen = set()
        for d in io["diffs"]:
            if d["diff"] == "unsafe-frame-read":
                if "unbound" not in seen:
                    seen.add("unbound")
                    fs.append(Failure(dict(UNBOUND_SIG), f"inserted code ({d['subset']}) reads a local that may be "
                                      f"unbound: {d['detail']['where']}",
                                      case={"kind": "prog", "family": case["family"], "src": case["src"],
                                            "calls": case["calls"][:1], "subsets": [d["subset"]]}))
                continue
            group = ADV_FUNCS[d["call"][0]][0] if case["family"] == "adv" and d["call"] else "-"
            sig = {"family": case["family"], "construct": group, "diff": d["diff"], "cause": d["cause"]}
            k = vcommon.jdump(sig)
            if k in seen:
                continue
            seen.add(k)
            fs.append(Failure(sig, f"instrumented ({d['subset']}) run differs from the original: "
                                   f"{d['diff']} for call {d['call']} [{d['cause']}]",
                              case={"kind": "prog", "family": case["family"], "src": case["src"],
                                    "calls": [d["call"]] if d["call"] else case["calls"],
                                    "subsets": [d["subset"]]},
                              detail={"subset": d["subset"], **d["detail"]}))
        return fs

    def classify(self, case, io):
        if "crash" in io:
            return None
        self.count("kind:" + (case["family"] if case["kind"] == "prog" else case["kind"]))
        if case["kind"] == "pred":
            est = io["fd"] if io["primary"].get("ok") is True else io["td"]
            key = [case["pk"], case.get("op"), io["primary"].get("ok", io["primary"].get("type")),
                   est.get("ok", est.get("type"))]
            self.count("pred-op:" + (case.get("op") or "bool"))
            self.count("pred-primary:" + str(io["primary"].get("ok", "raises")))
            if "err" in est:
                self.count("pred-estimate-raises:" + est["err"])
            if "err" in io["primary"]:
                return None
            return vcommon.jdump(key + [case["a"], case.get("b")])
        if case["kind"] == "prov":
            self.count("prov-entry:" + case["entry"])
            self.count("prov-v:" + case["v"]["cls"])
            if io["pool"]:
                self.count("prov-pool-adds", len(io["pool"]))
            return vcommon.jdump(case)
        if case["kind"] == "snippet":
            self.count("snippet-variant:" + case["variant"])
            self.count("snippet-action:" + case["shape"]["action"])
            return vcommon.jdump(case)
        for fn, _ in case["calls"]:
            if case["family"] == "adv":
                self.count("adv-construct:" + ADV_FUNCS[fn][0])
        self.count("calls", len(case["calls"]) * len(SUBSETS))
        if not io["executed"]:
            return None
        return vcommon.jdump([case["src"], case["calls"]])

    # -- obligations outside single cases ---------------------------------------------------------
    def extra_checks(self):
        fs = []
        table = set(self._used)
        new = [s for k, s in self._seen_shapes.items() if k not in table]
        self.extra_coverage["shapes_seen_in_runs"] = len(self._seen_shapes)
        if new:
            fs.append(Failure({"class": "shape-not-in-generated-table"},
                              f"the adapters emitted snippet shapes the generated table does not contain: "
                              f"{[[s['action'], s['args'], s['override']] for s in new[:4]]}"))
        if self._placement:
            fs.append(Failure({"class": "unlicensed-frame-read"},
                              f"inserted code reads a name its neighbour instruction does not access: "
                              f"{self._placement[:3]}"))
        return fs

    WITNESS_CALLS = [
        ["sw", ["'abc'", "('a','b')"]], ["ew", ["'abc'", "('c',)"]], ["sw", ["Lg('abc')", "'a'"]],
        ["in_", ["2", "iter([1,2,3,2])"]], ["in_", ["1", "iter([1,2,3,2])"]], ["in_", ["2", "iter([2,2,2,5])"]], ["notin", ["2", "iter([1,2,3,2])"]],
        ["in_", ["Lg(1)", "[Lg(1),Lg(2)]"]], ["boolops", ["1", "Lg(1)", "0"]], ["cmp_eq", ["Lg(1)", "Lg(1)"]], ["truth", ["Lg(1)"]],
        ["subscr_try", ["Lg(1)", "1"]], ["cmp_lt", ["OnlyLt(1)", "OnlyLt(2)"]],
        ["cmp_eq", ["float('nan')", "1.0"]], ["cmp_le", ["2**53+1", "2.0**53"]], ["cmp_lt", ["1", "10**400"]],
        # BaseException-only classes escape `except Exception` in _missed_branch_distance (known finding)
        ["cmp_lt", ["PC(1,'Abort')", "PC(2,'Abort')"]], ["truth", ["TB(1,'Abort')"]], ["notin", ["1", "CI(2,'Abort')"]],
        # ... every `Exception` of a converse / reflected operator is swallowed
        ["cmp_lt", ["PC(1,'NotImplementedError')", "PC(2,'NotImplementedError')"]], ["cmp_gt", ["PC(2,'KeyError')", "1"]],
        ["cmp_eq", ["PE(1,'ZeroDivisionError')", "PE(1,'ZeroDivisionError')"]], ["truth", ["TB(1,'AttributeError')"]],
        ["notin", ["1", "CI(2,'MyErr')"]],
    ]
    WITNESS_PRED = {"kind": "pred", "pk": "compare", "op": "LT",
                    "a": {"v": 1, "ops": {"lt": "cmp", "le": "raise:PredAbort", "ge": "raise:PredAbort"}},
                    "b": {"v": 2, "ops": {"lt": "cmp", "le": "raise:PredAbort", "ge": "raise:PredAbort"}}}

    def witnesses(self):
        fs = []
        if getattr(self, "_crash", None) is not None:
            return self.oracle({"kind": "crash"}, {"crash": self._crash["what"]})
        names = [subset_name(ms) for ms in SUBSETS]
        for bucket in "AB":
            calls = [c for c in self.WITNESS_CALLS if bucket_of(c[0]) == bucket]
            case = {"kind": "prog", "family": "adv", "src": "ADV:" + bucket, "calls": calls, "subsets": names}
            io = self.impl(case)
            self.evaluations += 1
            fs += self.oracle(case, io)
        self.evaluations += 1
        fs += self.oracle(self.WITNESS_PRED, self.impl(self.WITNESS_PRED))
        self._checked_comprehensions_crash()
        rc = self._crash_rc
        if rc not in (0,):
            fs.append(Failure(dict(UNBOUND_SIG), f"CHECKED instrumentation of {CRASH_WITNESS!r}: calling f(1) ends "
                                                 f"the interpreter with return code {rc} (segmentation fault)",
                              case={"kind": "prog", "family": "witness", "src": CRASH_WITNESS,
                                    "calls": [["f", ["1"]]], "subsets": ["C"]}))
        return fs


if __name__ == "__main__":
    run_main(C01)
