"""C12 — cached fitness and coverage values are never stale (DESIGN §5 C12).

Correspondence: random operation histories on REAL `TestCaseChromosome`s / `TestSuiteChromosome`s
(real `TestCase`s built and mutated by the real `TestFactory` on a small cluster, real
`TestCaseMutation.mutate`, `TestSuiteMutation.mutate`, `SinglePointRelativeCrossOver`, `clone`,
`add/delete/set_test_case_chromosome`, `add_fitness_function/add_coverage_function`, `invalidate_cache`
and the five getters of the real `ComputationCache`).  Fitness / coverage functions are real-typed
subclasses of `TestCaseFitnessFunction`, `TestCaseCoverageFunction`, `TestSuiteFitnessFunction`,
`TestSuiteCoverageFunction`: they go through the real `_run_test_case_chromosome` /
`_run_test_suite_chromosome` with a fake executor whose result is a token of the executed source text,
and evaluate a pure function of that token.  After every operation the flags, the last result, the
registered functions and the three cache dicts of every touched chromosome are compared with the Lean
model (`Driver/C12.lean`, which is told only the *effects* of the test factory: contents after each
sub-step and the returned flags).

Oracle (independent of the model): every value a getter returns is compared with the value recomputed
from scratch on the chromosome's current tests, twice: by the functions' formulas on a fresh rendering of
the statements (no flag, no cache, no stored result), and literally by calling the function's own
`compute_fitness / compute_is_covered / compute_coverage` on a pristine chromosome built from clones of the
current tests.  A query for a registered function must not raise.

Fitness values are floats of three magnitude classes — whole numbers, quarters and a few `2**-60` (far below
any absolute tolerance) — all exact multiples of `2**-60`, which is the unit the model computes in.
Crossover is driven through `SinglePointRelativeCrossOver` AND by calling `cross_over(other.clone(), position1,
position2)` directly with boundary positions (0, size - 1, size, size + 1) on possibly empty chromosomes.
"""
from __future__ import annotations

import atexit
import math
import shutil
import statistics
import sys
import tempfile
import zlib
from fractions import Fraction
from pathlib import Path

import vcommon
from vcommon import Failure, PropertyCheck, run_main

SUT = '''
class Acc:
    def __init__(self, start: int = 0):
        self.total = start

    def add(self, x: int) -> int:
        self.total += x
        return self.total

    def name(self, prefix: str) -> str:
        return prefix + str(self.total)


def scale(x: int, y: float) -> float:
    if x > 3:
        return x * y
    return y


def pick(flag: bool, s: str) -> str:
    return s.upper() if flag else s
'''

MAX_TCS = 4
MAX_SUITES = 3
MAX_MEMBERS = 5
N_FUNCS = 5
QUERIES = ["fitness", "fitnessFor", "isCovered", "coverage", "coverageFor"]
KNOWN_SIG = {"op": "mutateSuite", "class": "empty-test-dropped-unflagged"}


# ---------------------------------------------------------------------------------------------
# the deterministic functions (same formulas as Model/Cache.lean `tcSem` / `suSem`)
# ---------------------------------------------------------------------------------------------
UNIT_BITS = 60           # the model's unit is 2**-60
MAX_SPLICED = 8          # a direct suite crossover never grows a suite beyond this many members


def mag(m, v):
    """v, v/4 or v * 2**-60 (magnitude class m % 3) in units of 2**-60 (Model/Cache.lean `mag`)."""
    return (v << 60, v << 58, v)[m % 3]


def to_float(units):
    """the float with exactly this many units (units < 2**63 with <= 3 significant bits: always exact)"""
    return math.ldexp(units, -UNIT_BITS)


def tc_fit(f, c):
    return mag(c + f, (c * (f + 2) + f) % 5)


def tc_cov(f, c):
    return (c + 2 * f) % 5


def su_fit(f, cs):
    return mag(sum(cs) + f, (sum(cs) + f * len(cs) + f) % 7)


def su_cov(f, cs):
    return (sum(cs) + 3 * f + len(cs)) % 5


class _Env:
    """Process-wide real pynguin objects (cluster, factory, patched recorders)."""

    ready = False


ENV = _Env()


def _setup_env():
    if ENV.ready:
        return ENV
    import logging

    import libcst as cst
    import pynguin.configuration as config
    import pynguin.ga.computations as ff
    import pynguin.ga.operators.crossover as xo
    import pynguin.ga.testcasechromosome as tcc
    import pynguin.ga.testsuitechromosome as tsc
    import pynguin.testcase.testcase as tc
    from pynguin.analyses.module import generate_test_cluster
    from pynguin.testcase.execution_result import ExecutionResult
    from pynguin.testcase.testfactory import TestFactory
    from pynguin.utils import randomness

    logging.disable(logging.CRITICAL)
    tmp = tempfile.mkdtemp(prefix="c12-")
    atexit.register(shutil.rmtree, tmp, True)
    Path(tmp, "c12sut.py").write_text(SUT.lstrip("\n"))
    sys.path.insert(0, tmp)
    cfg = config.Configuration(
        algorithm=config.Algorithm.WHOLE_SUITE, project_path=tmp,
        test_case_output=config.TestCaseOutputConfiguration(output_path=""), module_name="c12sut")
    config.configuration = cfg
    ENV.config, ENV.cfg, ENV.cst, ENV.ff, ENV.xo, ENV.tcc, ENV.tsc, ENV.tc = config, cfg, cst, ff, xo, tcc, tsc, tc
    ENV.randomness, ENV.ExecutionResult = randomness, ExecutionResult
    ENV.cluster = generate_test_cluster("c12sut")
    ENV.factory = TestFactory(ENV.cluster)
    ENV.state = None       # the running history (content interning, recorders)
    _install_recorders()
    _define_functions()
    ENV.ready = True
    return ENV


class _Rec:
    """Events of one `TestCaseMutation.mutate` call, observed at nesting depth 0."""

    def __init__(self, chrom):
        self.chrom = chrom
        self.events = []
        self.depth = 0


def _install_recorders():
    """Class-level observers: they only record, every original is called with the original arguments."""
    tcc, tc = ENV.tcc, ENV.tc
    from pynguin.testcase.testfactory import TestFactory

    def cur():
        st = ENV.state
        return st.rec if st is not None else None

    def wrap_sub(name):
        orig = getattr(tcc.TestCaseChromosome, name)

        def sub(self):
            rec = cur()
            if rec is None or rec.depth > 0 or rec.chrom is not self:
                return orig(self)
            rec.depth += 1
            try:
                ret = orig(self)
            finally:
                rec.depth -= 1
            rec.events.append((name, bool(ret), ENV.state.cid(self.test_case)))
            return ret

        setattr(tcc.TestCaseChromosome, name, sub)

    for n in ("_mutation_delete", "_mutation_change", "_mutation_insert"):
        wrap_sub(n)

    orig_batch = tc.TestCase.remove_statements_batch

    def batch(self, indices):
        rec = cur()
        r = orig_batch(self, indices)
        if rec is not None and rec.depth == 0 and rec.chrom.test_case is self:
            rec.events.append(("batch",))
        return r

    tc.TestCase.remove_statements_batch = batch

    orig_clone = tc.TestCase.clone

    def clone(self):
        rec = cur()
        if rec is not None and rec.depth == 0 and rec.chrom.test_case is self:
            rec.events.append(("clone", ENV.state.cid(self)))
        return orig_clone(self)

    tc.TestCase.clone = clone

    orig_has = TestFactory.has_call_on_sut

    def has_call(self, test_case):
        rec = cur()
        r = orig_has(self, test_case)
        if rec is not None and rec.depth == 0 and rec.chrom.test_case is test_case:
            rec.events.append(("hascall", bool(r)))
        return r

    TestFactory.has_call_on_sut = has_call

    orig_mut = tcc.TestCaseChromosome.mutate

    def mutate(self):
        st = ENV.state
        if st is None or st.recs is None:
            return orig_mut(self)
        rec = _Rec(self)
        c0 = st.cid(self.test_case)
        st.rec = rec
        try:
            orig_mut(self)
        finally:
            st.rec = None
        st.recs.append((self, _parse_events(c0, rec.events)))
        return None

    tcc.TestCaseChromosome.mutate = mutate


def _parse_events(c0, events):
    """(name, …) events of one mutate call -> the MutEff of the model."""
    eff = {"chop": None, "del": None, "chg": None, "ins": None, "hasCall": True, "ins2": {"ret": False, "after": 0}}
    i = 0
    chopped = False
    if i < len(events) and events[i][0] == "batch":
        chopped = True
        i += 1
    assert i < len(events) and events[i][0] == "clone", events
    backup = events[i][1]
    i += 1
    if chopped:
        eff["chop"] = backup
    names = {"_mutation_delete": "del", "_mutation_change": "chg", "_mutation_insert": "ins"}
    while i < len(events) and events[i][0] in names:
        key = names[events[i][0]]
        assert eff[key] is None, events
        eff[key] = {"ret": events[i][1], "after": events[i][2]}
        i += 1
    assert i < len(events) and events[i][0] == "hascall", events
    eff["hasCall"] = events[i][1]
    i += 1
    eff["ins2"] = {"ret": False, "after": backup}
    if i < len(events):
        assert events[i][0] == "_mutation_insert" and not eff["hasCall"], events
        eff["ins2"] = {"ret": events[i][1], "after": events[i][2]}
        i += 1
    assert i == len(events), events
    return eff


def _define_functions():
    ff, ExecutionResult = ENV.ff, ENV.ExecutionResult

    class Executor:
        """Fake executor: the result is a token (content id) of the source text it was given."""

        def execute(self, test_case):
            r = ExecutionResult()
            c = ENV.state.cid(test_case)
            r.c12 = c
            n = test_case.size()
            if n > 0:
                h = zlib.crc32(ENV.state.code(test_case).encode())
                if h % 4 == 0:   # some results carry an exception (moves `get_last_mutatable_statement`)
                    r.report_new_thrown_exception(h // 4 % n, ValueError("c12"))
            ENV.state.executions += 1
            return r

        def execute_multiple(self, test_cases):
            return (self.execute(t) for t in test_cases)

    ex = Executor()

    class TcFit(ff.TestCaseFitnessFunction):
        def __init__(self, fid):
            super().__init__(ex, 0)
            self.fid = fid

        def compute_fitness(self, individual):
            return to_float(tc_fit(self.fid, self._run_test_case_chromosome(individual).c12))

        def compute_is_covered(self, individual):
            return tc_fit(self.fid, self._run_test_case_chromosome(individual).c12) == 0

        def is_maximisation_function(self):
            return False

    class TcCov(ff.TestCaseCoverageFunction):
        def __init__(self, fid):
            super().__init__(ex)
            self.fid = fid

        def compute_coverage(self, individual):
            return tc_cov(self.fid, self._run_test_case_chromosome(individual).c12) / 4

    class SuFit(ff.TestSuiteFitnessFunction):
        def __init__(self, fid):
            super().__init__(ex)
            self.fid = fid

        def compute_fitness(self, individual):
            return to_float(su_fit(self.fid, [r.c12 for r in self._run_test_suite_chromosome(individual)]))

        def compute_is_covered(self, individual):
            return su_fit(self.fid, [r.c12 for r in self._run_test_suite_chromosome(individual)]) == 0

        def is_maximisation_function(self):
            return False

    class SuCov(ff.TestSuiteCoverageFunction):
        def __init__(self, fid):
            super().__init__(ex)
            self.fid = fid

        def compute_coverage(self, individual):
            return su_cov(self.fid, [r.c12 for r in self._run_test_suite_chromosome(individual)]) / 4

    ENV.funcs = {("tc", "fit"): [TcFit(i) for i in range(N_FUNCS)], ("tc", "cov"): [TcCov(i) for i in range(N_FUNCS)],
                 ("su", "fit"): [SuFit(i) for i in range(N_FUNCS)], ("su", "cov"): [SuCov(i) for i in range(N_FUNCS)]}


class _History:
    """One history on the real objects."""

    def __init__(self, case):
        self.case = case
        self.ids: dict[str, int] = {}
        self.memo: dict = {}
        self.rec = None
        self.recs = None
        self.executions = 0
        self.tcs: list = []
        self.suites: list = []
        self.steps: list = []
        self.tainted = False        # an unregistered per-function query happened (kind "unreg" only)
        self.flags: set[str] = set()

    # -- content ------------------------------------------------------------------------------
    def code(self, test_case) -> str:
        stmts = test_case.statements()
        key = tuple(id(s.node) for s in stmts)
        hit = self.memo.get(key)
        if hit is not None and all(a is b.node for a, b in zip(hit[0], stmts)):
            return hit[1]
        code = test_case.to_module().code       # fresh rendering, not `_code_cache`
        self.memo[key] = (tuple(s.node for s in stmts), code)
        return code

    def cid(self, test_case) -> int:
        if test_case.size() == 0:
            return 0
        return self.ids.setdefault(self.code(test_case), len(self.ids) + 1)

    # -- snapshots ----------------------------------------------------------------------------
    @staticmethod
    def _cache(ch):
        cc = ch.computation_cache
        return [[f.fid for f in cc._fitness_functions], [f.fid for f in cc._coverage_functions],
                sorted([f.fid, _units(v)] for f, v in cc._fitness_cache.items()),
                sorted([f.fid, 1 if v else 0] for f, v in cc._is_covered_cache.items()),
                sorted([f.fid, _exact_int(v * 4)] for f, v in cc._coverage_cache.items())]

    def snap_tc(self, t):
        r = t.get_last_execution_result()
        return [self.cid(t.test_case), bool(t.changed), None if r is None else r.c12] + self._cache(t)

    def snap_su(self, s):
        return [[self.snap_tc(t) for t in s.test_case_chromosomes], bool(s.changed)] + self._cache(s)

    def touched(self, refs):
        out = []
        for r in refs:
            if r[0] == "tc":
                out.append(["tc", r[1], self.snap_tc(self.tcs[r[1]])])
            else:
                out.append(["su", r[1], self.snap_su(self.suites[r[1]])])
        return out

    # -- from-scratch values ------------------------------------------------------------------
    def scratch(self, ch, level, q, f):
        cc = ch.computation_cache
        fs = _dedup([x.fid for x in cc._fitness_functions])
        cfs = _dedup([x.fid for x in cc._coverage_functions])
        if level == "tc":
            r = self.cid(ch.test_case)
            fit, cov = tc_fit, tc_cov
        else:
            r = [self.cid(t.test_case) for t in ch.test_case_chromosomes]
            fit, cov = su_fit, su_cov
        if q == "fitness":      # the float sum in registration order (exact or order-independent, see _units)
            return {"vf": _frac(sum(to_float(fit(g, r)) for g in fs))}
        if q == "fitnessFor":
            return {"v": fit(f, r)}
        if q == "isCovered":
            return {"b": fit(f, r) == 0}
        if q == "coverage":
            if not cfs:
                return {"err": "StatisticsError"}
            return {"meanf": _frac(statistics.mean([cov(g, r) / 4 for g in cfs]))}
        return {"v": cov(f, r)}

    def literal(self, ch, level, q, fobj):
        """The same values by the functions' own compute_* on a pristine chromosome (clones of the current tests)."""
        env = ENV
        cc = ch.computation_cache
        execs = self.executions
        try:
            if level == "tc":
                fresh = env.tcc.TestCaseChromosome(ch.test_case.clone())
            else:
                fresh = env.tsc.TestSuiteChromosome()
                for t in ch.test_case_chromosomes:
                    fresh.add_test_case_chromosome(env.tcc.TestCaseChromosome(t.test_case.clone()))
            if q == "fitness":
                return {"vf": _frac(sum(g.compute_fitness(fresh) for g in _dedup_objs(cc._fitness_functions)))}
            if q == "fitnessFor":
                return {"v": _units(fobj.compute_fitness(fresh))}
            if q == "isCovered":
                return {"b": bool(fobj.compute_is_covered(fresh))}
            if q == "coverage":
                cfs = _dedup_objs(cc._coverage_functions)
                if not cfs:
                    return {"err": "StatisticsError"}
                return {"meanf": _frac(statistics.mean([g.compute_coverage(fresh) for g in cfs]))}
            return {"v": _exact_int(fobj.compute_coverage(fresh) * 4)}
        finally:
            self.executions = execs


def _units(v):
    """A fitness value in units of 2**-60 (an int; anything else is returned as an exact fraction).

    Sums: the values are whole numbers / quarters (exact among themselves) and <= 5 values of <= 6 * 2**-60
    (together < 2**-55 = half an ulp of 0.25), so a float sum in ANY order is the correctly rounded exact sum."""
    fr = Fraction(v) * (1 << UNIT_BITS)
    return int(fr) if fr.denominator == 1 else [fr.numerator, fr.denominator]


def _dedup_objs(xs):
    out = []
    for x in xs:
        if not any(x is y for y in out):
            out.append(x)
    return out


def _pos(spec, size):
    """a planned split position for a chromosome of `size` elements"""
    m = spec["m"]
    if m == "zero":
        return 0
    if m == "size":
        return size
    if m == "size-1":
        return max(size - 1, 0)
    if m == "size+1":
        return size + 1
    return spec["v"] % (size + 1)


def _exact_int(v):
    fr = Fraction(v)
    assert fr.denominator == 1, v
    return int(fr)


def _frac(v):
    fr = Fraction(v)
    return [fr.numerator, fr.denominator]


def _dedup(xs):
    out = []
    for x in xs:
        if x not in out:
            out.append(x)
    return out


class C12(PropertyCheck):
    prop_id = "C12"
    prop_modules = ["PynguinModel.Props.C12"]
    extra_modules = ["PynguinModel.Model.Cache"]
    driver = "Driver/C12.lean"
    n_quick = 300
    n_thorough = 6000
    n_search = 3000
    rule = ("random histories (8..45 operations) over <=4 test-case chromosomes and <=3 suite chromosomes: real "
            "mutate / relative crossover / direct cross_over(other, p1, p2) with boundary positions (0, size-1, size, "
            "size+1) and empty chromosomes / clone / add-delete-set member (clones) / add or set a member OBJECT a second "
            "time (one chromosome at several positions of a suite) / add function / invalidate / the five "
            "getters (fitness values: whole numbers, quarters and k*2**-60) on "
            "chromosomes, suites and suite members, functions queried in random order, registered-only histories "
            "(85%) and histories with unregistered per-function queries (15%); non-trivial = distinct history with "
            ">=1 getter answered from the cache of an unchanged chromosome AND >=1 getter that had to recompute "
            "after a content-changing operation")
    assumptions = [
        "fitness / coverage functions are deterministic functions of the execution results and go through "
        "_run_test_case_chromosome / _run_test_suite_chromosome; compute_is_covered agrees with fitness == 0 (C10)",
        "suite member objects are owned by ONE suite (a suite may hold the same object at several positions, but "
        "objects are not shared between two suites or with the free test-case chromosomes; a member is never mutated "
        "behind its suite's back); set_fitness_values / set_coverage_values and direct compute_* calls are not part of "
        "a history",
        "a query for a function that was never registered is outside the contract (KeyError is accepted, and after "
        "such a query only per-function results are judged)",
    ]
    trusted_base_extra = [
        "Model/Cache.lean mirrors ComputationCache.{_check_cache,_compute_*,get_*,invalidate_cache,add_*_function,"
        "clone}, _run_test_case_chromosome, _run_test_suite_chromosome, TestCaseMutation.mutate, "
        "TestSuiteMutation.mutate, splice_test_case_chromosomes, splice_test_suite_chromosomes, "
        "SinglePointRelativeCrossOver.cross_over, TestCaseChromosome.cross_over / TestSuiteChromosome.cross_over with "
        "arbitrary positions, TestSuiteChromosome.{add,delete,set}_test_case_chromosome with new objects and with objects "
        "that already are members (Suite.objs / Suite.order: references, not values); fitness values are exact "
        "multiples of 2**-60 (math.isclose(v, 0.0) with default tolerances = isCloseZero)",
        "the test factory's statement edits are not modelled: the model receives their observed effect (content "
        "identifiers after each sub-step, returned flags); hypothesis `honest` = a sub-step that returns False left "
        "the statements alone (checked on every real mutation by the adapter, counted as kind:dishonest-substep)",
    ]

    # -- generator ---------------------------------------------------------------------------------
    def gen_case(self, rng):
        unreg = rng.random() < 0.15
        n = rng.randint(8, 45)
        plan = []

        def new_tc():
            kind = rng.choices(["random", "prim", "empty"], [6, 3, 1])[0]
            return {"k": "newTc", "kind": kind, "n": rng.randint(1, 4), "val": rng.randint(0, 3),
                    "fs": rng.sample(range(N_FUNCS), rng.choice([0, 1, 1, 2]))}

        def ref():
            x = rng.random()
            if x < 0.45:
                return ["tc", rng.randrange(64)]
            if x < 0.8:
                return ["su", rng.randrange(64)]
            return ["mem", rng.randrange(64), rng.randrange(64)]

        plan += [new_tc(), new_tc(), {"k": "newSuite"}]
        for _ in range(rng.randint(0, 3)):
            plan.append({"k": "addTest", "s": 0, "i": rng.randrange(2)})
        def pos():
            return {"m": rng.choice(["zero", "size", "size-1", "size+1", "rand", "rand"]), "v": rng.randrange(64)}

        kinds = ["newTc", "cloneTc", "mutTc", "xTc", "newSuite", "cloneSu", "addTest", "delTest", "setTest", "mutSu",
                 "xSu", "addFit", "addCov", "inval", "q", "xTcD", "xSuD", "addAlias", "setAlias"]
        weights = [2, 2, 8, 4, 1, 2, 4, 1, 1, 7, 3, 5, 4, 1, 24, 2, 4, 3, 1]
        if rng.random() < 0.35:     # the first suite holds one of its member OBJECTS twice from the start,
            plan.append({"k": "addAlias", "s": 0, "m": rng.randrange(4)})      # often followed by a further new test
            if rng.random() < 0.6:
                plan.append({"k": "addTest", "s": 0, "i": rng.randrange(2)})
        if rng.random() < 0.8:      # the first suite usually has functions from the start
            plan.append({"k": "addFit", "ref": ["su", 0], "f": rng.randrange(N_FUNCS)})
            plan.append({"k": rng.choice(["addFit", "addCov"]), "ref": ["su", 0], "f": rng.randrange(N_FUNCS)})

        def probe(r):
            """a getter on the chromosome an operation is about to change / has just changed"""
            return {"k": "q", "ref": r, "q": rng.choices(QUERIES, [4, 5, 4, 2, 3])[0], "f": rng.randrange(64),
                    "unreg": False}

        targets = {"mutTc": ("tc", "i"), "xTc": ("tc", "a"), "xTcD": ("tc", "a"), "mutSu": ("su", "s"),
                   "xSu": ("su", "a"), "xSuD": ("su", "a"), "addTest": ("su", "s"), "delTest": ("su", "s"),
                   "setTest": ("su", "s"), "addAlias": ("su", "s"), "setAlias": ("su", "s")}
        for _ in range(n):
            k = rng.choices(kinds, weights)[0]
            a, b, c = rng.randrange(64), rng.randrange(64), rng.randrange(64)
            bracket = k in targets and rng.random() < (0.45 if k.startswith("x") else 0.25)
            if bracket:                 # query - edit - query on the same chromosome
                plan.append(probe([targets[k][0], a]))
            at = len(plan)
            if k == "newTc":
                plan.append(new_tc())
            elif k in ("cloneTc", "cloneSu"):
                plan.append({"k": k, "src": a, "dst": b})
            elif k == "mutTc":
                plan.append({"k": k, "i": a})
            elif k in ("xTc", "xSu"):
                plan.append({"k": k, "a": a, "b": b, "r": rng.randrange(16)})
            elif k in ("xTcD", "xSuD"):
                plan.append({"k": k, "a": a, "b": b, "p1": pos(), "p2": pos()})
            elif k == "newSuite":
                plan.append({"k": k})
            elif k == "addTest":
                plan.append({"k": k, "s": a, "i": b})
            elif k == "delTest":
                plan.append({"k": k, "s": a, "m": b})
            elif k == "setTest":
                plan.append({"k": k, "s": a, "m": b, "i": c})
            elif k == "addAlias":
                plan.append({"k": k, "s": a, "m": b})
            elif k == "setAlias":
                plan.append({"k": k, "s": a, "m": b, "j": c})
            elif k == "mutSu":
                plan.append({"k": k, "s": a, "new": [new_tc() for _ in range(3)]})
            elif k in ("addFit", "addCov"):
                plan.append({"k": k, "ref": ref(), "f": rng.randrange(N_FUNCS)})
            elif k == "inval":
                plan.append({"k": k, "ref": ref()})
            else:
                plan.append({"k": "q", "ref": ref(), "q": rng.choices(QUERIES, [3, 5, 4, 2, 4])[0], "f": a,
                             "unreg": unreg and rng.random() < 0.25})
                while rng.random() < 0.35:      # the same chromosome and function index, another getter
                    plan.append(dict(plan[-1], q=rng.choices(QUERIES, [3, 5, 6, 2, 4])[0]))
            if bracket:
                assert plan[at][targets[k][1]] == a
                plan.append(probe([targets[k][0], a]))
        return {"seed": rng.randrange(1 << 30), "cl": rng.choice([3, 4, 6, 8]), "maxsize": rng.choice([2, 3, 5]),
                "pins": rng.choice([0.3, 0.5, 0.8]), "ptest": rng.choice([0.1, 0.4]), "unreg": unreg, "plan": plan}

    # -- real implementation -------------------------------------------------------------------------
    def impl(self, case):
        key = vcommon.jdump(case)
        cache = self.__dict__.setdefault("_impl_cache", {})
        if key not in cache:
            if len(cache) > 20000:
                cache.clear()
            cache[key] = self._run_real(case)
        return cache[key]

    def _make_tc(self, st, spec):
        env = ENV
        t = env.tc.TestCase()
        if spec["kind"] == "random":
            attempts = 0
            while t.size() < spec["n"] and attempts < 6:
                env.factory.insert_random_statement(t, t.size())
                attempts += 1
        elif spec["kind"] == "prim":
            for i in range(min(spec["n"], 2)):
                node = env.cst.parse_module(f"int_{i} = {spec['val'] + i}\n").body[0]
                t.add_statement(env.tc.Statement(node=node, bound_variable=f"int_{i}", bound_type=int))
        ch = env.tcc.TestCaseChromosome(t, env.factory)
        for f in spec["fs"]:
            ch.add_fitness_function(env.funcs[("tc", "fit")][f])
        return ch

    def _run_real(self, case):
        env = _setup_env()
        sa = env.cfg.search_algorithm
        sa.chromosome_length = case["cl"]
        sa.chop_max_length = True
        sa.statement_insertion_probability = case["pins"]
        sa.test_insertion_probability = case["ptest"]
        env.cfg.test_creation.max_size = case["maxsize"]
        env.randomness.RNG.seed(case["seed"])
        st = _History(case)
        env.state = st
        try:
            for p in case["plan"]:
                self._do(st, p)
            final = {"tcs": [st.snap_tc(t) for t in st.tcs], "suites": [st.snap_su(s) for s in st.suites]}
        finally:
            env.state = None
        return {"steps": st.steps, "final": final, "flags": sorted(st.flags), "executions": st.executions}

    # one planned operation -> zero or one model operation
    def _do(self, st, p):  # noqa: C901
        env = ENV
        k = p["k"]
        ntc, nsu = len(st.tcs), len(st.suites)

        def emit(op, refs, out=None, **extra):
            st.steps.append(dict({"op": op, "o": out, "t": st.touched(refs)}, **extra))

        def resolve(ref):
            """-> (model ref, chromosome, level, host ref for the snapshot) or None"""
            if ref[0] == "tc":
                if not ntc:
                    return None
                i = ref[1] % ntc
                return {"tc": {"i": i}}, st.tcs[i], "tc", ("tc", i)
            if not nsu:
                return None
            s = ref[1] % nsu
            if ref[0] == "su":
                return {"su": {"s": s}}, st.suites[s], "su", ("su", s)
            ms = st.suites[s].test_case_chromosomes
            if not ms:
                return None
            m = ref[2] % len(ms)
            return {"mem": {"s": s, "k": m}}, ms[m], "tc", ("su", s)

        if k == "newTc":
            if ntc >= MAX_TCS:
                return
            ch = self._make_tc(st, p)
            st.tcs.append(ch)
            emit({"newTc": {"c": st.cid(ch.test_case), "fs": p["fs"]}}, [("tc", ntc)])
        elif k == "cloneTc":
            if not ntc:
                return
            src = p["src"] % ntc
            dst = p["dst"] % min(ntc + 1, MAX_TCS)
            new = st.tcs[src].clone()
            _copy_cause(st.tcs[src], new)
            if dst == ntc:
                st.tcs.append(new)
            else:
                st.tcs[dst] = new
            emit({"cloneTc": {"src": src, "dst": dst}}, [("tc", dst)])
        elif k == "mutTc":
            if not ntc:
                return
            i = p["i"] % ntc
            ch = st.tcs[i]
            before = (st.cid(ch.test_case), ch.changed)
            st.recs = []
            try:
                ch.mutate()
            finally:
                recs, st.recs = st.recs, None
            eff = recs[0][1]
            self._note_mutation(st, ch, before, eff)
            emit({"mutateTc": {"i": i, "e": eff}}, [("tc", i)])
        elif k == "xTc":
            if ntc < 2:
                return
            i = p["a"] % ntc
            j = p["b"] % ntc
            if i == j:
                j = (i + 1) % ntc
            a, b = st.tcs[i], st.tcs[j]
            olds = (a.test_case, b.test_case)
            self._with_split(p["r"], lambda: env.xo.SinglePointRelativeCrossOver().cross_over(a, b))
            ei = st.cid(a.test_case) if a.test_case is not olds[0] else None
            ej = st.cid(b.test_case) if b.test_case is not olds[1] else None
            self.count("xoverTc:" + ("accepted" if ei is not None or ej is not None else "rejected-or-small"))
            for ch, e in ((a, ei), (b, ej)):
                if ch.changed:
                    _clear_cause(ch)
                elif e is not None:
                    ch._c12_cause = {"op": "xoverTc", "class": "offspring-accepted-unflagged"}
            emit({"xoverTc": {"i": i, "j": j, "ei": ei, "ej": ej}}, [("tc", i), ("tc", j)])
        elif k == "newSuite":
            if nsu >= MAX_SUITES:
                return
            fac = _Factory(self, st)
            st.suites.append(env.tsc.TestSuiteChromosome(fac))
            emit("newSuite", [("su", nsu)])
        elif k == "cloneSu":
            if not nsu:
                return
            src = p["src"] % nsu
            dst = p["dst"] % min(nsu + 1, MAX_SUITES)
            new = st.suites[src].clone()
            _copy_cause(st.suites[src], new)
            for x, y in zip(st.suites[src].test_case_chromosomes, new.test_case_chromosomes):
                _copy_cause(x, y)
            if dst == nsu:
                st.suites.append(new)
            else:
                st.suites[dst] = new
            emit({"cloneSuite": {"src": src, "dst": dst}}, [("su", dst)])
        elif k in ("addTest", "setTest"):
            if not nsu or not ntc:
                return
            s, i = p["s"] % nsu, p["i"] % ntc
            su = st.suites[s]
            new = st.tcs[i].clone()
            _copy_cause(st.tcs[i], new)
            if k == "addTest":
                if su.size() >= MAX_MEMBERS:
                    return
                su.add_test_case_chromosome(new)
                op = {"addTest": {"s": s, "i": i}}
            else:
                if not su.size():
                    return
                m = p["m"] % su.size()
                su.set_test_case_chromosome(m, new)
                op = {"setTest": {"s": s, "k": m, "i": i}}
            _clear_cause(su)
            emit(op, [("su", s)])
        elif k in ("addAlias", "setAlias"):
            # the member OBJECT of position m once more (no clone): one chromosome at two positions of the suite
            if not nsu:
                return
            s = p["s"] % nsu
            su = st.suites[s]
            if not su.size():
                return
            m = p["m"] % su.size()
            if k == "addAlias":
                if su.size() >= MAX_MEMBERS:
                    return
                su.add_test_case_chromosome(su.get_test_case_chromosome(m))
                op = {"addAlias": {"s": s, "k": m}}
            else:
                j = p["j"] % su.size()
                su.set_test_case_chromosome(m, su.get_test_case_chromosome(j))
                op = {"setAlias": {"s": s, "k": m, "j": j}}
            ms = su.test_case_chromosomes
            if len({id(t) for t in ms}) < len(ms):
                self.count("alias:suite-holds-an-object-twice")
            _clear_cause(su)
            emit(op, [("su", s)])
        elif k == "delTest":
            if not nsu:
                return
            s = p["s"] % nsu
            su = st.suites[s]
            if not su.size():
                return
            m = p["m"] % su.size()
            before = list(su.test_case_chromosomes)
            su.delete_test_case_chromosome(before[m])
            after = su.test_case_chromosomes
            removed = next((x for x in range(len(before)) if x >= len(after) or after[x] is not before[x]), None)
            if removed is None:       # ValueError swallowed: nothing removed (model: index out of range)
                removed = len(before)
            _clear_cause(su)
            emit({"delTest": {"s": s, "k": removed}}, [("su", s)])
        elif k == "mutSu":
            if not nsu:
                return
            s = p["s"] % nsu
            su = st.suites[s]
            members = list(su.test_case_chromosomes)
            before = ([st.cid(t.test_case) for t in members], su.changed)
            mbefore = {id(t): (st.cid(t.test_case), t.changed) for t in members}
            fac = su.test_case_chromosome_factory
            fac.begin(p["new"])
            st.recs = []
            try:
                su.mutate()
            finally:
                recs, st.recs = st.recs, None
            # mutate() is called position by position: an object that sits at two positions may be mutated twice
            per, nxt = [], 0
            for t in members:
                if nxt < len(recs) and recs[nxt][0] is t:
                    per.append(recs[nxt][1])
                    nxt += 1
                else:
                    per.append(None)
            assert nxt == len(recs), (nxt, len(recs))
            if len({id(t) for t in members}) < len(members):
                self.count("mutateSuite:on-suite-with-shared-object")
                if len({id(ch) for ch, _ in recs}) < len(recs):
                    self.count("mutateSuite:shared-object-mutated-twice")
            for ch, eff in recs:
                if id(ch) in mbefore:
                    self._note_mutation(st, ch, mbefore[id(ch)], eff)
                    mbefore[id(ch)] = (_eff_final(eff, mbefore[id(ch)][0]), None)
            added = fac.end()
            after = [st.cid(t.test_case) for t in su.test_case_chromosomes]
            self.count("mutateSuite:members-mutated", sum(1 for x in per if x is not None))
            self.count("mutateSuite:added", len(added))
            if su.changed:
                _clear_cause(su)
            elif after != before[0]:
                if [c for c in before[0] if c != 0] == after:
                    su._c12_cause = dict(KNOWN_SIG)
                    self.count("mutateSuite:empty-test-dropped-unflagged")
                else:
                    su._c12_cause = {"op": "mutateSuite", "class": "content-changed-unflagged"}
            emit({"mutateSuite": {"s": s, "e": {"per": per, "added": added}}}, [("su", s)])
        elif k == "xSu":
            if nsu < 2:
                return
            s = p["a"] % nsu
            t = p["b"] % nsu
            if s == t:
                t = (s + 1) % nsu
            a, b = st.suites[s], st.suites[t]
            na, nb = a.size(), b.size()
            befores = [[st.cid(x.test_case) for x in ch.test_case_chromosomes] for ch in (a, b)]
            r = p["r"] / 16
            p1 = math.floor((na - 1) * r) + 1 if na >= 2 and nb >= 2 else 0
            p2 = math.floor((nb - 1) * r) + 1 if na >= 2 and nb >= 2 else 0
            self._with_split(p["r"], lambda: env.xo.SinglePointRelativeCrossOver().cross_over(a, b))
            self.count("xoverSuite:" + ("done" if na >= 2 and nb >= 2 else "small"))
            for ch, before in zip((a, b), befores):
                if ch.changed:
                    _clear_cause(ch)
                elif [st.cid(x.test_case) for x in ch.test_case_chromosomes] != before:
                    ch._c12_cause = {"op": "xoverSuite", "class": "content-changed-unflagged"}
            emit({"xoverSuite": {"s": s, "t": t, "p1": p1, "p2": p2}}, [("su", s), ("su", t)])
        elif k == "xTcD":
            # tcs[i].cross_over(tcs[j].clone(), position1, position2) called directly; i == j is allowed
            if not ntc:
                return
            i, j = p["a"] % ntc, p["b"] % ntc
            a, b = st.tcs[i], st.tcs[j]
            p1, p2 = _pos(p["p1"], a.test_case.size()), _pos(p["p2"], b.test_case.size())
            old, c0 = a.test_case, st.cid(a.test_case)
            a.cross_over(b.clone(), p1, p2)
            e = st.cid(a.test_case) if a.test_case is not old else None
            self.count("crossTc:" + ("accepted" if e is not None else "rejected"))
            self.count("crossTc:p1-" + p["p1"]["m"] + ":p2-" + p["p2"]["m"])
            if a.changed:
                _clear_cause(a)
            elif st.cid(a.test_case) != c0:
                a._c12_cause = {"op": "crossTc", "class": "content-changed-unflagged"}
            emit({"crossTc": {"i": i, "j": j, "e": e}}, [("tc", i)])
        elif k == "xSuD":
            # suites[s].cross_over(suites[t].clone(), position1, position2) called directly (boundary positions,
            # empty suites, s == t)
            if not nsu:
                return
            s, t = p["a"] % nsu, p["b"] % nsu
            a, b = st.suites[s], st.suites[t]
            na, nb = a.size(), b.size()
            p1, p2 = _pos(p["p1"], na), _pos(p["p2"], nb)
            tail = max(nb - p2, 0)
            if min(p1, na) + tail > MAX_SPLICED:
                p1 = max(0, MAX_SPLICED - tail)
            before = [st.cid(x.test_case) for x in a.test_case_chromosomes]
            a.cross_over(b.clone(), p1, p2)
            after = [st.cid(x.test_case) for x in a.test_case_chromosomes]
            self.count("crossSuite:" + ("empty-tail" if tail == 0 else "tail") + ":"
                       + ("kept-all" if p1 >= na else "truncated"))
            if na == 0 or nb == 0:
                self.count("crossSuite:with-empty-suite")
            if a.changed:
                _clear_cause(a)
            elif after != before:
                a._c12_cause = {"op": "crossSuite", "class": ("truncated-with-empty-tail-unflagged" if tail == 0
                                                               else "content-changed-unflagged")}
            emit({"crossSuite": {"s": s, "t": t, "p1": p1, "p2": p2}}, [("su", s)])
        elif k in ("addFit", "addCov", "inval"):
            res = resolve(p["ref"])
            if res is None:
                return
            mref, ch, level, host = res
            if k == "inval":
                ch.invalidate_cache()
                op = {"invalidate": {"r": mref}}
            elif k == "addFit":
                ch.add_fitness_function(env.funcs[(level, "fit")][p["f"]])
                op = {"addFit": {"r": mref, "f": p["f"]}}
            else:
                ch.add_coverage_function(env.funcs[(level, "cov")][p["f"]])
                op = {"addCov": {"r": mref, "f": p["f"]}}
            emit(op, [host])
        elif k == "q":
            res = resolve(p["ref"])
            if res is None:
                return
            self._query(st, p, *res, emit)
        else:
            raise AssertionError(k)
        self.count("op:" + k)

    def _with_split(self, r16, thunk):
        rnd = ENV.randomness
        orig = rnd.next_float
        rnd.next_float = lambda: r16 / 16
        try:
            thunk()
        finally:
            rnd.next_float = orig

    def _note_mutation(self, st, ch, before, eff):
        """Input distribution + which (if any) unflagged content change this mutation made."""
        c0, was_changed = before
        c1 = eff["chop"] if eff["chop"] is not None else c0
        cur, dishonest = c1, False
        for key in ("del", "chg", "ins"):
            e = eff[key]
            if e is not None:
                if not e["ret"] and e["after"] != cur:
                    dishonest = True
                cur = e["after"]
        if eff["chop"] is not None:
            self.count("mutate:chop")
        if not eff["hasCall"]:
            self.count("mutate:no-sut-call-backup-restored")
            if eff["ins2"]["after"] != c1:
                self.count("mutate:insert-on-backup-changed-content")
            if not eff["ins2"]["ret"] and eff["ins2"]["after"] != c1:
                dishonest = True
        if dishonest:
            self.count("kind:dishonest-substep")
        now = st.cid(ch.test_case)
        if ch.changed:
            _clear_cause(ch)
            self.count("mutate:flagged")
        else:
            self.count("mutate:not-flagged")
            if now != c0:
                if dishonest:
                    cls = "substep-returned-false-but-changed-content"
                elif not eff["hasCall"]:
                    cls = "insert-on-restored-backup-ignored"
                else:
                    cls = "content-changed-unflagged"
                ch._c12_cause = {"op": "mutateTc", "class": cls}

    def _query(self, st, p, mref, ch, level, host, emit):
        env = ENV
        q = p["q"]
        cc = ch.computation_cache
        f = None
        registered = True
        if q in ("fitnessFor", "isCovered", "coverageFor"):
            regs = [x.fid for x in (cc._coverage_functions if q == "coverageFor" else cc._fitness_functions)]
            if p["unreg"]:
                f = p["f"] % N_FUNCS
                registered = f in regs
            elif regs:
                f = regs[p["f"] % len(regs)]
            else:
                return
        fobj = None if f is None else env.funcs[(level, "cov" if q == "coverageFor" else "fit")][f]
        was_changed = bool(ch.changed)
        had = {"fitness": cc._fitness_cache, "fitnessFor": cc._fitness_cache, "isCovered": cc._is_covered_cache,
               "coverage": cc._coverage_cache, "coverageFor": cc._coverage_cache}[q]
        hit = (not was_changed) and (fobj in had if fobj is not None else len(had) > 0)
        fit_first = q == "isCovered" and not was_changed and fobj in cc._fitness_cache and fobj in had
        execs = st.executions
        try:
            if q == "fitness":
                out = {"vf": _frac(ch.get_fitness())}
            elif q == "fitnessFor":
                out = {"v": _units(ch.get_fitness_for(fobj))}
            elif q == "isCovered":
                out = {"b": bool(ch.get_is_covered(fobj))}
            elif q == "coverage":
                out = {"meanf": _frac(ch.get_coverage())}
            else:
                out = {"v": _exact_int(ch.get_coverage_for(fobj) * 4)}
        except KeyError:
            out = {"err": "KeyError"}
        except statistics.StatisticsError:
            out = {"err": "StatisticsError"}
        if level == "tc" and was_changed and not ch.changed:
            r = ch.get_last_execution_result()
            if r is None or r.c12 != st.cid(ch.test_case):
                ch._c12_cause = {"op": "query", "class": "flag-cleared-without-execution"}
        if not registered:
            st.tainted = True
        if hit and st.executions == execs:
            st.flags.add("cache-hit")
        if was_changed and st.executions > execs:
            st.flags.add("recomputed")
        self.count("query:" + q + (":unregistered" if not registered else ""))
        if level == "su":
            ms = ch.test_case_chromosomes
            if len({id(t) for t in ms}) < len(ms):
                self.count("query:on-suite-with-shared-object" + (":had-to-run" if st.executions > execs else ""))
        self.count("query-path:" + ("changed" if was_changed else ("hit" if hit else "fill")))
        if q in ("fitness", "fitnessFor", "isCovered") and "err" not in out:
            vals = [_units(v) for g, v in cc._fitness_cache.items() if fobj is None or g is fobj]
            if any(isinstance(v, int) and 0 < v < 64 for v in vals):
                self.count("query:" + q + ":tiny-positive-fitness" + (":verdict-from-fitness" if fit_first else ""))
        mq = q if f is None else {q: {"f": f}}
        emit({"query": {"r": mref, "q": mq}}, [host], out=out, scratch=st.scratch(ch, level, q, f),
             literal=st.literal(ch, level, q, fobj) if registered else None,
             registered=registered, tainted=st.tainted, cause=getattr(ch, "_c12_cause", None),
             qname=q, level=level, fit_first=fit_first)

    # -- model ---------------------------------------------------------------------------------------
    def model_line(self, case):
        io = self.impl(case)
        return vcommon.jdump({"ops": [s["op"] for s in io["steps"]]})

    @staticmethod
    def _norm_snap(x):
        """sort the dict items of a model snapshot (the implementation side is sorted already)"""
        if x is None:
            return None
        if isinstance(x[0], list):      # suite: [members, changed, funcs, covFuncs, fitC, isC, covC]
            return [[C12._norm_snap(m) for m in x[0]], x[1], x[2], x[3]] + [sorted(d) for d in x[4:]]
        return x[:5] + [sorted(d) for d in x[5:]]

    @staticmethod
    def _out_eq(mo, io):
        if io is not None and "meanf" in io:
            if not (isinstance(mo, dict) and "mean" in mo):
                return False
            s, n = mo["mean"]
            return n > 0 and _frac(float(Fraction(s, 4 * n))) == io["meanf"]
        if io is not None and "vf" in io:       # the float sum of the cached values = the rounded exact sum
            if not (isinstance(mo, dict) and isinstance(mo.get("v"), int)):
                return False
            return _frac(float(Fraction(mo["v"], 1 << UNIT_BITS))) == io["vf"]
        return mo == io

    def compare(self, case, impl_out, model_out):
        if "steps" not in model_out or len(model_out["steps"]) != len(impl_out["steps"]):
            return False
        for ms, s in zip(model_out["steps"], impl_out["steps"]):
            if not self._out_eq(ms["o"], s["o"]):
                return False
            mt = [[a, b, self._norm_snap(c)] for a, b, c in ms["t"]]
            if mt != s["t"]:
                return False
        fin = model_out["final"]
        return ([self._norm_snap(t) for t in fin["tcs"]] == impl_out["final"]["tcs"]
                and [self._norm_snap(s) for s in fin["suites"]] == impl_out["final"]["suites"])

    # -- the property itself ---------------------------------------------------------------------------
    def oracle(self, case, impl_out):
        fails = []
        seen = set()
        for n, s in enumerate(impl_out["steps"]):
            if "scratch" not in s:
                continue
            o, want = s["o"], s["scratch"]
            per_function = s["qname"] in ("fitnessFor", "isCovered", "coverageFor")
            lit = s["literal"] if s["literal"] is not None else want
            if o == want and o == lit:
                continue
            if o == want:
                want = lit
            if "err" in o and o["err"] == "KeyError" and (not s["registered"] or s["tainted"]):
                continue                # outside the contract
            if s["tainted"] and not per_function:
                continue                # aggregates are only specified for registered-only histories
            if "err" in o:
                sig = {"op": "query", "class": "registered-function-query-raises-" + o["err"]}
                what = (f"step {n}: {s['qname']} on a {s['level']} chromosome raised {o['err']} although the "
                        f"function is registered; recomputed from scratch: {want}")
            else:
                cause = s["cause"]
                if cause is None and s["fit_first"]:
                    cause = {"op": "query", "class": "verdict-inferred-by-fitness-query-differs-from-compute-is-covered"}
                cause = cause or {"op": "query", "class": "stale-value-unknown-cause"}
                sig = dict(cause)
                what = (f"step {n}: {s['qname']} on a {s['level']} chromosome returned {o}, recomputed from scratch "
                        f"on its current tests: {want} (cause: {sig['class']})")
            key = vcommon.jdump(sig)
            if key not in seen:
                seen.add(key)
                fails.append(Failure(sig, what, detail={"step": n, "op": s["op"], "history": [x["op"] for x in
                                                                                        impl_out["steps"][:n + 1]]}))
        return fails

    def classify(self, case, impl_out):
        self.count("kind:" + ("unreg-history" if case.get("unreg") else "registered-only-history"))
        if {"cache-hit", "recomputed"} <= set(impl_out["flags"]):
            return vcommon.jdump(case)
        return None

    # -- known finding: replayed on every run ----------------------------------------------------------
    def witnesses(self):
        """Suite with an (evaluated) empty member: `TestSuiteMutation.mutate` drops it, `changed` stays False."""
        env = _setup_env()
        case = {"seed": 1, "cl": 6, "maxsize": 2, "pins": 0.5, "ptest": 0.1, "unreg": False, "plan": []}
        st = _History(case)
        env.state = st
        try:
            su = env.tsc.TestSuiteChromosome(_Factory(self, st))
            f = env.funcs[("su", "fit")][1]
            su.add_fitness_function(f)
            su.add_test_case_chromosome(self._make_tc(st, {"kind": "empty", "n": 0, "val": 0, "fs": []}))
            su.add_test_case_chromosome(self._make_tc(st, {"kind": "prim", "n": 1, "val": 3, "fs": []}))
            su.get_fitness_for(f)
            rnd = env.randomness
            orig = rnd.next_float
            rnd.next_float = lambda: 1.0        # no member is selected, nothing is inserted
            try:
                su.mutate()
            finally:
                rnd.next_float = orig
            got = _units(su.get_fitness_for(f))
            want = st.scratch(su, "su", "fitnessFor", 1)["v"]
            flag = bool(su.changed)
        finally:
            env.state = None
        if got != want:
            return [Failure(dict(KNOWN_SIG),
                            f"suite [empty test, `int_0 = 3`] evaluated, then TestSuiteMutation.mutate() (no member "
                            f"selected) drops the empty test with changed={flag}: get_fitness_for returns {got}, "
                            f"recomputed on the current tests: {want}", case={"witness": "suite-drops-empty-test"})]
        return []


class _Factory:
    """Test-case chromosome factory handed to the suites (real chromosomes, planned content)."""

    def __init__(self, check, st):
        self.check, self.st = check, st
        self.specs, self.log = [], []

    def begin(self, specs):
        self.specs, self.log = list(specs), []

    def end(self):
        log, self.log, self.specs = self.log, [], []
        return log

    def get_chromosome(self):
        spec = self.specs.pop(0) if self.specs else {"kind": "prim", "n": 1, "val": 9, "fs": []}
        ch = self.check._make_tc(self.st, spec)
        self.log.append([self.st.cid(ch.test_case), list(spec["fs"])])
        return ch


def _eff_final(eff, c0):
    """content after a recorded TestCaseMutation.mutate (mirror of MutEff.final, content part)"""
    cur = eff["chop"] if eff["chop"] is not None else c0
    for key in ("del", "chg", "ins"):
        if eff[key] is not None:
            cur = eff[key]["after"]
    return cur if eff["hasCall"] else eff["ins2"]["after"]


def _copy_cause(src, dst):
    c = getattr(src, "_c12_cause", None)
    if c is not None:
        dst._c12_cause = c


def _clear_cause(ch):
    if getattr(ch, "_c12_cause", None) is not None:
        ch._c12_cause = None


if __name__ == "__main__":
    run_main(C12)
