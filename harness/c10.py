"""C10 — fitness values, coverage values and covered verdicts agree (DESIGN §5 C10).

Correspondence: random registries (real `SubjectProperties` filled through `register_*`, real
`CodeObjectMetaData` with real `CFG`/`ControlDependenceGraph` objects around random networkx
graphs) and random families of real `ExecutionTrace`s (built with `update_predicate_distances`,
sometimes corrupted to reach the exception paths) are evaluated by the real fitness / coverage /
goal classes of `ga/computations.py`, `ga/coveragegoals.py`, `ga/fitness_metrics.py`,
`utils/controlflowdistance.py`, and by the Lean model (`Driver/C10.lean`).  Floats are compared as
exact rationals (`fractions.Fraction`); see `num_eq`.  Real histories (modules instrumented by
pynguin's import hook and run under the real tracer, see `REAL_MODULES`) go through the same path.

Oracle: the property itself on the implementation's values, whenever the hypotheses of the Lean
theorems (computed here from the real objects, independently of the model) hold.
This module is also imported by `c11.py` (shared builders / encoders).
"""
from __future__ import annotations

import math
import shutil
import sys
import tempfile
from fractions import Fraction
from pathlib import Path

import vcommon
from vcommon import Failure, PropertyCheck, run_main

EXACT = [0, 0, 0, 1, 1, 3, 3, 7, 15, 31, 63, 127, 1023, 2 ** 20 - 1]   # d/(1+d) is a dyadic rational
INEXACT = [[2, 1], [5, 1], [10, 1], [1, 2], [5, 2],
           [1, 2 ** 40], [1, 2 ** 40], [1, 2 ** 60],   # near misses: positive but below any "tolerance"
           [2 ** 70, 1], [2 ** 1000, 1]]               # huge but finite: 1.0 + d == d in floats
#: predicate kinds (reg["kinds"], parallel to reg["preds"]; absent = all "num").  "ng*" = no guidance towards
#: the outcome that is not taken (`if obj:`, `is`, isinstance / exception matches, incomparable operands): the
#: tracer reports inf for it on every execution.  "ngT"/"ngF": the outcome is always True / always False (the
#: other distance stays inf however many tests are merged); "ng": the outcome varies.
KINDS = ["num"] * 7 + ["ng", "ngT", "ngF"]


# ---------------------------------------------------------------------------------------------
# encoding helpers
# ---------------------------------------------------------------------------------------------
def dec_d(d) -> float:
    """case encoding of a float → Python float"""
    if d == "inf":
        return math.inf
    return float(Fraction(d[0], d[1]))


def enc_f(x):
    """Python number → exact JSON value (never a float): bool, [num, den], "nan", "inf", "-inf"; anything
    that is not a real number → {"not-a-number": type name} (judged by compare / oracle, never raises)."""
    if isinstance(x, bool):
        return x
    if isinstance(x, int):
        return [x, 1]
    if not isinstance(x, float):
        try:
            x = float(x)                     # numpy scalars, Fraction, Decimal …
        except Exception:                    # noqa: BLE001
            return {"not-a-number": type(x).__name__}
    if math.isnan(x):
        return "nan"
    if math.isinf(x):
        return "inf" if x > 0 else "-inf"
    fr = Fraction(x)
    return [fr.numerator, fr.denominator]


def enc_b(x):
    """A verdict: a bool stays a bool, anything else is named."""
    return x if isinstance(x, bool) else {"not-a-bool": type(x).__name__}


def enc_i(x):
    """An integral fitness (`len(existing) - len(covered)`): int, else the exact encoding of enc_f."""
    if isinstance(x, int):
        return x
    v = enc_f(x)
    return v[0] if isinstance(v, list) and v[1] == 1 else v


def from_impl(e: BaseException) -> bool:
    """True when the exception passed through pynguin's own code (so it is the implementation's
    behaviour on this input); an exception of the harness alone stays a machinery error."""
    root = str(vcommon.REPO)
    tb = e.__traceback__
    while tb is not None:
        if tb.tb_frame.f_code.co_filename.startswith(root):
            return True
        tb = tb.tb_next
    return False


def err_of(e: BaseException):
    if isinstance(e, AssertionError) and str(e).startswith("harness:"):
        raise e                              # StubExecutor was asked to execute: adapter bug
    if not from_impl(e):
        raise e
    return {"err": type(e).__name__}


def guard(f, enc=enc_f):
    """Run the implementation call f.  Whatever it raises becomes {"err": type name} (the model knows
    KeyError / RuntimeError / AssertionError; every other type disagrees with it and fails the oracle)."""
    try:
        v = f()
    except Exception as e:                   # noqa: BLE001
        return err_of(e)
    return {"ok": enc(v)}


def plain(f, enc):
    """Like guard for values the model reports bare (verdicts, integral fitness): enc(value) or {"err": …}."""
    try:
        v = f()
    except Exception as e:                   # noqa: BLE001
        return err_of(e)
    return enc(v)


def is_true(v) -> bool:
    return v is True


def as_frac(v):
    """Exact value of a canonical number ({"ok": [n, d]}, [n, d] or int) or None (raised / nan / inf / junk)."""
    if isinstance(v, dict):
        v = v.get("ok")
    if isinstance(v, bool):
        return None
    if isinstance(v, int):
        return Fraction(v)
    if isinstance(v, list) and len(v) == 2 and all(isinstance(x, int) and not isinstance(x, bool) for x in v):
        return Fraction(v[0], v[1])
    return None


def is_exact_dist(x: float) -> bool:
    if math.isnan(x):
        return False
    if math.isinf(x) or x == 0:
        return True
    if x < 0 or x >= 2 ** 21 or x != int(x):
        return False
    n = int(x) + 1
    return n & (n - 1) == 0 and n <= 2 ** 20


def num_eq(impl, model, approx: bool, stats: dict) -> bool:
    """impl/model: [num, den] (exact rationals) or "inf"/"nan".  Exact equality; or the implementation
    equals the correctly rounded quotient num/den of the model value (what `covered / existing`
    computes); or, only for cases flagged `approx` (a non-dyadic normalised distance is involved),
    |difference| <= 1e-12 (DESIGN §3)."""
    if impl == model:
        return True
    if not (isinstance(impl, list) and isinstance(model, list)):
        return False
    fi, fm = Fraction(impl[0], impl[1]), Fraction(model[0], model[1])
    if Fraction(model[0] / model[1]) == fi:
        stats["rounded"] = stats.get("rounded", 0) + 1
        return True
    if approx and abs(fi - fm) <= Fraction(1, 10 ** 12):
        stats["approx"] = stats.get("approx", 0) + 1
        return True
    return False


def deep_eq(impl, model, approx, stats) -> bool:
    """Structural comparison; rationals through num_eq."""
    if isinstance(impl, dict) and isinstance(model, dict):
        if set(impl) == {"ok"} and set(model) == {"ok"}:
            a, b = impl["ok"], model["ok"]
            if isinstance(a, bool) or isinstance(b, bool):
                return a == b
            return num_eq(a, b, approx, stats)
        return set(impl) == set(model) and all(deep_eq(impl[k], model[k], approx, stats) for k in impl)
    if isinstance(impl, list) and isinstance(model, list):
        if len(impl) == 2 and len(model) == 2 and all(isinstance(v, int) and not isinstance(v, bool)
                                                      for v in impl + model):
            return num_eq(impl, model, approx, stats)
        return len(impl) == len(model) and all(deep_eq(a, b, approx, stats) for a, b in zip(impl, model))
    return impl == model


# ---------------------------------------------------------------------------------------------
# generators (shared with C11)
# ---------------------------------------------------------------------------------------------
def gen_dist(rng, allow_inexact=True):
    r = rng.random()
    if r < 0.06:
        return "inf"
    if allow_inexact and r < 0.14:
        return rng.choice(INEXACT)
    return [rng.choice(EXACT), 1]


def gen_registry(rng):
    ids = rng.sample(range(10), rng.choice([0, 1, 1, 2, 2, 2, 3, 3, 4]))
    codes, preds = [], []
    for cid in ids:
        n = 1 if rng.random() < 0.05 else rng.choice([2, 2, 3, 3, 3, 4, 4, 5])
        cfg = [[i, i + 1] for i in range(n - 1)]
        for _ in range(rng.randint(0, 3)):
            cfg.append([rng.randrange(n), rng.randrange(n)])
        if n > 1 and rng.random() < 0.5:
            cfg.append([n - 1, 0])           # strongly connected: nx.diameter succeeds
        cdg = []
        for _ in range(rng.randint(0, 2 * n)):
            a, b = rng.randrange(n), rng.randrange(n)
            if a != b:
                cdg.append([a, b])
        codes.append({"id": cid, "n": n, "cfg": cfg, "cdg": cdg})
        if rng.random() < 0.8:
            for node in rng.sample(range(n), rng.randint(1, min(3, n))):
                preds.append([cid, node])
    rng.shuffle(preds)
    return {"codes": codes, "preds": preds, "n_lines": rng.choice([0, 1, 2, 3, 3, 4, 5]),
            "kinds": [rng.choice(KINDS) for _ in preds]}


def gen_pair(rng, kind, allow_inexact=True):
    """One execution of a predicate of the given kind: [distance_true, distance_false]."""
    if kind != "num":                        # no guidance towards the outcome that was not taken
        taken = {"ngT": True, "ngF": False}.get(kind, rng.random() < 0.5)
        return [[0, 1], "inf"] if taken else ["inf", [0, 1]]
    if rng.random() < 0.8:                   # what the tracer records: one side is 0
        d = gen_dist(rng, allow_inexact)
        return [[0, 1], d] if rng.random() < 0.5 else [d, [0, 1]]
    return [gen_dist(rng, allow_inexact), gen_dist(rng, allow_inexact)]


def gen_trace(rng, reg, allow_inexact=True, once=False):
    """`once`: straight-line tests — every predicate is executed at most once per trace, so that an
    execution count >= 2 is reached only by merging."""
    code_ids = [c["id"] for c in reg["codes"]]
    code = [c for c in code_ids if rng.random() < 0.6]
    rng.shuffle(code)
    ups = []
    npred = len(reg["preds"])
    kinds = reg.get("kinds") or ["num"] * npred
    if npred:
        for _ in range(rng.choice([0, 1, 2, 3, 4, 6])):
            p = rng.randrange(npred)
            if reg["preds"][p][0] not in code and rng.random() < 0.93:
                continue                     # the instrumentation enters the code object first
            if once and any(u[0] == p for u in ups):
                continue
            # a predicate in a loop is executed several times by one test (>= 2 executions in ONE trace)
            for _ in range(1 if once else rng.choice([1, 1, 1, 1, 2, 3])):
                pair = gen_pair(rng, kinds[p], allow_inexact)
                ups.append([p, pair[0], pair[1]])
    lines = [l for l in range(reg["n_lines"]) if rng.random() < 0.5]
    rng.shuffle(lines)
    checked = [l for l in range(reg["n_lines"]) if rng.random() < 0.3]
    rng.shuffle(checked)
    return {"code": code, "updates": ups, "lines": lines, "checked": checked, "corrupt": []}


def inf_rule_classes(merged, parts):
    """Which instances of "uncovered outcome at distance inf, executed >= 2 times" (the `isinf` case of
    the >= 2 executions rule) the real merged trace contains: reached inside one trace, or only by merging."""
    out = set()
    for p, n in merged.executed_predicates.items():
        if n < 2:
            continue
        for d in (merged.true_distances, merged.false_distances):
            v = d.get(p)
            if v is not None and math.isinf(v):
                single = any(t.executed_predicates.get(p, 0) >= 2 for t in parts)
                out.add("inf-ge2:single-trace" if single else "inf-ge2:only-by-merging")
    return sorted(out)


def gen_corruption(rng, reg, trace):
    npred = len(reg["preds"])
    kinds = ["unknown_code", "unknown_line", "unknown_checked", "unknown_pred"]
    ups = sorted({u[0] for u in trace["updates"]})
    if ups:
        kinds += ["del_true", "del_false", "neg_true", "neg_false"] * 2
    k = rng.choice(kinds)
    if k == "unknown_code":
        return [k, 10 + rng.randrange(3)]
    if k in ("unknown_line", "unknown_checked"):
        return [k, reg["n_lines"] + rng.randrange(2)]
    if k == "unknown_pred":
        return [k, npred + rng.randrange(2), [0, 1], [rng.choice([0, 1, 3]), 1], rng.choice([1, 2])]
    if k.startswith("del"):
        return [k, rng.choice(ups)]
    return [k, rng.choice(ups), [-rng.choice([1, 3]), 1]]


def gen_exclusions(rng, reg):
    if rng.random() < 0.5:
        return {"exCode": [], "exT": [], "exF": []}
    cids = [c["id"] for c in reg["codes"]]
    n = len(reg["preds"])
    return {"exCode": [c for c in cids if rng.random() < 0.4],
            "exT": [p for p in range(n) if rng.random() < 0.4],
            "exF": [p for p in range(n) if rng.random() < 0.4]}


# ---------------------------------------------------------------------------------------------
# builders around the real pynguin classes (shared with C11)
# ---------------------------------------------------------------------------------------------
class StubExecutor:
    """Stands where a `TestCaseExecutor` stands; every chromosome carries a cached result, so the
    fitness functions must never ask it to execute anything."""

    def __init__(self, subject_properties):
        self.subject_properties = subject_properties

    def execute(self, test_case):
        raise AssertionError("harness: unexpected execution")

    def execute_multiple(self, test_cases):
        if list(test_cases):
            raise AssertionError("harness: unexpected execution")
        return []


def build_registry(reg):
    """Real SubjectProperties via register_code_object / register_predicate / register_line.
    Returns (subject_properties, model registry JSON)."""
    import networkx as nx
    from bytecode import BasicBlock, Instr
    from pynguin.instrumentation.controlflow import CFG, BasicBlockNode, ControlDependenceGraph
    from pynguin.instrumentation.tracer import (CodeObjectMetaData, LineMetaData, PredicateMetaData,
                                                SubjectProperties)
    sp = SubjectProperties()
    nodes = {}
    for c in reg["codes"]:
        ns = [BasicBlockNode(i, BasicBlock([Instr("NOP")])) for i in range(c["n"])]
        nodes[c["id"]] = ns
        g = nx.DiGraph()
        g.add_nodes_from(ns)
        g.add_edges_from((ns[a], ns[b]) for a, b in c["cfg"])
        cfg = CFG.__new__(CFG)          # CFG.__init__ wants a bytecode CFG; the graph is what matters here
        cfg._graph = g
        cdg = ControlDependenceGraph(nx.DiGraph((ns[a], ns[b]) for a, b in c["cdg"]))
        sp.register_code_object(c["id"], CodeObjectMetaData(code_object=None, parent_code_object_id=None,
                                                            cfg=cfg, cdg=cdg))
    for cid, node in reg["preds"]:
        sp.register_predicate(PredicateMetaData(line_no=node, code_object_id=cid, node=nodes[cid][node]))
    for i in range(reg["n_lines"]):
        sp.register_line(LineMetaData(code_object_id=0, file_name="m.py", line_number=i + 1))
    return sp, registry_json(sp)


def registry_json(sp):
    """The model's registry: ids, and the two library parameters (pynguin's CFG.diameter, networkx'
    shortest path lengths between predicate nodes of the CDG), read from the live objects."""
    import networkx as nx
    mcodes = []
    for cid, meta in sp.existing_code_objects.items():
        mine = [m.node for m in sp.existing_predicates.values() if m.code_object_id == cid]
        paths = []
        for a in mine:
            for b in mine:
                try:
                    n = int(nx.shortest_path_length(meta.cdg.graph, a, b))
                    paths.append({"src": a.index, "dst": b.index, "len": n})
                except (nx.NetworkXNoPath, nx.NodeNotFound):
                    pass
        mcodes.append({"id": cid, "diameter": int(meta.cfg.diameter), "paths": paths})
    return {"codes": mcodes,
            "preds": [{"id": pid, "code": m.code_object_id, "node": m.node.index}
                      for pid, m in sp.existing_predicates.items()],
            "lines": list(sp.existing_lines)}


def trace_state(t):
    """The literal state of a real ExecutionTrace (insertion orders kept), exact numbers."""
    return {"code": list(t.executed_code_objects),
            "cnt": [[k, v] for k, v in t.executed_predicates.items()],
            "dT": [[k, enc_f(v)] for k, v in t.true_distances.items()],
            "dF": [[k, enc_f(v)] for k, v in t.false_distances.items()],
            "lines": list(t.covered_line_ids), "checked": list(t.checked_lines)}


def build_trace(tr):
    """Real ExecutionTrace; returns (trace, model trace JSON)."""
    from pynguin.instrumentation.tracer import ExecutionTrace
    t = ExecutionTrace()
    for c in tr["code"]:
        t.executed_code_objects.add(c)
    for l in tr["lines"]:
        t.covered_line_ids.add(l)
    for l in tr["checked"]:
        t.checked_lines.add(l)
    for p, a, b in tr["updates"]:
        t.update_predicate_distances(dec_d(a), dec_d(b), p)
    if not tr["corrupt"]:
        m = {"code": list(tr["code"]), "cnt": [], "dT": [], "dF": [], "lines": list(tr["lines"]),
             "checked": list(tr["checked"]),
             "updates": [{"p": p, "t": a, "f": b} for p, a, b in tr["updates"]]}
        return t, m
    for op in tr["corrupt"]:
        k = op[0]
        if k == "unknown_code":
            t.executed_code_objects.add(op[1])
        elif k == "unknown_line":
            t.covered_line_ids.add(op[1])
        elif k == "unknown_checked":
            t.checked_lines.add(op[1])
        elif k == "unknown_pred":
            for _ in range(op[4]):
                t.update_predicate_distances(dec_d(op[2]), dec_d(op[3]), op[1])
        elif k == "del_true":
            t.true_distances.pop(op[1], None)
        elif k == "del_false":
            t.false_distances.pop(op[1], None)
        elif k == "neg_true":
            t.true_distances[op[1]] = dec_d(op[2])
        elif k == "neg_false":
            t.false_distances[op[1]] = dec_d(op[2])
        else:
            raise AssertionError(k)
    m = trace_state(t)
    m["updates"] = []
    return t, m


def result_of(trace):
    from pynguin.testcase.execution_result import ExecutionResult
    r = ExecutionResult()
    r.execution_trace = trace
    return r


def chromosome_of(trace):
    import pynguin.ga.testcasechromosome as tcc
    import pynguin.testcase.testcase as tc
    ch = tcc.TestCaseChromosome(tc.TestCase())
    ch.set_last_execution_result(result_of(trace))
    ch.changed = False
    return ch


def suite_of(traces):
    import pynguin.ga.testsuitechromosome as tsc
    s = tsc.TestSuiteChromosome()
    for t in traces:
        s.add_test_case_chromosome(chromosome_of(t))
    return s


def suite_values(traces, sp, ex):
    """Every suite-level fitness / coverage / verdict through the real classes of computations.py."""
    import pynguin.ga.computations as ff
    executor = StubExecutor(sp)
    unrestricted = ff.BranchDistanceTestSuiteFitnessFunction(executor)
    restricted = ff.BranchDistanceTestSuiteFitnessFunction(executor)
    restricted.restrict(set(ex["exCode"]), set(ex["exT"]), set(ex["exF"]))
    line = ff.LineTestSuiteFitnessFunction(executor)
    chk = ff.StatementCheckedTestSuiteFitnessFunction(executor)
    s = suite_of(traces)
    return {
        "bfit": guard(lambda: unrestricted.compute_fitness(s)),
        "bfit_ex": guard(lambda: restricted.compute_fitness(s)),
        "bis": plain(lambda: unrestricted.compute_is_covered(s), enc_b),
        "bis_ex": plain(lambda: restricted.compute_is_covered(s), enc_b),
        "bcov": guard(lambda: ff.TestSuiteBranchCoverageFunction(executor).compute_coverage(s)),
        "lcov": guard(lambda: ff.TestSuiteLineCoverageFunction(executor).compute_coverage(s)),
        "ccov": guard(lambda: ff.TestSuiteStatementCheckedCoverageFunction(executor).compute_coverage(s)),
        "lfit": plain(lambda: line.compute_fitness(s), enc_i),
        "cfit": plain(lambda: chk.compute_fitness(s), enc_i),
        "lis": plain(lambda: line.compute_is_covered(s), enc_b),
        "cis": plain(lambda: chk.compute_is_covered(s), enc_b),
    }


def summand_values(trace, sp):
    """The branch fitness restricted to one single branch, for every branch: [p, true side, false side]
    (`compute_branch_distance_fitness` with everything else excluded = one `_predicate_fitness` summand)."""
    import pynguin.ga.fitness_metrics as fm
    codes, preds = set(sp.existing_code_objects), list(sp.existing_predicates)
    every = set(preds)
    return [[p,
             guard(lambda p=p: fm.compute_branch_distance_fitness(trace, sp, codes, every - {p}, every)),
             guard(lambda p=p: fm.compute_branch_distance_fitness(trace, sp, codes, every, every - {p}))]
            for p in preds]


def summand_oracle(summands, where=""):
    """C10 for the single-branch fitness functions: finite, in [0, 1] (only called for well-formed traces)."""
    fs = []
    for p, a, b in summands:
        for side, v in (("true", a), ("false", b)):
            f = as_frac(v)
            if f is None or not 0 <= f <= 1:
                fs.append(Failure({"fn": "_predicate_fitness", "class": "not-finite-in-unit-interval"},
                                  f"{where}fitness restricted to the {side} branch of predicate {p} is {v!r}"))
    return fs


SUITE_KEYS = ["bfit", "bfit_ex", "bis", "bis_ex", "bcov", "lcov", "ccov", "lfit", "cfit", "lis", "cis"]


def hypotheses(sp, trace):
    """The hypotheses of the Lean theorems, evaluated on the real objects."""
    ks = set(trace.executed_predicates)
    shape = (set(trace.true_distances) == ks and set(trace.false_distances) == ks and all(
        not math.isnan(v) and v >= 0
        for v in list(trace.true_distances.values()) + list(trace.false_distances.values())))
    try:
        sp.validate_execution_trace(trace)
        valid = all(l in sp.existing_lines for l in trace.checked_lines)
    except Exception:                        # noqa: BLE001  (AssertionError on the unchanged code)
        valid = False
    rwf = all(m.code_object_id in sp.existing_code_objects for m in sp.existing_predicates.values())
    try:
        goal = rwf and all(
            (pid not in trace.executed_predicates or m.code_object_id in trace.executed_code_objects)
            and sp.existing_code_objects[m.code_object_id].cfg.diameter >= 1
            for pid, m in sp.existing_predicates.items())
    except Exception:                        # noqa: BLE001  (CFG.diameter of a changed implementation)
        goal = False
    return {"shape": shape, "valid": valid, "rwf": rwf, "goal": goal}


def approx_flag(trace) -> bool:
    """True when some normalised value the code computes is not a dyadic rational."""
    for p, a in trace.true_distances.items():
        b = trace.false_distances.get(p, 0.0)
        if not is_exact_dist(a) or not is_exact_dist(b):
            return True
        if a != 0 and b != 0 and not (math.isinf(a) or math.isinf(b)):
            return True
    return any(not is_exact_dist(b) for b in trace.false_distances.values())


def suite_oracle(v, hyp, where=""):
    """The suite-level part of C10 on implementation values `v` (a dict as built by suite_values).
    A value that is an exception, NaN, an infinity or not a number at all has no exact value (`as_frac`
    is None) and fails the clause that demands a finite number / a verdict."""
    fs = []
    val = lambda key: as_frac(v[key])        # noqa: E731

    if hyp["shape"]:
        for key in ("bfit", "bfit_ex"):
            f = val(key)
            if f is None or f < 0:
                fs.append(Failure({"fn": "compute_branch_distance_fitness", "class": "not-finite-non-negative"},
                                  f"{where}branch fitness {key} = {v[key]!r} is not a finite non-negative number"))
        for fk, ck in (("bfit", "bis"), ("bfit_ex", "bis_ex")):
            f = val(fk)
            if not isinstance(v[ck], bool):
                fs.append(Failure({"fn": "compute_branch_distance_fitness_is_covered", "class": "no-verdict"},
                                  f"{where}is_covered = {v[ck]!r} is not a verdict"))
            elif f is not None and (f == 0) != v[ck]:
                cls = "false-although-fitness-zero" if f == 0 else "true-although-fitness-positive"
                fs.append(Failure({"fn": "compute_branch_distance_fitness_is_covered", "class": cls},
                                  f"{where}is_covered = {v[ck]} but branch fitness = {float(f)}"
                                  f" ({'with' if fk.endswith('ex') else 'without'} exclusions)"))
    if hyp["shape"] and hyp["valid"] and hyp["rwf"]:
        for key in ("bcov", "lcov", "ccov"):
            c = val(key)
            if c is None or not 0 <= c <= 1:
                fs.append(Failure({"fn": key, "class": "coverage-outside-unit-interval"},
                                  f"{where}coverage {key} = {v[key]!r} is not in [0, 1]"))
        f, c = val("bfit"), val("bcov")
        if f is not None and c is not None and (f == 0) != (c == 1):
            fs.append(Failure({"fn": "compute_branch_coverage", "class": "fitness-zero-vs-coverage-one"},
                              f"{where}branch fitness {float(f)} but branch coverage {float(c)}"))
        for fit, cov, isc, name in (("lfit", "lcov", "lis", "line"), ("cfit", "ccov", "cis", "checked")):
            c, f = val(cov), val(fit)
            if f is None or not isinstance(v[isc], bool):
                fs.append(Failure({"fn": name + "-suite", "class": "raises-or-not-finite"},
                                  f"{where}{name}: fitness {v[fit]!r}, is_covered {v[isc]!r}"))
                continue
            if f < 0:
                fs.append(Failure({"fn": name + "-suite-fitness", "class": "negative"},
                                  f"{where}{name} suite fitness {v[fit]} is negative"))
            if (f == 0) != v[isc] or (c is not None and (c == 1) != v[isc]):
                fs.append(Failure({"fn": name + "-suite", "class": "covered-verdict-vs-fitness-or-coverage"},
                                  f"{where}{name}: fitness {v[fit]}, coverage {v[cov]!r}, is_covered {v[isc]}"))
    return fs


class C10(PropertyCheck):
    prop_id = "C10"
    prop_modules = ["PynguinModel.Props.C10"]
    extra_modules = ["PynguinModel.Model.Fitness"]
    driver = "Driver/C10.lean"
    n_quick = 1500
    n_thorough = 40000
    n_search = 6000
    rule = ("random registries (0-4 code objects, real CFG/CDG objects over random graphs, 0-3 predicates "
            "each, 30 % of them no-guidance kinds at distance inf, 0-5 lines) x 1-3 random traces (loop "
            "predicates, 30 % straight-line families) merged by analyze_results; non-trivial = all theorem "
            "hypotheses hold, >= 1 predicate executed, every float exactly representable (approx-flagged "
            "cases are compared with tolerance 1e-12 and not counted)")
    assumptions = [
        "distances are non-negative and NaN-free (C04); the three predicate dicts of a trace share their keys",
        "traces pass SubjectProperties.validate_execution_trace; checked lines are registered lines",
        "branch goals: code-object entry is recorded before its predicates; cfg.diameter >= 1 for code "
        "objects with predicates; one predicate per CDG node (asserted by register_predicate)",
        "float rounding of sums/quotients is not modelled: generated distances make every intermediate "
        "value exactly representable, other cases are compared with tolerance 1e-12 and labelled approx",
    ]
    trusted_base_extra = ["networkx shortest_path_length / pynguin CFG.diameter are parameters of the model "
                          "(their values are read from the live objects)"]

    def __init__(self, tier, seed):
        super().__init__(tier, seed)
        self.cmp_stats: dict = {}
        self._mlines: dict = {}

    # -- generation ---------------------------------------------------------------------------
    def gen_case(self, rng):
        reg = gen_registry(rng)
        once = rng.random() < 0.3
        traces = [gen_trace(rng, reg, once=once) for _ in range(rng.choice([2, 3] if once else [1, 1, 2, 3]))]
        if rng.random() < 0.15:
            t = rng.choice(traces)
            t["corrupt"].append(gen_corruption(rng, reg, t))
        case = {"reg": reg, "traces": traces}
        case.update(gen_exclusions(rng, reg))
        return case

    # -- implementation -----------------------------------------------------------------------
    def impl(self, case):
        key = vcommon.jdump(case)
        if "real" in case:
            out = self.impl_real(case)
            self._mlines[key] = vcommon.jdump(out["model_case"])
            return out
        sp, mreg = build_registry(case["reg"])
        built = [build_trace(t) for t in case["traces"]]
        out = self.evaluate(sp, [b[0] for b in built], case)
        out["model_case"] = {"mode": "c10", "reg": mreg, "traces": [b[1] for b in built],
                             "exCode": case["exCode"], "exT": case["exT"], "exF": case["exF"],
                             "perm": [], "split": 0}
        for t in case["traces"]:
            for op in t["corrupt"]:
                self.count("corrupt:" + op[0])
        self._mlines[key] = vcommon.jdump(out["model_case"])   # model_line() runs after impl()
        return out

    def evaluate(self, sp, traces, case):
        """All fitness / coverage / verdict values of the real code for real traces `traces`."""
        import pynguin.ga.computations as ff
        import pynguin.ga.coveragegoals as cg
        import pynguin.ga.fitness_metrics as fm
        shape_each = all(hypotheses(sp, t)["shape"] for t in traces)
        try:
            merged = fm.analyze_results([result_of(t) for t in traces])
        except Exception as e:               # noqa: BLE001  nothing else can be evaluated without the merged trace
            self.count("raises:analyze_results")
            return {"crashed": dict(err_of(e), fn="analyze_results"), "shape_each": shape_each,
                    "approx": False, "hyp": dict.fromkeys(("shape", "valid", "rwf", "goal"), False)}
        hyp = hypotheses(sp, merged)
        approx = approx_flag(merged)
        executor = StubExecutor(sp)
        exs = (set(case["exCode"]), set(case["exT"]), set(case["exF"]))
        out = {"trace": trace_state(merged), "hyp": hyp, "approx": approx, "shape_each": shape_each}
        # suite level, through the classes of computations.py
        out["suite"] = suite_values(traces, sp, case)
        # the same values by calling fitness_metrics directly on the merged trace
        out["fn"] = {
            "bfit": guard(lambda: fm.compute_branch_distance_fitness(merged, sp)),
            "bfit_ex": guard(lambda: fm.compute_branch_distance_fitness(merged, sp, *exs)),
            "bis": plain(lambda: fm.compute_branch_distance_fitness_is_covered(merged, sp), enc_b),
            "bis_ex": plain(lambda: fm.compute_branch_distance_fitness_is_covered(merged, sp, *exs), enc_b),
            "bcov": guard(lambda: fm.compute_branch_coverage(merged, sp)),
            "lcov": guard(lambda: fm.compute_line_coverage(merged, sp)),
            "lis": plain(lambda: fm.compute_line_coverage_fitness_is_covered(merged, sp), enc_b),
            "cis": plain(lambda: fm.compute_checked_coverage_statement_fitness_is_covered(merged, sp), enc_b),
        }
        # test-case level classes on a chromosome whose result is the merged trace
        ch = chromosome_of(merged)
        tcf = ff.BranchDistanceTestCaseFitnessFunction(executor, 0)
        out["case_level"] = {
            "bfit": guard(lambda: tcf.compute_fitness(ch)),
            "bis": plain(lambda: tcf.compute_is_covered(ch), enc_b),
            "bcov": guard(lambda: ff.TestCaseBranchCoverageFunction(executor).compute_coverage(ch)),
            "lcov": guard(lambda: ff.TestCaseLineCoverageFunction(executor).compute_coverage(ch)),
            "ccov": guard(lambda: ff.TestCaseStatementCheckedCoverageFunction(executor).compute_coverage(ch)),
        }
        # the verdict ComputationCache derives from the fitness (isclose(fitness, 0.0))
        if hyp["shape"]:
            s = suite_of(traces)
            f = ff.BranchDistanceTestSuiteFitnessFunction(executor)
            f.restrict(*exs)
            s.add_fitness_function(f)
            out["cache"] = {"bfit_ex": guard(lambda: s.get_fitness_for(f)),
                            "derived": plain(lambda: s.get_is_covered(f), enc_b),
                            "computed": plain(lambda: f.compute_is_covered(suite_of(traces)), enc_b)}
        # goals
        codes, branches, lines = [], [], []
        for cid in sp.existing_code_objects:
            g = cg.BranchCoverageTestFitness(executor, cg.BranchlessCodeObjectGoal(cid))
            codes.append([cid, guard(lambda g=g: g.compute_fitness(ch)),
                          plain(lambda g=g: g.compute_is_covered(ch), enc_b)])
        for pid, meta in sp.existing_predicates.items():
            for value in (True, False):
                g = cg.BranchCoverageTestFitness(executor, cg.BranchGoal(meta.code_object_id, pid, value=value))
                branches.append([pid, value, guard(lambda g=g: g.compute_fitness(ch)),
                                 guard(lambda g=g: g.compute_is_covered(ch), enc=enc_b)])
        for lid, meta in sp.existing_lines.items():
            lf = cg.LineCoverageTestFitness(executor, cg.LineCoverageGoal(meta.code_object_id, lid))
            cf = cg.StatementCheckedCoverageTestFitness(executor, cg.CheckedCoverageGoal(meta.code_object_id, lid))
            lines.append([lid, plain(lambda lf=lf: lf.compute_fitness(ch), enc_f),
                          plain(lambda lf=lf: lf.compute_is_covered(ch), enc_b),
                          plain(lambda cf=cf: cf.compute_fitness(ch), enc_f),
                          plain(lambda cf=cf: cf.compute_is_covered(ch), enc_b)])
        out["goals"] = {"codes": codes, "branches": branches, "lines": lines}
        out["summands"] = summand_values(merged, sp)
        out["branchless"] = list(sp.branch_less_code_objects)
        # input distribution
        for cl in inf_rule_classes(merged, traces):
            self.count(cl)
        self.count("traces:%d" % len(traces))
        self.count("preds:%d" % len(sp.existing_predicates))
        self.count("hyp:" + ("all" if all(hyp.values()) else "-".join(k for k, b in hyp.items() if not b)))
        self.count("approx" if approx else "exact")
        for key in ("bfit", "bcov"):
            if "err" in out["suite"][key]:
                self.count("raises:%s:%s" % (key, out["suite"][key]["err"]))
        if hyp["shape"] and inf_rule_classes(merged, traces):
            self.count("inf-ge2:with-shape")
        return out

    # -- model --------------------------------------------------------------------------------
    def model_line(self, case):
        line = self._mlines.pop(vcommon.jdump(case), None)
        return line if line is not None else vcommon.jdump(self.impl(case)["model_case"])

    def compare(self, case, io, mo):
        if "bad-op" in mo or "unparsable" in mo or "crashed" in io:
            return False
        a, st = io["approx"], self.cmp_stats
        ok = deep_eq(io["trace"], mo["trace"], False, st)
        for src in ("suite", "fn"):
            ok &= all(deep_eq(io[src][k], mo["suite"][k], a, st) for k in io[src])
        ok &= all(deep_eq(io["case_level"][k], mo["case_level"][k], a, st) for k in io["case_level"])
        ok &= deep_eq(io["goals"], mo["goals"], a, st)
        ok &= deep_eq(io["summands"], mo["summands"], a, st)
        self.extra_coverage["compare_modes"] = dict(self.cmp_stats)
        return bool(ok)

    # -- property oracle on the implementation ------------------------------------------------
    def oracle(self, case, io):
        if "crashed" in io:
            if not (io["shape_each"] or io.get("real")):
                return []
            return [Failure({"fn": io["crashed"]["fn"], "class": "raises-on-well-formed-traces"},
                            f"{io['crashed']['fn']} raised {io['crashed']['err']} on well-formed traces")]
        # a real trace is a legitimate input whatever my hypotheses say: check it unconditionally
        hyp = dict.fromkeys(io["hyp"], True) if io.get("real") else io["hyp"]
        fs = suite_oracle(io["suite"], hyp)
        if hyp["shape"]:
            fs += summand_oracle(io["summands"])
            c = io["cache"]
            if c["derived"] != c["computed"] or not isinstance(c["derived"], bool):
                fs.append(Failure({"fn": "ComputationCache", "class": "derived-verdict-vs-compute_is_covered"},
                                  f"ComputationCache derives is_covered={c['derived']} from fitness "
                                  f"{c['bfit_ex']}, compute_is_covered says {c['computed']}"))
            tl = io["case_level"]
            f = as_frac(tl["bfit"])
            if f is None or not isinstance(tl["bis"], bool):
                fs.append(Failure({"fn": "BranchDistanceTestCaseFitnessFunction", "class": "raises-or-not-finite"},
                                  f"test-case level: is_covered={tl['bis']!r}, fitness={tl['bfit']!r}"))
            elif (f == 0) != tl["bis"]:
                fs.append(Failure({"fn": "BranchDistanceTestCaseFitnessFunction",
                                   "class": "covered-verdict-vs-fitness"},
                                  f"test-case level: is_covered={tl['bis']}, fitness={tl['bfit']}"))
        if all(hyp.values()):
            for cid, fit, cov in io["goals"]["codes"]:
                if cid in io["branchless"]:
                    fs += self._goal(fit, cov, f"BranchlessCodeObjectGoal({cid})", "branchless-goal")
            for pid, value, fit, cov in io["goals"]["branches"]:
                fs += self._goal(fit, cov, f"BranchGoal({pid}, {value})", "branch-goal")
        for lid, lf, lc, cf, cc in io["goals"]["lines"]:
            fs += self._goal(lf, lc, f"LineCoverageGoal({lid})", "line-goal")
            fs += self._goal(cf, cc, f"CheckedCoverageGoal({lid})", "checked-goal")
        return fs

    @staticmethod
    def _goal(fit, cov, name, kind):
        """fit / cov: canonical values, bare or wrapped in {"ok": …}; {"err": …} when the call raised."""
        f = as_frac(fit)
        c = cov.get("ok") if isinstance(cov, dict) else cov
        if f is None or not isinstance(c, bool):
            return [Failure({"fn": kind, "class": "raises-or-not-finite"},
                            f"{name}: fitness {fit!r}, is_covered {cov!r}")]
        if f < 0:
            return [Failure({"fn": kind, "class": "negative-fitness"}, f"{name}: fitness {float(f)}")]
        if (f == 0) != c:
            return [Failure({"fn": kind, "class": "covered-verdict-vs-fitness"},
                            f"{name}: is_covered={c} but fitness={float(f)}")]
        return []

    def classify(self, case, io):
        if "crashed" in io or io["approx"] or not all(io["hyp"].values()) or not io["trace"]["cnt"]:
            return None
        if "real" in case:
            return vcommon.jdump(case)
        return vcommon.jdump([case["reg"], case["traces"], case["exCode"], case["exT"], case["exF"]])

    # -- histories: real instrumented modules, real tracer, real registries ----------------------
    def corpus(self):
        """File corpus + *real histories*: small modules instrumented by pynguin's import hook, called
        on seeded random inputs under the real tracer (one ExecutionTrace per call, merged as a
        suite).  They run through the same impl / model / compare / oracle path as generated cases."""
        out = super().corpus()
        rng = __import__("random").Random(self.seed * 7919 + 10)
        n = 5 if self.tier == "quick" else 40
        for name in REAL_MODULES:
            for _ in range(n):
                out.append({"real": name, "calls": [real_call(name, rng) for _ in range(rng.randint(1, 4))]})
        return out

    def impl_real(self, case):
        sp, mod = real_module(case["real"])
        traces = [real_run(sp, mod, c) for c in case["calls"]]
        noex = {"exCode": [], "exT": [], "exF": []}
        out = self.evaluate(sp, traces, noex)
        out["real"] = True
        out["model_case"] = dict(noex, mode="c10", reg=registry_json(sp), perm=[], split=0,
                                 traces=[dict(trace_state(t), updates=[]) for t in traces])
        self.count("real:" + case["real"])
        if not all(out["hyp"].values()):
            self.count("real:hypothesis-false:" + "-".join(k for k, b in out["hyp"].items() if not b))
        return out


# ---------------------------------------------------------------------------------------------
# real histories: instrument small modules with pynguin's import hook, run them under the real tracer
# ---------------------------------------------------------------------------------------------
REAL_MODULES = {
    "sutc10a": '''
def classify(x, y):
    if x > y:
        if x > 10:
            return "big"
        return "gt"
    elif x == y:
        return "eq"
    total = 0
    for i in range(y - x):
        if i % 2 == 0:
            total += i
    return total


def helper(s):
    return s.upper()


class Acc:
    def __init__(self, start):
        self.v = start

    def add(self, n):
        while n > 0:
            self.v += 1
            n -= 1
        return self.v

    def never(self):
        return -1
''',
    "sutc10b": '''
def lookup(d, k, default=None):
    if k in d:
        v = d[k]
        if v is None:
            return default
        return v
    if default is not None and k != "":
        return default
    raise KeyError(k)


def safe_div(a, b):
    try:
        return a / b
    except ZeroDivisionError:
        return 0.0


def words(s, sep):
    out = []
    cur = ""
    for ch in s:
        if ch == sep:
            if cur:
                out.append(cur)
            cur = ""
        else:
            cur += ch
    if cur:
        out.append(cur)
    return out


def outer(n):
    def inner(k):
        if k < 0:
            return 0
        return k * 2
    return inner(n) + inner(-n)
''',
    # predicates without guidance towards the outcome that is not taken: the real tracer reports inf for it
    # (`_falsy_distance` of a plain object, `_eq` of objects of unknown type), in loops and across calls
    "sutc10c": '''
class Tok:
    pass


def truthy(n):
    hits = 0
    for _ in range(n):
        t = Tok()
        if t:
            hits += 1
    return hits


def same(n, k):
    toks = [Tok() for _ in range(n)]
    marker = toks[k] if 0 <= k < n else Tok()
    found = 0
    for t in toks:
        if t == marker:
            found += 1
    return found


def once(flag):
    t = Tok()
    if t != flag:
        return 1
    return 0
''',
}


def real_call(name, rng):
    """A JSON-able call description for module `name`."""
    r = rng.randint
    if name == "sutc10a":
        return rng.choice([
            {"f": "classify", "args": [r(-5, 25), r(-5, 25)]}, {"f": "classify", "args": [r(0, 3), r(0, 3)]},
            {"f": "helper", "args": ["ab"]}, {"f": "Acc", "args": [r(0, 3)], "m": "add", "margs": [r(-1, 4)]}])
    if name == "sutc10c":
        return rng.choice([{"f": "truthy", "args": [r(0, 3)]}, {"f": "same", "args": [r(0, 3), r(-1, 2)]},
                           {"f": "once", "args": [r(0, 1)]}])
    words = ["", "a", "a b", "ab  cd", "x,y"]
    return rng.choice([
        {"f": "lookup", "args": [{"a": 1, "b": None}, rng.choice(["a", "b", "c", ""]), rng.choice([None, 7])]},
        {"f": "safe_div", "args": [r(0, 3), r(0, 2)]},
        {"f": "words", "args": [rng.choice(words), rng.choice(" ,")]}, {"f": "outer", "args": [r(-2, 2)]}])


_REAL: dict = {}


def real_module(name):
    """Instrument REAL_MODULES[name] (BRANCH + LINE) once per process through pynguin's import hook."""
    if name in _REAL:
        return _REAL[name]
    import atexit
    import importlib
    import pynguin.configuration as config
    from pynguin.instrumentation.machinery import install_import_hook
    from pynguin.instrumentation.tracer import SubjectProperties
    if "__tmp" not in _REAL:
        _REAL["__tmp"] = Path(tempfile.mkdtemp(prefix="verif-c10-"))
        atexit.register(shutil.rmtree, _REAL["__tmp"], ignore_errors=True)
    tmp = _REAL["__tmp"]
    (tmp / f"{name}.py").write_text(REAL_MODULES[name])
    sys.path.insert(0, str(tmp))
    try:
        sys.modules.pop(name, None)
        importlib.invalidate_caches()
        sp = SubjectProperties()
        metrics = {config.CoverageMetric.BRANCH, config.CoverageMetric.LINE}
        with install_import_hook(name, sp, coverage_metrics=metrics):
            with sp.instrumentation_tracer:
                mod = importlib.import_module(name)
        sys.modules.pop(name, None)
    finally:
        sys.path.remove(str(tmp))
    _REAL[name] = (sp, mod)
    return sp, mod


def real_run(sp, mod, call):
    """Run one call under the real tracer; returns a copy of the recorded ExecutionTrace."""
    from pynguin.instrumentation.tracer import ExecutionTrace
    tracer = sp.instrumentation_tracer
    tracer.init_trace()
    with tracer:
        try:
            obj = getattr(mod, call["f"])(*call["args"])
            if "m" in call:
                getattr(obj, call["m"])(*call["margs"])
        except (KeyError, ZeroDivisionError):
            pass
    t = ExecutionTrace()
    t.merge(tracer.get_trace())
    return t


if __name__ == "__main__":
    run_main(C10)
