"""C32 — non-terminating tests time out without polluting later executions (DESIGN §5 C32).

Two kinds of cases, both compared with the Lean model `Driver/C32.lean` (Model/ThreadGuard.lean):

* ``sched`` — a schedule of tracer calls `(thread, op)` is executed on the REAL `ExecutionTracer`
  (through its `InstrumentationExecutionTracer` proxy) from REAL threads, one call at a time, in
  exactly the given order (every thread waits on its own queue; the controller hands out one call and
  waits for the answer).  After every call every thread reports its own flag and trace.  Compared
  with the model: which calls raised `TracingAbortedException`, the final `current`, the import trace
  and every thread's flag and trace.
* ``hist`` — a history of test cases (terminating ones, busy loops in instrumented code, loops with
  sleeps, threads parked in uninstrumented code that wake up in the middle of a later test case,
  code that swallows `TracingAbortedException`, and LATE FINISHERS: terminating test cases whose tail
  after the last thread check — an observer rendering a value with a blocking `__repr__`, an
  after-test-case observer — outlasts the time bound, so that the abandoned thread still completes
  and puts its result, in the grace period or in the middle of a later execution) is executed by the
  REAL `TestCaseExecutor` with small real timeouts in a child interpreter.  Test cases may also never
  terminate INSIDE a tracer call (the tracer evaluates the comparison of a branch condition itself:
  `x in <endless generator>`, an `__eq__`/`__bool__` parked in uninstrumented code).  A recording
  subclass of `ExecutionTracer` and a logging wrapper of the result queue log the history that
  actually happened (every outermost plain tracer call and every `put` under a lock; of a callback the
  guard — the wrapper's `check()` — under the lock and the completion separately, the body never under
  the lock; one `collect` per `execute`); that
  recorded history is run through the Lean model (tracer + per-execution result queues), and the
  model's `execute` results (timeout / producing execution / trace / exceptions) are compared with
  what the executor returned.

Property oracle (independent of the Lean model, in the property's words):
sched: a call by thread t never changes another thread's flag or trace, and everything in a thread's
final trace was issued by that thread (or comes from an import trace).  hist: every non-terminating
test case is reported as a timeout and `execute` returns (hang cap, see below); once `execute` gave up
on an execution (`stop()`), no callback of that execution's thread passes the thread guard any more
(the abandoned execution is dead for whatever is executed afterwards); every later result
that is not a timeout contains no line, branch, predicate, code object or exception that the same
test case executed on its own does not produce.

Timing: wall-clock is only *measured* (soft bound → counter `slow`), never judged, except for a hang
cap of 60 s + the configured bound (a `join` without timeout would block forever).  Late finishers are
released by events of the schedule (the executor's `stop()`, a later test's poke), not by sleeps sized
against the bound (the `timer` variant sleeps first-join + maxT/2 and is never judged either): a late
finisher is a terminating test case — whatever it reports must be a timeout or ⊆ its solo result.
"""
from __future__ import annotations

import atexit
import json
import os
import queue
import select
import subprocess
import sys
import threading
import time

import vcommon
from vcommon import Failure, PropertyCheck, run_main

HANG_CAP = float(os.environ.get("C32_HANG_CAP", "60"))
CB_CAP = 300          # successful callbacks logged per thread in a recorded history
UNDEAD_CAP = 45.0     # extra seconds an abandoned thread gets to die after the end of a history


# =================================================================================================
# canonical forms
# =================================================================================================
def canon_trace(tr) -> dict:
    return {"codes": list(tr.executed_code_objects), "lines": list(tr.covered_line_ids),
            "preds": [[p, c] for p, c in tr.executed_predicates.items()],
            "tcov": sorted(p for p, d in tr.true_distances.items() if d == 0.0),
            "fcov": sorted(p for p, d in tr.false_distances.items() if d == 0.0)}


def norm_model_trace(t: dict) -> dict:
    return {"codes": t["codes"], "lines": t["lines"], "preds": t["preds"],
            "tcov": sorted(t["tcov"]), "fcov": sorted(t["fcov"])}


def items(t: dict) -> set:
    return ({("code", c) for c in t["codes"]} | {("line", l) for l in t["lines"]}
            | {("pred", p) for p, _ in t["preds"]} | {("tbranch", p) for p in t["tcov"]}
            | {("fbranch", p) for p in t["fcov"]})


def cb_items(c: dict) -> set:
    (k, v), = c.items()
    if k == "code":
        return {("code", v["c"])}
    if k == "line":
        return {("line", v["l"])}
    return {("pred", v["p"]), ("tbranch" if v["b"] else "fbranch", v["p"])}


def op_of(o):
    """Compact op (string or [kind, …]) → the JSON the Lean driver derives."""
    if isinstance(o, str):
        return o
    if o[0] == "code":
        return {"cb": {"c": {"code": {"c": o[1]}}}}
    if o[0] == "line":
        return {"cb": {"c": {"line": {"l": o[1]}}}}
    if o[0] == "pred":
        return {"cb": {"c": {"pred": {"p": o[1], "b": bool(o[2])}}}}
    raise AssertionError(o)


# =================================================================================================
# executing single tracer calls on the real tracer
# =================================================================================================
def apply_op(proxy, o) -> bool:
    """Execute one call; True iff it raised TracingAbortedException."""
    from pynguin.instrumentation import PynguinCompare as PC
    from pynguin.utils.exceptions import TracingAbortedException
    try:
        if o == "initTrace":
            proxy.init_trace()
        elif o == "enter":
            proxy.__enter__()
        elif o == "exit":
            proxy.__exit__(None, None, None)
        elif o == "stop":
            proxy.stop()
        elif o == "check":
            proxy.check()
        elif o == "enable":
            proxy.enable()
        elif o == "disable":
            proxy.disable()
        elif o == "storeImport":
            proxy.store_import_trace()
        elif o == "reset":
            proxy.reset()
        elif o[0] == "code":
            proxy.executed_code_object(o[1])
        elif o[0] == "line":
            proxy.track_line_visit(o[1])
        elif o[0] == "pred":
            p, b = o[1], bool(o[2])
            if p % 3 == 0:
                proxy.executed_bool_predicate(b, p)
            elif p % 3 == 1:
                proxy.executed_compare_predicate(1, 1 if b else 2, p, PC.EQ)
            else:
                proxy.executed_exception_match(ValueError("x"), ValueError if b else KeyError, p)
        else:
            raise AssertionError(o)
    except TracingAbortedException:
        return True
    return False


class _Worker(threading.Thread):
    """A real thread that executes one tracer call at a time on request.  The threads are reused
    between schedules: every schedule has its own tracer, hence its own fresh `threading.local`."""

    def __init__(self):
        super().__init__(daemon=True)
        self.proxy = None
        self.inq: queue.SimpleQueue = queue.SimpleQueue()
        self.outq: queue.SimpleQueue = queue.SimpleQueue()

    def run(self):
        while True:
            o = self.inq.get()
            if o is None:
                return
            try:
                self.outq.put(("ok", _do(self.proxy, o)))
            except BaseException as e:  # noqa: BLE001 - reported to the controller
                self.outq.put(("exc", f"{type(e).__name__}: {e}"))

    def call(self, o):
        self.inq.put(o)
        kind, val = self.outq.get(timeout=120)
        if kind == "exc":
            raise RuntimeError(f"tracer call {o} raised {val}")
        return val


_POOL: list = []


def _do(proxy, o):
    """In the calling thread: execute `o` (or nothing for "snap"); report whether it raised and the
    caller's own view of its trace object and flag afterwards."""
    raised = False if o == "snap" else apply_op(proxy, o)
    return raised, proxy.get_trace(), not proxy.is_disabled()


def run_schedule(case) -> dict:
    """Execute a schedule on a fresh real tracer with real threads, one call at a time.

    After every call the caller reports its own trace object and flag; the trace objects the other
    threads reported last are re-read by the controller (a write into them is seen immediately).  At
    the middle of the schedule and at its end every thread reports its own view again (a replaced
    trace object or a changed flag is seen there)."""
    from pynguin.instrumentation.tracer import ExecutionTracer, InstrumentationExecutionTracer
    n = case["n"]
    evs = case["evs"]
    tracer = ExecutionTracer()
    proxy = InstrumentationExecutionTracer(tracer)
    while len(_POOL) < n - 1:
        w = _Worker()
        w.start()
        _POOL.append(w)
    workers = {t: _POOL[t - 1] for t in range(1, n)}
    for w in workers.values():
        w.proxy = proxy
    ident = {0: threading.current_thread().ident}
    ident.update({t: w.ident for t, w in workers.items()})

    def call(t, o):
        return _do(proxy, o) if t == 0 else workers[t].call(o)

    try:
        objs, flags, prev = {}, {}, {}
        for t in range(n):
            _, objs[t], flags[t] = call(t, "snap")
            prev[t] = canon_trace(objs[t])
        imps = [canon_trace(proxy.import_trace)]
        raised, interference = [], []
        sweeps = {len(evs) // 2, len(evs) - 1}
        acted: set = set()
        for i, (t, o) in enumerate(evs):
            r, objs[t], flags[t] = call(t, o)
            raised.append(r)
            acted.add(t)
            prev[t] = canon_trace(objs[t])
            for u in range(n):
                if u != t:
                    c = canon_trace(objs[u])
                    if c != prev[u]:
                        interference.append({"event": i, "by": t, "victim": u, "before": prev[u],
                                             "after": c})
                        prev[u] = c
            if o in ("storeImport", "reset"):
                imps.append(canon_trace(proxy.import_trace))
            if i in sweeps:
                for u in range(n):
                    _, ob, en = call(u, "snap")
                    c = canon_trace(ob)
                    if c != prev[u] or en != flags[u]:
                        interference.append({"event": i, "by": sorted(acted - {u}), "victim": u,
                                             "before": [prev[u], flags[u]], "after": [c, en]})
                    objs[u], flags[u], prev[u] = ob, en, c
                acted = set()
        cur = tracer._current_thread_identifier  # noqa: SLF001
        rev = {v: k for k, v in ident.items()}
        return {"raised": raised, "current": None if cur is None else rev.get(cur, "unknown"),
                "imp": canon_trace(proxy.import_trace),
                "locals": [{"enabled": flags[u], "trace": prev[u]} for u in range(n)],
                "interference": interference[:3], "imps": imps}
    finally:
        for w in workers.values():
            w.proxy = None


# =================================================================================================
# histories on the real TestCaseExecutor (child interpreter)
# =================================================================================================
SYNC_SRC = '''
import threading, time
HARD = 900.0
_lock = threading.Lock()
RELEASE, THREAD = {}, {}
STOP_SPIN = False
OPEN = False         # set at the end of a history: nothing blocks any more
GATES = {}           # key -> "stop" | "poke" | ["timer", seconds]; a key that is not declared is open
_armed = threading.local()


def _ev(k):
    with _lock:
        if k not in RELEASE:
            RELEASE[k] = threading.Event()
        return RELEASE[k]


def park(k):
    """Block in uninstrumented code (a sleep, as far as the tracer can tell) until poked."""
    with _lock:
        THREAD[k] = threading.current_thread()
    if not OPEN:
        _ev(k).wait(HARD)


def gate(k):
    """A slow spot in uninstrumented code (a blocking __repr__, a slow observer).  Mode "stop": parked
    until the executor gives up on an execution (tracer.stop()); "poke": parked until a later test
    case pokes k; ["timer", s]: a plain sleep of s seconds; undeclared: returns at once."""
    mode = GATES.get(k)
    if mode is None or OPEN:
        return
    with _lock:
        THREAD[k] = threading.current_thread()
    if isinstance(mode, (list, tuple)):
        _ev(k).wait(float(mode[1]))
    else:
        _ev(k).wait(HARD)


def fire_stop():
    """The executor called tracer.stop(): whoever is parked at a "stop" gate goes on now."""
    with _lock:
        ks = [k for k in THREAD if GATES.get(k) == "stop"]
    for k in ks:
        _ev(k).set()


def arm(k):
    """The calling thread's after-test-case observer will pass gate k."""
    _armed.k = k


def fire_armed():
    k = getattr(_armed, "k", None)
    if k is not None:
        _armed.k = None
        gate(k)


def poke(k, wait=0.25):
    """Wake the thread parked at k and give it a moment to run into the tracer and die."""
    with _lock:
        th = THREAD.get(k)
    _ev(k).set()
    if th is None:
        return
    end = time.monotonic() + wait
    while th.is_alive() and time.monotonic() < end:
        time.sleep(0.002)


def tick():
    if STOP_SPIN:
        raise SystemExit
    time.sleep(0.005)


def alive():
    """Polled by busy loops that cannot be killed by the tracer (they run INSIDE a tracer call)."""
    if STOP_SPIN:
        raise SystemExit
    return True


def release_all():
    global OPEN
    OPEN = True
    with _lock:
        evs = list(RELEASE.values())
    for e in evs:
        e.set()


def reset():
    global STOP_SPIN, OPEN
    with _lock:
        RELEASE.clear()
        THREAD.clear()
        GATES.clear()
    STOP_SPIN = False
    OPEN = False
'''

SUT_SRC = '''
import {sync} as _s


def work(a):
    r = 0
    if a > 0:
        r = 1
    else:
        r = 2
    if a % 2 == 0:
        r += 10
    if a > 4:
        r += 100
    return r


def boom(a):
    if a > 2:
        raise ValueError(a)
    raise KeyError(a)


def spin(a):
    n = 0
    while True:
        n += 1
        if n < 0:
            break
    return n


def spin_tick(a):
    n = 0
    while True:
        _s.tick()
        n += work(a)
    return n


def nap(k, a):
    r = work(a)
    _s.park(k)
    r += work(a + 1)
    return r


def swallow(k, a):
    r = work(a)
    _s.park(k)
    for i in range(2):
        try:
            r += work(a + i)
        except:
            r = -1
    return r


def relay(k, a):
    r = work(a)
    _s.poke(k)
    r += work(a + 1)
    return r


class Slow:
    """A value that is slow to render (the observers render the values statements bind)."""

    def __init__(self, k, r):
        self.k = k
        self.r = r

    def __repr__(self):
        _s.gate(self.k)
        if self.r > 10:
            return "Slow(big)"
        return "Slow()"


def late(k, a):
    r = work(a)
    return Slow(k, r)


def late_post(k, a):
    _s.arm(k)
    return work(a)


# ---- test cases that never terminate INSIDE a tracer call: the tracer evaluates the comparison of a
# ---- branch condition itself (branch distance), with tracing disabled - check() cannot kill them
def numbers(busy):
    """An endless one-shot iterator."""
    n = 0
    while _s.alive():
        if not busy:
            _s.tick()
        yield n
        n += 1


def stuck_in(a):
    r = work(a)
    if -1 in numbers(a % 2 == 0):
        r += 1000
    return r


class Gate:
    """Comparing it / asking for its truth value waits in an uninstrumented helper."""

    def __init__(self, k):
        self.k = k

    def __eq__(self, other):
        _s.park(self.k)
        return True

    def __hash__(self):
        return 1

    def __bool__(self):
        _s.park(self.k)
        return True


def stuck_eq(k, a):
    r = work(a)
    if Gate(k) == 1:
        r += work(a + 2)
    return r


def stuck_bool(k, a):
    r = work(a)
    if Gate(k):
        r += work(a + 2)
    return r
'''


def _make_recorder():
    from pynguin.instrumentation.tracer import ExecutionTracer

    class Recorder(ExecutionTracer):
        """Logs every outermost tracer call `[thread, op, raised, state]` in the order the calls take
        effect.  Plain calls (enter/exit/stop/check/…) are executed and logged under one lock.  A
        CALLBACK is not: its body evaluates the comparison of the module under test (it may take for
        ever), so only its guard — the `check()` the `_early_return` wrapper makes — is executed under
        the lock; there the callback gets its place in the log (state "open"), and when the call
        returns the entry is completed (state "done", predicate outcome filled in) and an "end" entry
        is logged.  States: plain | skipped (returned before the guard: tracing disabled) | raised |
        open (passed the guard, has not returned) | done | end."""

        def __init__(self):
            self._rec_ready = False
            super().__init__()
            self._rec_lock = threading.RLock()
            self._rec_depth = threading.local()
            self._rec_threads: dict = {}     # thread object -> global tid
            self.log: list = []              # [gtid, op, raised, state]
            self.cb_count: dict = {}
            self.truncated: set = set()
            self.epoch = 0                   # number of enter/exit/stop calls so far
            self.last_epoch: dict = {}
            self.recording = True
            self.on_stop = None              # called after an outermost stop() (gate module)
            self._rec_ready = True

        def tid(self):
            th = threading.current_thread()
            with self._rec_lock:
                if th not in self._rec_threads:
                    self._rec_threads[th] = len(self._rec_threads)
                return self._rec_threads[th]

        def snapshot(self):
            with self._rec_lock:
                return [list(e) for e in self.log]

        def _wrap(self, op, fn, *a, **kw):
            if not self._rec_ready:
                return fn(*a, **kw)
            d = getattr(self._rec_depth, "d", 0)
            if d > 0 or not self.recording:
                return fn(*a, **kw)
            if not isinstance(op, str):
                return self._wrap_cb(op, fn, *a, **kw)
            from pynguin.utils.exceptions import TracingAbortedException
            with self._rec_lock:
                t = self.tid()
                self._rec_depth.d = 1
                raised = False
                try:
                    return fn(*a, **kw)
                except TracingAbortedException:
                    raised = True
                    raise
                finally:
                    self._rec_depth.d = 0
                    if op in ("enter", "exit", "stop"):
                        self.epoch += 1
                    self.log.append([t, op, raised, "plain"])

        def _log_cb(self, entry):
            """Under the lock.  The first CB_CAP callbacks of a thread that pass the guard or are skipped
            are logged; afterwards only the first one after every enter/exit/stop of any thread (so a
            thread that goes on being accepted after it was abandoned is seen however long it loops)."""
            t = entry[0]
            c = self.cb_count.get(t, 0) + 1
            self.cb_count[t] = c
            if c > CB_CAP:
                self.truncated.add(t)
                if self.last_epoch.get(t) == self.epoch:
                    return False
            self.last_epoch[t] = self.epoch
            self.log.append(entry)
            return True

        def _wrap_cb(self, op, fn, *a, **kw):
            loc = self._rec_depth
            loc.d = 1
            loc.pending = list(op)
            loc.slot = None
            loc.outcome = None
            completed = False
            try:
                r = fn(*a, **kw)
                completed = True
                return r
            finally:
                loc.d = 0
                loc.pending = None
                slot, loc.slot = loc.slot, None
                with self._rec_lock:
                    if slot is None:
                        if completed:   # `if self.is_disabled(): return`
                            self._log_cb([self.tid(), list(op), False, "skipped"])
                    elif slot[3] == "open" and completed:
                        if slot[1][0] == "pred":
                            slot[1][2] = bool(loc.outcome)
                        slot[3] = "done"
                        if slot[4]:
                            self.log.append([slot[0], ["end"], False, "end"])
                    elif slot[3] == "open":
                        slot[3] = "died"    # the body raised (SystemExit at the end of a history)

        def _guard(self):
            """The `check()` of the `_early_return` wrapper of an outermost callback."""
            from pynguin.utils.exceptions import TracingAbortedException
            loc = self._rec_depth
            op, loc.pending = loc.pending, None
            with self._rec_lock:
                t = self.tid()
                try:
                    ExecutionTracer.check(self)
                except TracingAbortedException:
                    loc.slot = [t, op, True, "raised", True]
                    self.log.append(loc.slot)
                    raise
                entry = [t, op, False, "open", False]
                entry[4] = self._log_cb(entry)
                loc.slot = entry

        def _update_metrics(self, distance_false, distance_true, predicate):
            self._rec_depth.outcome = distance_true == 0.0
            return super()._update_metrics(distance_false, distance_true, predicate)

        def __enter__(self):
            return self._wrap("enter", super().__enter__)

        def __exit__(self, *a):
            return self._wrap("exit", super().__exit__, *a)

        def stop(self):
            outer = self._rec_ready and getattr(self._rec_depth, "d", 0) == 0
            r = self._wrap("stop", super().stop)
            if outer and self.on_stop is not None:
                self.on_stop()
            return r

        def log_put(self, q, item, *a, **kw):
            """`result_queue.put(result)` of a test thread, logged at its place in the schedule."""
            with self._rec_lock:
                q.put(item, *a, **kw)
                if self.recording:
                    self.log.append([self.tid(), ["put", exc_ids(
                        sorted([i, type(e).__name__] for i, e in item.exceptions.items()))], False,
                        "plain"])

        def check(self):
            loc = self._rec_depth
            if (self._rec_ready and getattr(loc, "d", 0) == 1
                    and getattr(loc, "pending", None) is not None):
                return self._guard()
            return self._wrap("check", super().check)

        def init_trace(self):
            return self._wrap("initTrace", super().init_trace)

        def store_import_trace(self):
            return self._wrap("storeImport", super().store_import_trace)

        def reset(self):
            return self._wrap("reset", super().reset)

        def enable(self):
            return self._wrap("enable", super().enable)

        def disable(self):
            return self._wrap("disable", super().disable)

        def executed_code_object(self, c):
            return self._wrap(["code", c], super().executed_code_object, c)

        def track_line_visit(self, l):
            return self._wrap(["line", l], super().track_line_visit, l)

        # the outcome of a predicate is taken from what the tracer itself hands to `_update_metrics`:
        # the recorder must not evaluate the comparison (it may never return)
        def executed_bool_predicate(self, value, predicate):
            return self._wrap(["pred", predicate, None], super().executed_bool_predicate,
                              value, predicate)

        def executed_compare_predicate(self, value1, value2, predicate, cmp_op):
            return self._wrap(["pred", predicate, None], super().executed_compare_predicate,
                              value1, value2, predicate, cmp_op)

        def executed_exception_match(self, err, exc, predicate):
            return self._wrap(["pred", predicate, None], super().executed_exception_match,
                              err, exc, predicate)

        def executed_in_presence_predicate(self, *a, **kw):  # the SUT has no subscripts
            raise AssertionError("unexpected executed_in_presence_predicate")

    return Recorder()


EXC_IDS = {"ValueError": 1, "KeyError": 2}


def exc_ids(excs) -> list:
    """[[statement index, exception type name]…] → [[statement index, small id]…] for the model."""
    return [[i, EXC_IDS.get(n, 9)] for i, n in excs]


class _LogQ:
    """The queue handed to `_execute_test_case`, with `put` logged by the recorder."""

    def __init__(self, q, rec):
        self._q, self._rec = q, rec

    def put(self, item, *a, **kw):
        self._rec.log_put(self._q, item, *a, **kw)

    def __getattr__(self, name):
        return getattr(self._q, name)


def _make_observer(sync):
    from pynguin.testcase.execution_observers import RemoteExecutionObserver

    class TailObserver(RemoteExecutionObserver):
        """Renders the value every statement binds (as the assertion observers do) and does its
        bookkeeping after the test case — both run after the last thread check of a test case."""

        def before_test_case_execution(self, test_case):
            pass

        def after_statement_execution(self, statement, executor, namespace, exception):
            if exception is None and statement.bound_variable is not None:
                repr(namespace.get(statement.bound_variable))

        def after_test_case_execution(self, executor, test_case, result):
            sync.fire_armed()

    return TailObserver()


class _Env:
    """One instrumented copy of the SUT with its recording tracer (per metric set)."""

    def __init__(self, base: str, metrics: tuple):
        import importlib
        import pynguin.configuration as config
        from pynguin.instrumentation.machinery import install_import_hook
        from pynguin.instrumentation.tracer import InstrumentationExecutionTracer, SubjectProperties
        tag = "".join(m[0] for m in metrics).lower()
        self.sync_name = f"c32sync_{os.getpid()}"
        self.name = f"c32sut_{tag}_{os.getpid()}"
        if self.sync_name not in sys.modules:
            with open(os.path.join(base, self.sync_name + ".py"), "w") as f:
                f.write(SYNC_SRC)
        with open(os.path.join(base, self.name + ".py"), "w") as f:
            f.write(SUT_SRC.replace("{sync}", self.sync_name))
        self.rec = _make_recorder()
        self.sp = SubjectProperties(instrumentation_tracer=InstrumentationExecutionTracer(self.rec))
        self.metrics = [getattr(config.CoverageMetric, m) for m in metrics]
        config.configuration.module_name = self.name
        config.configuration.statistics_output.coverage_metrics = list(self.metrics)
        self.rec.tid()  # the importing thread is tid 0
        with install_import_hook(self.name, self.sp, coverage_metrics=set(self.metrics)):
            with self.sp.instrumentation_tracer:
                self.mod = importlib.import_module(self.name)
        self.sync = sys.modules[self.sync_name]
        self.rec.on_stop = self.sync.fire_stop
        self.observer = _make_observer(self.sync)
        self.import_log = list(self.rec.log)
        self.rec.log.clear()

    def activate(self):
        import pynguin.configuration as config
        config.configuration.module_name = self.name
        config.configuration.statistics_output.coverage_metrics = list(self.metrics)


def _build_test(stmts):
    import libcst as cst
    import pynguin.testcase.testcase as tc
    test = tc.TestCase()
    for j, code in enumerate(stmts):
        node = cst.parse_module(f"var_{j} = {code}\n").body[0]
        test.add_statement(tc.Statement(node=node, bound_variable=f"var_{j}", bound_type=None))
    return test


def _canon_result(res) -> dict:
    return {"timeout": bool(res.timeout), "trace": canon_trace(res.execution_trace),
            "exceptions": sorted([i, type(e).__name__] for i, e in res.exceptions.items())}


def _worker_history(envs: dict, base: str, case: dict) -> dict:
    from pynguin.testcase.execution import TestCaseExecutor
    metrics = tuple(case["metrics"])
    if metrics not in envs:
        envs[metrics] = _Env(base, metrics)
    env = envs[metrics]
    env.activate()
    rec, sp, sync = env.rec, env.sp, env.sync
    tests = case["tests"]
    out: dict = {"results": [], "solo": {}, "notes": []}

    # ---- solo executions (no abandoned threads around, generous timeouts, not recorded) ----------
    rec.recording = False
    sync.reset()
    for t in tests:
        if t["loops"]:
            continue
        key = json.dumps(t["stmts"])
        if key in out["solo"]:
            continue
        solo = None
        for _ in range(3):
            ex = TestCaseExecutor(sp, maximum_test_execution_timeout=20,
                                  test_execution_time_per_statement=20)
            ex.add_remote_observer(env.observer)
            r = ex.execute(_build_test(t["stmts"]))
            if not r.timeout:
                solo = _canon_result(r)
                break
        out["solo"][key] = solo
    # ---- the history ------------------------------------------------------------------------------
    sync.reset()
    sync.GATES.update({int(k): v for k, v in (case.get("gates") or {}).items()})
    if rec._current_thread_identifier is not None:  # noqa: SLF001
        out["notes"].append("current thread id not None at history start")
    rec.log.clear()
    rec.cb_count.clear()
    rec.truncated.clear()
    rec.last_epoch.clear()
    thread_of_test: dict = {}

    class Exec(TestCaseExecutor):
        def _execute_test_case(self, test_case, ctx, q):  # runs in the test thread
            thread_of_test[id(test_case)] = rec.tid()
            return super()._execute_test_case(test_case, ctx, _LogQ(q, rec))

    progress = {"i": -1, "done": False}
    results: list = []
    windows: list = []
    keep: list = []   # keeps the test objects alive (their id() is a key)

    def main():
        rec.recording = True
        main_tid = rec.tid()
        progress["main_tid"] = main_tid
        ex = Exec(sp, maximum_test_execution_timeout=case["maxT"],
                  test_execution_time_per_statement=case["perStmt"])
        ex.add_remote_observer(env.observer)
        for i, t in enumerate(tests):
            progress["i"] = i
            test = _build_test(t["stmts"])
            keep.append(test)
            lo = len(rec.log)
            t0 = time.monotonic()
            r = ex.execute(test)
            el = time.monotonic() - t0
            windows.append((lo, len(rec.log), id(test)))
            cr = _canon_result(r)
            cr["elapsed"] = round(el, 3)
            results.append(cr)
        progress["done"] = True

    bound = sum(min(case["maxT"], case["perStmt"] * len(t["stmts"])) + case["maxT"] for t in tests)
    h = threading.Thread(target=main, daemon=True)
    h.start()
    h.join(bound + HANG_CAP)
    if not progress["done"]:
        out["hang"] = {"test": progress["i"], "waited": round(bound + HANG_CAP, 1),
                       "threads_inside_a_tracer_call": [e[1] for e in list(rec.log)
                                                        if len(e) > 3 and e[3] == "open"][:5]}
        out["results"] = results
        sync.STOP_SPIN = True
        sync.release_all()
        return out
    # ---- let every abandoned thread run into the tracer and die; the schedule is then complete ----
    sync.release_all()
    sync.STOP_SPIN = True
    undead = []
    deadline = time.monotonic() + 20
    for th, g in list(rec._rec_threads.items()):  # noqa: SLF001
        if th is threading.current_thread() or th is h or g == 0:
            continue
        th.join(max(0.0, deadline - time.monotonic()))
        if th.is_alive():
            undead.append(g)
    rec.recording = False
    out["undead"] = undead
    # ---- renumber threads: the history's main thread is 0, test threads by first appearance --------
    log = rec.snapshot()
    ren = {progress["main_tid"]: 0}
    for e in log:
        if e[0] not in ren:
            ren[e[0]] = len(ren)
    pre = [(0, e[1], e[2], e[3]) for e in env.import_log]
    out["pre"] = len([e for e in pre if e[3] in COARSE])
    # ---- the history as the model sees it: tracer calls, puts of the test threads, and one collect
    #      per execute() (placed where execute() returned; alive = the main thread called stop()) ------
    exec_of_thread, collect_at, stopped, stop_at = {}, {}, [], []
    for i, (lo, hi, key) in enumerate(windows):
        g = thread_of_test.get(key)
        if g is not None:
            exec_of_thread[g] = i
        collect_at.setdefault(hi, []).append(i)
        sj = [j for j in range(lo, hi) if log[j][1] == "stop" and ren[log[j][0]] == 0]
        stopped.append(bool(sj))
        stop_at.append(sj[0] if sj else None)
    # a callback sits where its guard was passed; one that never returned (stuck inside the tracer call
    # until the end of the history) has no effect at all and is left out of the coarse history
    hist, raised, fine, fine_raised = [], [], [], []
    open_cb: dict = {}

    def emit(t, o, r, st):
        if st in COARSE:
            hist.append(["call", t, o])
            raised.append(r)
        if st in ("done", "open", "died"):
            open_cb[t] = o
        for f in _fine_events(t, o, st, open_cb.get(t)):
            fine.append(f)
            fine_raised.append(r)

    for t, o, r, st in pre:
        emit(t, o, r, st)
    open_cb.clear()
    late_puts = 0
    for j, e in enumerate(log):
        g, o, r, st = e[0], e[1], e[2], e[3]
        for i in collect_at.get(j, ()):
            hist.append(["collect", i, stopped[i]])
        if isinstance(o, list) and o[0] == "put":
            i = exec_of_thread[g]
            hist.append(["put", i, ren[g], o[1]])
            late_puts += 1 if stopped[i] else 0
            continue
        emit(ren[g], o, r, st)
    for i in collect_at.get(len(log), ()):
        hist.append(["collect", i, stopped[i]])
    out["hist"] = hist
    out["raised"] = raised
    out["fine"] = fine
    out["fine_raised"] = fine_raised
    out["late_puts"] = late_puts
    out["n"] = len(ren)
    out["truncated"] = sorted(ren[g] for g in rec.truncated if g in ren)
    out["stuck"] = sorted({ren[e[0]] for e in log if e[3] in ("open", "died")})
    # ---- the abandoned execution must be dead for whatever is executed afterwards: once execute() gave
    #      up on execution i (the watchdog's stop()), no callback of its thread passes the guard any more
    zombies = []
    for i, (lo, hi, key) in enumerate(windows):
        g = thread_of_test.get(key)
        if g is None or stop_at[i] is None:
            continue
        acc = [j for j in range(stop_at[i] + 1, len(log))
               if log[j][0] == g and log[j][3] in ("open", "done", "died")]
        if acc:
            zombies.append({"test": i, "thread": ren[g], "accepted_after_stop": len(acc),
                            "first": log[acc[0]][1], "events_after_stop": acc[0] - stop_at[i],
                            "during_later_test": max([k for k, (l2, h2, _) in enumerate(windows)
                                                      if l2 <= acc[-1]], default=i)})
    out["zombies"] = zombies
    # a thread that is still running long after everything was released and nothing in the log explains
    # it: give it a wide margin (load), then report it
    still = [th for th, g in list(rec._rec_threads.items()) if g in undead and th.is_alive()]  # noqa: SLF001
    if still and not zombies:
        deadline = time.monotonic() + UNDEAD_CAP
        for th in still:
            th.join(max(0.0, deadline - time.monotonic()))
        out["undead_hard"] = sorted(ren.get(g, -1) for th, g in list(rec._rec_threads.items())  # noqa: SLF001
                                    if th in still and th.is_alive())
    execs = []
    for i, (lo, hi, key) in enumerate(windows):
        g = thread_of_test.get(key)
        execs.append({"k": i, "tid": ren.get(g, -1) if g is not None else -1, "stopped": stopped[i]})
    out["execs"] = execs
    out["results"] = results
    return out


COARSE = ("plain", "skipped", "raised", "done")


def _fine_events(t, o, st, opened):
    """A log entry at the finer grain of the model: guard / write of a callback."""
    if st in ("plain",):
        return [[t, ["plain", o]]]
    if st in ("skipped", "raised", "open", "died", "done"):
        return [[t, "cbBegin"]]
    if st == "end":
        return [[t, ["cbEnd", opened]]]
    raise AssertionError(st)


def worker_main() -> None:
    """Child interpreter: one JSON history per line on stdin, one JSON answer per line on a private
    copy of stdout (fd 1 itself is pointed at stderr: the executor plays with sys.stdout / fd 1)."""
    import logging
    import shutil
    import tempfile
    proto = os.fdopen(os.dup(1), "w")
    os.dup2(2, 1)
    logging.disable(logging.CRITICAL)
    vcommon.use_repo_sources()
    base = os.environ.get("C32_BASE") or tempfile.mkdtemp(prefix="verif-c32-")
    sys.path.insert(0, base)
    envs: dict = {}
    try:
        for line in sys.stdin:
            line = line.strip()
            if not line:
                continue
            try:
                ans = _worker_history(envs, base, json.loads(line))
            except BaseException as e:  # noqa: BLE001 - reported to the parent as machinery error
                import traceback
                ans = {"error": f"{type(e).__name__}: {e}", "tb": traceback.format_exc()[-1500:]}
            proto.write(json.dumps(ans) + "\n")
            proto.flush()
            if ans.get("hang") or ans.get("undead") or ans.get("error"):
                break  # stuck / spinning threads: the parent starts a fresh interpreter
    finally:
        shutil.rmtree(base, ignore_errors=True)
        os._exit(0)  # abandoned daemon threads must not delay the exit


# =================================================================================================
# the check
# =================================================================================================
class C32(PropertyCheck):
    prop_id = "C32"
    level = "proof"  # schema category; the claim itself is partial by construction (wall-clock bound measured, not proved): see the manifest note
    prop_modules = ["PynguinModel.Props.C32"]
    extra_modules = ["PynguinModel.Model.ThreadGuard"]
    driver = "Driver/C32.lean"
    n_quick = 600
    n_thorough = 8000
    n_search = 2000
    hist_every = 300
    rule = ("sched: schedules of ≤ 48 tracer calls by ≤ 5 real threads (executor-shaped interleavings "
            "with abandoned threads waking up later, and free schedules); hist: histories of 4–11 test "
            "cases (loops, parked threads, late finishers) on the real TestCaseExecutor with real "
            "timeouts and an observer; non-trivial = a thread that is not "
            "current makes a guarded call while another thread records afterwards (sched), or a history "
            "with at least one abandoned execution followed by a terminating test case (hist); ~70 % of "
            "the generated histories contain a test case that never terminates inside a tracer call")
    assumptions = [
        "each plain tracer call is atomic; a callback is two atomic steps (guard = flag test + check(), "
        "write), in the coarse schedule it sits where its guard was passed (the write goes to the "
        "caller's thread-local trace only: late_callback_write_is_own_thread_only; checked per history "
        "by replaying both grains)",
        "Thread.join(timeout=x) returns after at most x plus scheduling delay (the wall-clock bound is "
        "measured, not proved); a hang is reported after bound + 60 s",
        "thread identifiers of live threads are unique (CPython guarantee)",
        "side effects of abandoned threads outside the tracer (FilesystemIsolation, stdout, module "
        "globals) are not part of C32",
    ]
    trusted_base_extra = [
        "harness/c32.py: the one-call-at-a-time thread controller, the recording ExecutionTracer "
        "subclass and result-queue wrapper (outermost calls and puts logged under a lock), the gate "
        "module used to park threads, the value-rendering observer",
    ]

    def __init__(self, tier, seed):
        super().__init__(tier, seed)
        self._gen_i = 0
        self._hung = False
        self._child = None
        self._bases: list = []
        self.extra_coverage.update({"hist_cases": 0, "hist_tests": 0, "hist_abandoned": 0,
                                    "hist_later_results_lost": 0, "hist_slow": 0,
                                    "hist_recorded_events": 0, "hist_late_finishers": 0,
                                    "hist_late_puts": 0, "hist_late_abandoned": 0,
                                    "hist_shared_queue_would_differ": 0,
                                    "hist_stuck_inside_tracer_call": 0, "hist_fine_events": 0,
                                    "hist_update_lock_would_block": 0})

    # -- generation ---------------------------------------------------------------------------
    def _rand_cb(self, rng):
        k = rng.random()
        if k < 0.45:
            return ["line", rng.randint(0, 9)]
        if k < 0.85:
            return ["pred", rng.randint(0, 8), rng.random() < 0.5]
        return ["code", rng.randint(0, 3)]

    def _thread_script(self, rng):
        ops = ["initTrace", "enter"]
        for _ in range(rng.randint(1, 3)):
            ops += ["check", "disable"] + [self._rand_cb(rng) for _ in range(rng.randint(0, 1))]
            ops += ["enable"] + [self._rand_cb(rng) for _ in range(rng.randint(0, 4))]
            ops += ["check", "disable", "enable"]
        ops.append("exit")
        return ops

    def _gen_sched_exec(self, rng):
        k = rng.randint(2, 4)
        evs = []
        if rng.random() < 0.7:  # module import by the main thread
            evs += [[0, "enter"], [0, "reset"]]
            evs += [[0, self._rand_cb(rng)] for _ in range(rng.randint(0, 4))]
            evs += [[0, "storeImport"], [0, "exit"]]
        pending = []  # ops of abandoned threads still to be issued, per thread
        for t in range(1, k + 1):
            script = self._thread_script(rng)
            loops = t < k and rng.random() < 0.6
            if loops:
                cut = rng.randint(2, len(script) - 1)
                mine, rest = script[:cut], script[cut:]
                tail = rng.random()
                if tail < 0.4:      # killed at its next guarded call: unwinds through __exit__
                    rest = [x for x in rest[:rng.randint(1, 3)] if x != "exit"] + ["exit"]
                elif tail < 0.7:    # the code under test swallows the exception and goes on
                    rest = [x for x in rest if x != "exit"] + ["check", "exit"]
                else:
                    rest = [x for x in rest if x != "exit"][:rng.randint(0, 4)]  # never wakes up fully
            else:
                mine, rest = script, []
            # interleave `mine` with what abandoned threads still have to say
            for o in mine:
                while pending and rng.random() < 0.25:
                    j = rng.randrange(len(pending))
                    u, ops = pending[j]
                    evs.append([u, ops.pop(0)])
                    if not ops:
                        pending.pop(j)
                evs.append([t, o])
            if loops:
                if rng.random() < 0.9:
                    evs.append([0, "stop"])
                if rest:
                    pending.append((t, rest))
        while pending and rng.random() < 0.8:
            u, ops = pending[0]
            evs.append([u, ops.pop(0)])
            if not ops:
                pending.pop(0)
        return {"kind": "sched", "shape": "exec", "n": k + 1, "evs": evs[:48]}

    def _gen_sched_free(self, rng):
        n = rng.randint(2, 5)
        plain = ["initTrace", "enter", "exit", "stop", "check", "enable", "disable"]
        evs = []
        for _ in range(rng.randint(5, 40)):
            t = rng.randrange(n)
            k = rng.random()
            if k < 0.5:
                o = self._rand_cb(rng)
            elif k < 0.95:
                o = rng.choice(plain)
            else:
                o = rng.choice(["storeImport", "reset"])
            evs.append([t, o])
        return {"kind": "sched", "shape": "free", "n": n, "evs": evs}

    def _gen_hist(self, rng):
        metrics = rng.choice([["BRANCH"], ["BRANCH", "LINE"], ["BRANCH", "LINE"]])
        frac = rng.random()
        maxT, per = (1, 1) if frac < 0.25 else (0.5, 0.5)
        n_tests = rng.randint(4, 7) if self.tier == "quick" else rng.randint(4, 9)
        tests, parked, gates, loops = [], [], {}, 0
        k = 0
        want_late = rng.random() < 0.6      # histories with at least one late finisher
        want_stuck = rng.random() < 0.7     # … with at least one test case stuck INSIDE a tracer call
        for i in range(n_tests):
            kind = rng.random()
            can_loop = loops < (3 if self.tier == "quick" else 4) and i < n_tests - 1
            force_late = want_late and can_loop and i == min(1, n_tests - 2)
            force_stuck = want_stuck and can_loop and not force_late and i <= min(2, n_tests - 2)
            if can_loop and (kind < 0.45 or force_late or force_stuck):
                which = rng.choice(["spin", "spin_tick", "nap", "nap", "swallow", "late", "late", "late",
                                    "stuck_in", "stuck_eq", "stuck_bool"])
                if force_late:
                    which, want_late = "late", False
                elif force_stuck:
                    which, want_stuck = rng.choice(["stuck_in", "stuck_eq", "stuck_bool"]), False
                a = rng.randint(-3, 6)
                if which == "late":
                    # a LATE FINISHER: terminates, but its tail after the last thread check (observer
                    # rendering the bound value / after-test-case observer) outlasts the time bound
                    k += 1
                    where = rng.choice(["obs", "obs", "post", "mid"])
                    rel = rng.choice(["stop", "stop", "stop", "poke", "timer"])
                    stmts = [f"late_post({k}, {a})" if where == "post" else f"late({k}, {a})"]
                    if where == "mid":      # slow observer of a statement that is NOT the last one
                        stmts.append(f"work({rng.randint(-3, 6)})")
                    elif rng.random() < 0.3:
                        stmts.insert(0, f"work({rng.randint(-3, 6)})")
                    if rel == "timer":
                        if maxT >= 1:   # wakes in the middle of the grace period: margin maxT/2 both ways
                            gates[str(k)] = ["timer", min(maxT, per * len(stmts)) + maxT / 2]
                        else:
                            rel = "stop"
                    if rel == "poke":
                        parked.append(k)
                    if rel != "timer":
                        gates[str(k)] = rel
                    tests.append({"stmts": stmts, "loops": False, "late": f"{where}/{rel}"})
                    loops += 1
                    continue
                if which in ("nap", "swallow", "stuck_eq", "stuck_bool"):
                    # parked in uninstrumented code (stuck_*: INSIDE the tracer's evaluation of a branch
                    # condition) until a later test case pokes it or the history ends
                    k += 1
                    if which in ("nap", "swallow") or rng.random() < 0.5:
                        parked.append(k)
                    stmts = [f"{which}({k}, {a})"]
                else:
                    stmts = [f"{which}({a})"]
                if rng.random() < 0.3:
                    stmts.insert(0, f"work({rng.randint(-3, 6)})")
                tests.append({"stmts": stmts, "loops": True})
                loops += 1
            else:
                stmts = []
                for _ in range(rng.randint(1, 3)):
                    r = rng.random()
                    if parked and r < 0.45:
                        kk = parked.pop(rng.randrange(len(parked)))
                        stmts.append(f"relay({kk}, {rng.randint(-3, 6)})")
                    elif r < 0.55:
                        stmts.append(f"boom({rng.randint(0, 5)})")
                    else:
                        stmts.append(f"work({rng.randint(-3, 6)})")
                tests.append({"stmts": stmts, "loops": False})
        return {"kind": "hist", "metrics": metrics, "maxT": maxT, "perStmt": per, "gates": gates,
                "tests": tests}

    def gen_case(self, rng):
        self._gen_i += 1
        if self._gen_i % self.hist_every == self.hist_every // 2:
            return self._gen_hist(rng)
        return self._gen_sched_exec(rng) if rng.random() < 0.65 else self._gen_sched_free(rng)

    # -- implementation -------------------------------------------------------------------------
    def _child_proc(self):
        if self._child is None or self._child.poll() is not None:
            import tempfile
            env = dict(os.environ)
            env["VERIF_REPO"] = str(vcommon.REPO)
            # the child's scratch directory is owned (and removed) by the parent: a killed child cannot
            env["C32_BASE"] = tempfile.mkdtemp(prefix="verif-c32-")
            self._bases.append(env["C32_BASE"])
            self._child = subprocess.Popen(
                [vcommon.PY, os.path.abspath(__file__), "--hist-worker"], stdin=subprocess.PIPE,
                stdout=subprocess.PIPE, stderr=subprocess.DEVNULL, text=True, env=env,
                cwd=str(vcommon.ROOT / "harness"))
            atexit.register(self._kill_child)
        return self._child

    def _run_hist(self, case):
        tests = case["tests"]
        bound = sum(min(case["maxT"], case["perStmt"] * len(t["stmts"])) + case["maxT"] for t in tests)
        limit = bound + HANG_CAP + 240  # solos, import, thread wind-down on a loaded machine
        p = self._child_proc()
        p.stdin.write(json.dumps({k: v for k, v in case.items() if k != "recorded"}) + "\n")
        p.stdin.flush()
        end = time.monotonic() + limit
        line = ""
        while time.monotonic() < end:
            r, _, _ = select.select([p.stdout], [], [], 1.0)
            if r:
                line = p.stdout.readline()
                break
            if p.poll() is not None:
                break
        if not line:
            p.kill()
            self._child = None
            raise RuntimeError(f"history worker died or gave no answer within {limit:.0f} s")
        ans = json.loads(line)
        if ans.get("error"):
            self._child = None
            raise RuntimeError(f"history worker failed: {ans['error']}\n{ans.get('tb', '')}")
        if ans.get("hang") or ans.get("undead"):
            self._child = None  # it exits by itself
        return ans

    def impl(self, case):
        if case["kind"] == "sched":
            self.count(f"sched:{case['shape']}")
            self.count("sched:events", len(case["evs"]))
            return run_schedule(case)
        if self._hung:
            # the executor hangs on this tree (reported once, with its input): every further history
            # with an abandoned execution would cost the full hang cap again
            self.count("hist:skipped-after-hang")
            case["recorded"] = {}
            return {"skipped": True}
        ans = self._run_hist(case)
        case["recorded"] = {k: ans.get(k) for k in ("n", "hist", "execs", "raised", "truncated", "pre",
                                                    "fine", "fine_raised", "stuck")}
        self.count("hist")
        ec = self.extra_coverage
        ec["hist_cases"] += 1
        ec["hist_tests"] += len(case["tests"])
        ec["hist_abandoned"] += sum(1 for t in case["tests"] if t["loops"])
        ec["hist_recorded_events"] += len(ans.get("hist") or [])
        ec["hist_late_finishers"] += sum(1 for t in case["tests"] if t.get("late"))
        ec["hist_late_puts"] += ans.get("late_puts") or 0
        for t in case["tests"]:
            if t.get("late"):
                self.count("hist:late:" + t["late"])
        for t in case["tests"]:
            for s in t["stmts"]:
                self.count("hist:call:" + s.split("(")[0])
        ec["hist_stuck_inside_tracer_call"] += len(ans.get("stuck") or [])
        ec["hist_fine_events"] += len(ans.get("fine") or [])
        if ans.get("hang"):
            self._hung = True
        return {k: ans.get(k) for k in ("results", "solo", "hang", "undead", "notes", "zombies",
                                        "undead_hard", "stuck")}

    def _kill_child(self):
        import shutil
        try:
            if self._child is not None and self._child.poll() is None:
                self._child.kill()
                self._child.wait(10)
        except Exception:  # noqa: BLE001
            pass
        for b in self._bases:
            shutil.rmtree(b, ignore_errors=True)

    # -- model ----------------------------------------------------------------------------------
    def model_line(self, case):
        if case["kind"] == "sched":
            return vcommon.jdump({"n": case["n"], "execs": [], "hist": [], "fine": [],
                                  "evs": [{"tid": t, "op": op_of(o)} for t, o in case["evs"]]})
        rec = case.get("recorded") or {}
        if not rec.get("hist"):
            return None

        def hev(e):
            if e[0] == "call":
                return {"call": {"e": {"tid": e[1], "op": op_of(e[2])}}}
            if e[0] == "put":
                return {"put": {"k": e[1], "t": e[2], "exc": e[3]}}
            return {"collect": {"k": e[1], "alive": bool(e[2])}}

        def fev(e):
            t, o = e
            if o == "cbBegin":
                return {"tid": t, "op": "cbBegin"}
            if o[0] == "plain":
                return {"tid": t, "op": {"plain": {"op": op_of(o[1])}}}
            return {"tid": t, "op": {"cbEnd": {"c": op_of(o[1])["cb"]["c"]}}}

        return vcommon.jdump({"n": rec["n"], "evs": [], "hist": [hev(e) for e in rec["hist"]],
                              "fine": [fev(e) for e in rec["fine"]],
                              "execs": [{"k": e["k"], "tid": e["tid"]} for e in rec["execs"]
                                        if e["tid"] >= 0]})

    def compare(self, case, io, mo):
        if "raised" not in mo:
            return False
        if case["kind"] == "sched":
            return (mo["raised"] == io["raised"] and mo["current"] == io["current"]
                    and norm_model_trace(mo["imp"]) == io["imp"]
                    and [{"enabled": l["enabled"], "trace": norm_model_trace(l["trace"])}
                         for l in mo["locals"]] == io["locals"])
        rec = case["recorded"]
        if io.get("skipped"):
            return True
        if mo.get("sharedDiffers"):
            self.extra_coverage["hist_shared_queue_would_differ"] += 1
        if mo["raised"] != rec["raised"]:
            return False
        # the same history at the finer grain (guard and write of a callback as two steps, threads stuck
        # inside a tracer call): runs without anybody waiting, same raised flags, same final tracer state
        # as the coarse history, and exactly the recorded threads are still inside a call
        fi = mo.get("fine") or {}
        if (fi.get("ran") is not True or fi.get("sameAsCoarse") is not True
                or fi.get("raised") != rec["fine_raised"] or fi.get("inside") != rec["stuck"]):
            return False
        if fi.get("lockBlocks"):
            self.extra_coverage["hist_update_lock_would_block"] += 1
        by_k = {e["k"]: e for e in mo["execs"]}
        for ex, res in zip(rec["execs"], io["results"]):
            if ex["tid"] < 0:           # the test thread never reached the tracer before the timeout
                if not res["timeout"]:
                    return False
                continue
            m = by_k[ex["k"]]
            if not m["collected"]:
                return False
            if ex["tid"] in rec["truncated"]:
                if not res["timeout"]:
                    return False
                continue
            if res["timeout"]:
                if m["result"] != "timeout":
                    return False
            else:
                # a returned result: produced by this very execution's thread, trace and exceptions as
                # in the model, the thread's calls have the modelled executor shape and the model's
                # solo trace equals the returned one
                r = m["result"]
                if (r == "timeout" or r["producer"] != ex["k"]
                        or norm_model_trace(r["trace"]) != res["trace"]
                        or r["exc"] != exc_ids(res["exceptions"])):
                    return False
                if m["form"].get("shape") != "exec" or m["form"].get("soloEq") is not True:
                    return False
        return True

    # -- property oracle on the implementation ----------------------------------------------------
    def oracle(self, case, io):
        fs = []
        if case["kind"] == "sched":
            if io["interference"]:
                x = io["interference"][0]
                fs.append(Failure({"kind": "sched", "class": "cross-thread-write"},
                                  f"tracer call #{x['event']} made by thread {x['by']} changed the "
                                  f"thread-local flag/trace of thread {x['victim']}", detail=x))
            imp_items = set().union(*[items(t) for t in io["imps"]])
            for t in range(case["n"]):
                own = set()
                for u, o in case["evs"]:
                    if u == t and not isinstance(o, str):
                        own |= cb_items(op_of(o)["cb"]["c"])
                extra = items(io["locals"][t]["trace"]) - own - imp_items
                if extra:
                    fs.append(Failure({"kind": "sched", "class": "foreign-items-in-trace"},
                                      f"the trace of thread {t} contains {sorted(extra)[:4]}, which "
                                      f"neither thread {t} issued nor any import trace contains",
                                      detail={"thread": t, "extra": sorted(extra)}))
            return fs
        # ---- histories ---------------------------------------------------------------------------
        if io.get("skipped"):
            return fs
        if io.get("hang"):
            h = io["hang"]
            fs.append(Failure({"kind": "hist", "class": "no-timeout-reported"},
                              f"TestCaseExecutor.execute did not return for test #{h['test']} "
                              f"({case['tests'][h['test']]['stmts']}) within the configured bound "
                              f"+ {HANG_CAP:.0f} s (threads inside a tracer call at that moment: "
                              f"{h.get('threads_inside_a_tracer_call')})", detail=h))
            return fs
        ec = self.extra_coverage
        for z in (io.get("zombies") or [])[:1]:
            t = case["tests"][z["test"]]
            fs.append(Failure({"kind": "hist", "class": "abandoned-execution-still-recording"},
                              f"test #{z['test']} {t['stmts']} was abandoned (execute() called "
                              f"tracer.stop() and reported a timeout), but {z['accepted_after_stop']} "
                              f"later tracer callback(s) of its thread (first: {z['first']}) still passed "
                              f"the thread guard, "
                              + (f"up to the time test #{z['during_later_test']} was executed"
                                 if z["during_later_test"] != z["test"] else "after the timeout was decided")
                              + f": the abandoned execution is not dead, it keeps executing the "
                              f"module under test next to the test cases executed afterwards",
                              detail=z))
        if io.get("undead_hard"):
            fs.append(Failure({"kind": "hist", "class": "abandoned-execution-still-running"},
                              f"threads {io['undead_hard']} of abandoned executions are still running "
                              f"{20 + UNDEAD_CAP:.0f} s after the end of the history (everything they "
                              f"could wait for was released): they never reach a thread guard that stops "
                              f"them", detail={"threads": io["undead_hard"]}))
        for i, (t, res) in enumerate(zip(case["tests"], io["results"])):
            bound = min(case["maxT"], case["perStmt"] * len(t["stmts"])) + case["maxT"]
            if res["elapsed"] > bound + 2.0:
                ec["hist_slow"] += 1   # measured only: load is not a violation
            if t["loops"]:
                if not res["timeout"]:
                    fs.append(Failure({"kind": "hist", "class": "loop-not-reported-as-timeout"},
                                      f"test #{i} {t['stmts']} never terminates but execute() returned "
                                      f"a result with timeout=False", detail={"test": i, "result": res}))
                continue
            solo = io["solo"].get(json.dumps(t["stmts"]))
            if res["timeout"]:
                # a late finisher is abandoned by design; any other terminating test case reported as
                # timeout lost its result (stale __exit__ of a dying abandoned thread): not an addition
                ec["hist_late_abandoned" if t.get("late") else "hist_later_results_lost"] += 1
                continue
            if solo is None:
                self.count("hist:solo-unavailable")
                continue
            extra = items(res["trace"]) - items(solo["trace"])
            counts = dict(map(tuple, solo["trace"]["preds"]))
            over = [[p, c] for p, c in res["trace"]["preds"] if c > counts.get(p, 0)]
            exc = [e for e in res["exceptions"] if e not in solo["exceptions"]]
            if extra or over or exc:
                before = [tt["stmts"] for tt in case["tests"][:i] if tt["loops"] or tt.get("late")]
                fs.append(Failure({"kind": "hist", "class": "later-result-polluted"},
                                  f"test #{i} {t['stmts']} executed after the abandoned executions "
                                  f"{before} reports items {sorted(extra)[:5]} / predicate counts {over[:3]} "
                                  f"/ exceptions {exc} that it does not produce when executed alone",
                                  detail={"test": i, "extra": sorted(extra), "over": over,
                                          "exceptions": exc, "result": res, "solo": solo}))
        return fs

    def classify(self, case, io):
        if case["kind"] == "hist":
            if io.get("skipped"):
                return None
            seen_loop = False
            for t in case["tests"]:
                if t["loops"] or t.get("late"):
                    seen_loop = True
                elif seen_loop:
                    return vcommon.jdump({k: v for k, v in case.items() if k != "recorded"})
            return None
        r = io["raised"]
        first = next((i for i, x in enumerate(r) if x), None)
        if first is None:
            return None
        later_write = any(not isinstance(o, str) and not r[i] and t != case["evs"][first][0]
                          for i, (t, o) in enumerate(case["evs"]) if i > first)
        return vcommon.jdump(case) if later_write else None


if __name__ == "__main__":
    if "--hist-worker" in sys.argv:
        worker_main()
    else:
        run_main(C32)
