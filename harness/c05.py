"""C05 — tracing keeps recording after an exception inside traced code (DESIGN §5 C05).

Correspondence: random nested scripts (tracer callbacks whose operands make the comparison raise,
`with temporarily_disable()/temporarily_enable()` blocks, SUT-style `try/except`, plain raises) are
interpreted on the real `ExecutionTracer` and by the Lean model (`Driver/C05.lean`); the triples
`(is_disabled, covered line ids, executed predicates)` are compared after every step.
Oracle: a flag-free reference interpreter written here (what is recorded depends only on the lexical
with-context) plus "flag at the end == flag at the start".
End-to-end: generated modules that catch an exception raised from a traced comparison are executed by
the real `TestCaseExecutor`; the lines after the handler must be covered.

The variant (`repaired` = `try/finally` in `temporarily_disable`, `legacy` = before the fix) is read
off the source of the tree under test, so that the model/implementation comparison stays meaningful
on both trees; the property oracle does not depend on it.
"""
from __future__ import annotations

import importlib
import inspect
import os
import shutil
import sys
import tempfile
import textwrap
import threading

import vcommon
from vcommon import Failure, PropertyCheck, run_main


# ---- operands whose comparison / truth value raises ---------------------------------------------
class _Unorderable:
    pass


class _RaisingEq:
    __hash__ = None

    def __eq__(self, other):
        raise ValueError("eq")


class _RaisingOrder:
    def __lt__(self, other):
        raise ZeroDivisionError("lt")

    __le__ = __gt__ = __ge__ = __lt__


class _RaisingBool:
    def __bool__(self):
        raise KeyError("bool")


class _RaisingContains:
    def __contains__(self, item):
        raise ValueError("contains")

    def __iter__(self):
        return iter(())


def _snap(tracer):
    t = tracer.get_trace()
    return {"disabled": tracer.is_disabled(), "lines": list(t.covered_line_ids),
            "preds": [[p, c] for p, c in t.executed_predicates.items()]}


class _Raise(Exception):
    pass


class C05(PropertyCheck):
    prop_id = "C05"
    prop_modules = ["PynguinModel.Props.C05"]
    extra_modules = ["PynguinModel.Model.TracerState"]
    driver = "Driver/C05.lean"
    n_quick = 2000
    n_thorough = 100000
    n_search = 20000
    rule = ("random nested scripts of ≤ 30 events (line/predicate callbacks, raising operands, "
            "with temporarily_disable/enable, try/except, raise), depth ≤ 3; non-trivial = a script in "
            "which a callback raises while tracing is enabled and at least one callback follows")
    assumptions = ["one thread (thread-locality of the flag and TracingAbortedException are C32)",
                   "exceptions raised by operands derive from Exception"]
    trusted_base_extra = ["the script interpreter of harness/c05.py (maps events to real tracer calls)"]

    # -- generation ---------------------------------------------------------------------------
    def _block(self, rng, depth, budget):
        evs = []
        n = rng.randint(0, min(6, budget[0])) if depth else rng.randint(1, 12)
        for _ in range(n):
            if budget[0] <= 0:
                break
            budget[0] -= 1
            k = rng.random()
            if k < 0.30:
                evs.append({"line": {"l": rng.randint(0, 9)}})
            elif k < 0.62:
                evs.append({"pred": {"p": rng.randint(0, 15), "raises": rng.random() < 0.45}})
            elif k < 0.66:
                evs.append("raise")
            elif depth < 3:
                kind = rng.choice(["tryExcept", "tryExcept", "withDisabled", "withEnabled"])
                evs.append({kind: {"body": self._block(rng, depth + 1, budget)}})
            else:
                evs.append({"line": {"l": rng.randint(0, 9)}})
        return evs

    def gen_case(self, rng):
        shape = rng.random()
        if shape < 0.25:  # the executor's shape: statements bracketed by observers
            evs = []
            for _ in range(rng.randint(1, 4)):
                budget = [8]
                evs += [{"withDisabled": {"body": self._block(rng, 2, budget)}},
                        {"tryExcept": {"body": self._block(rng, 1, [10])}},
                        {"withDisabled": {"body": self._block(rng, 2, budget)}}]
        elif shape < 0.45:  # flat script, every callback caught by the SUT
            evs = [{"tryExcept": {"body": [e]}} for e in self._block(rng, 3, [30])]
        else:
            evs = self._block(rng, 0, [30])
        return {"enabled": rng.random() < 0.9, "evs": evs}

    # -- implementation adapter -----------------------------------------------------------------
    def _variant(self):
        from pynguin.instrumentation.tracer import AbstractExecutionTracer
        src = inspect.getsource(AbstractExecutionTracer.temporarily_disable)
        return "repaired" if "finally" in src else "legacy"

    def _call_pred(self, tracer, p, raises):
        from pynguin.instrumentation import PynguinCompare as PC
        kind, flavour = p % 4, (p // 4) % 3
        if raises and kind == 2:
            kind = 0  # exception matching itself has no operand-dependent way to raise
        self.count(f"pred:{'raising' if raises else 'ok'}:{kind}")
        if kind == 0:
            if raises:
                a, b, op = [(_Unorderable(), 3, PC.LT), (_RaisingEq(), 1, PC.EQ),
                            (1, _RaisingOrder(), PC.GE)][flavour]
            else:
                a, b, op = [(3, 5, PC.LT), ("a", "b", PC.EQ), (1, [1, 2], PC.IN)][flavour]
            tracer.executed_compare_predicate(a, b, p, op)
        elif kind == 1:
            v = _RaisingBool() if raises else [5, "", [0]][flavour]
            tracer.executed_bool_predicate(v, p)
        elif kind == 2:
            err, exc = [(ValueError("x"), Exception), (KeyError, ValueError),
                        (OSError("x"), (KeyError, OSError))][flavour]
            tracer.executed_exception_match(err, exc, p)
        else:
            if raises:
                tracer.executed_in_presence_predicate(1, _RaisingContains(), p)
            else:
                tracer.executed_in_presence_predicate(1, [[1], [2], (1, 3)][flavour], p)

    def _run(self, tracer, evs, log):
        for e in evs:
            self._exec(tracer, e, log)

    def _exec(self, tracer, e, log):
        if e == "raise":
            raise _Raise()
        (k, v), = e.items()
        if k == "line":
            tracer.track_line_visit(v["l"])
            log.append(_snap(tracer))
        elif k == "pred":
            try:
                self._call_pred(tracer, v["p"], v["raises"])
            finally:
                log.append(_snap(tracer))
        elif k == "withDisabled":
            was_disabled = tracer.is_disabled()
            try:
                with tracer.temporarily_disable():
                    self._run(tracer, v["body"], log)
            finally:
                if not was_disabled:
                    log.append(_snap(tracer))
        elif k == "withEnabled":
            was_disabled = tracer.is_disabled()
            try:
                with tracer.temporarily_enable():
                    self._run(tracer, v["body"], log)
            finally:
                if was_disabled:
                    log.append(_snap(tracer))
        elif k == "tryExcept":
            try:
                self._run(tracer, v["body"], log)
            except Exception:  # noqa: BLE001 - the SUT's handler / the executor's exec wrapper
                pass
        else:
            raise AssertionError(k)

    def impl(self, case):
        from pynguin.instrumentation.tracer import ExecutionTracer
        tracer = ExecutionTracer()
        tracer._current_thread_identifier = threading.current_thread().ident  # as __enter__ does
        if not case["enabled"]:
            tracer.disable()
        log, raised = [], False
        try:
            self._run(tracer, case["evs"], log)
        except Exception:  # noqa: BLE001
            raised = True
        return {"log": log, "final": _snap(tracer), "raised": raised, "variant": self._variant()}

    # -- model side ----------------------------------------------------------------------------
    def model_line(self, case):
        return vcommon.jdump({"variant": self._variant(), "enabled": case["enabled"],
                              "evs": case["evs"]})

    def compare(self, case, io, mo):
        return (mo.get("log") == io["log"] and mo.get("final") == io["final"]
                and mo.get("raised") == io["raised"])

    # -- property oracle on the implementation (flag-free reference interpreter) -----------------
    @classmethod
    def _ref(cls, ctx, lines, preds, evs):
        """Returns True iff an exception propagates. What is recorded depends only on `ctx`."""
        for e in evs:
            if e == "raise":
                return True
            (k, v), = e.items()
            if k == "line":
                if ctx and v["l"] not in lines:
                    lines.append(v["l"])
            elif k == "pred":
                if ctx:
                    if v["raises"]:
                        return True
                    preds[v["p"]] = preds.get(v["p"], 0) + 1
            elif k == "withDisabled":
                if cls._ref(False, lines, preds, v["body"]):
                    return True
            elif k == "withEnabled":
                if cls._ref(True, lines, preds, v["body"]):
                    return True
            elif k == "tryExcept":
                cls._ref(ctx, lines, preds, v["body"])
        return False

    def oracle(self, case, io):
        fs = []
        lines, preds = [], {}
        self._ref(case["enabled"], lines, preds, case["evs"])
        fin = io["final"]
        if fin["disabled"] != (not case["enabled"]):
            fs.append(Failure({"class": "enabled-flag-not-restored"},
                              "the tracer's enabled flag after the script differs from the flag "
                              "before it (an exception inside a `with temporarily_disable()` body "
                              "skipped enable())", detail={"final": fin}))
        if sorted(fin["lines"]) != sorted(lines) or dict(map(tuple, fin["preds"])) != preds:
            fs.append(Failure({"class": "events-lost-after-exception"},
                              "lines/predicates executed after a caught exception are missing from "
                              "the trace", detail={"final": fin, "expected_lines": lines,
                                                   "expected_preds": preds}))
        return fs

    def classify(self, case, io):
        # non-trivial: some callback raised while tracing was on, and something was recorded later
        seen_raise = False
        flat = []

        def walk(evs, ctx):
            for e in evs:
                if e == "raise":
                    flat.append(("raise", ctx))
                    continue
                (k, v), = e.items()
                if k in ("line", "pred"):
                    flat.append((k, ctx, v.get("raises", False)))
                elif k == "withDisabled":
                    walk(v["body"], False)
                elif k == "withEnabled":
                    walk(v["body"], True)
                else:
                    walk(v["body"], ctx)

        walk(case["evs"], case["enabled"])
        for j, f in enumerate(flat):
            if f[0] == "pred" and f[1] and f[2]:
                seen_raise = j < len(flat) - 1
                break
        return vcommon.jdump(case) if seen_raise else None

    # -- witness replay -------------------------------------------------------------------------
    WITNESS = {"enabled": True,
               "evs": [{"tryExcept": {"body": [{"pred": {"p": 0, "raises": True}}]}},
                       {"line": {"l": 7}}]}

    def witnesses(self):
        io = self.impl(self.WITNESS)
        fs = self.oracle(self.WITNESS, io)
        for f in fs:
            f.case = self.WITNESS
            f.what = ("witness of C05_legacy_cex: executed_compare_predicate(<unorderable>, 3, LT) "
                      "raises TypeError, the SUT catches it, track_line_visit(7) is then ignored: "
                      + f.what)
        self.extra_coverage["witness_C05_legacy_cex_reproduces"] = bool(fs)
        return fs

    # -- end-to-end: real instrumentation + TestCaseExecutor --------------------------------------
    SUT_TEMPLATE = '''
    class U:
        pass


    class BadEq:
        def __eq__(self, other):
            raise ValueError("eq")


    class BadBool:
        def __bool__(self):
            raise KeyError("bool")


    def probe(kind, x):
        if kind == 0:
            if U() < x:
                return 1
        elif kind == 1:
            if BadEq() == x:
                return 1
        elif kind == 2:
            if BadBool():
                return 1
        elif kind == 3:
            if x in 5:
                return 1
        else:
            return x.missing_attribute
        return 0


    def guarded(kind, x):
        try:
            return probe(kind, x)
        except (TypeError, ValueError, KeyError, AttributeError):
            return -1


    def after(x):
        r = 5  # AFTER
        if x == 3:
            r += 10  # AFTER3
        else:
            r -= 1  # AFTERN
        return r  # AFTER


    def f(kind, x):
        a = guarded(kind, x)
        b = after(x)  # AFTER
        return a + b  # AFTER
    '''

    def extra_checks(self):
        import libcst as cst
        import pynguin.configuration as config
        import pynguin.testcase.testcase as tc
        from pynguin.instrumentation.machinery import install_import_hook
        from pynguin.instrumentation.tracer import SubjectProperties
        from pynguin.testcase.execution import TestCaseExecutor

        fs = []
        src = textwrap.dedent(self.SUT_TEMPLATE)
        tagged = {}
        for i, line in enumerate(src.splitlines(), 1):
            if "# AFTER" in line:
                tagged[i] = line.split("# ")[1].strip()
        d = tempfile.mkdtemp(prefix="verif-c05-")
        name = f"sutc05_{self.seed}_{os.getpid()}"
        saved_cfg = (config.configuration.module_name, config.configuration.project_path,
                     list(config.configuration.statistics_output.coverage_metrics))
        try:
            with open(os.path.join(d, name + ".py"), "w") as f:
                f.write(src)
            sys.path.insert(0, d)
            config.configuration.module_name = name
            config.configuration.project_path = d
            config.configuration.statistics_output.coverage_metrics = [
                config.CoverageMetric.BRANCH, config.CoverageMetric.LINE]
            sp = SubjectProperties()
            try:
                with install_import_hook(name, sp):
                    with sp.instrumentation_tracer:
                        mod = importlib.import_module(name)
                        importlib.reload(mod)
                    executor = TestCaseExecutor(sp, maximum_test_execution_timeout=60,
                                                test_execution_time_per_statement=30)
                    runs = 0
                    for kind in range(5):
                        for x in (3, 4):
                            test = tc.TestCase()
                            for j, code in enumerate([f"var_0 = f({kind}, {x})",
                                                      f"var_1 = after({x})"]):
                                node = cst.parse_module(code + "\n").body[0]
                                test.add_statement(tc.Statement(node=node, bound_variable=f"var_{j}",
                                                                bound_type=None))
                            res = executor.execute(test)
                            if res.timeout:  # loaded machine: not an observation of this property
                                self.count("e2e:timeout")
                                continue
                            runs += 1
                            covered = set(sp.lineids_to_linenos(res.execution_trace.covered_line_ids))
                            want = {ln for ln, tag in tagged.items()
                                    if tag == "AFTER" or tag == ("AFTER3" if x == 3 else "AFTERN")}
                            missing = sorted(want - covered)
                            self.count("e2e:run")
                            if res.has_test_exceptions() or missing or \
                                    not res.execution_trace.executed_predicates:
                                fs.append(Failure(
                                    {"class": "e2e-lines-lost-after-caught-exception"},
                                    f"TestCaseExecutor on a module whose function catches the exception "
                                    f"of a traced comparison (kind={kind}, x={x}): lines {missing} executed "
                                    f"after the handler are not covered",
                                    case={"e2e": True, "kind": kind, "x": x},
                                    detail={"covered": sorted(covered), "missing": missing,
                                            "exceptions": res.has_test_exceptions()}))
                                break
                        else:
                            continue
                        break
                    self.extra_coverage["e2e_executions"] = runs
            except RuntimeError as e:
                if "stacksize" in str(e):  # instrumentation defect D24 (C01/C03), not this property
                    self.notes.append(f"e2e skipped: instrumentation failed ({e})")
                    self.extra_coverage["e2e_skipped"] = str(e)
                else:
                    raise
        finally:
            (config.configuration.module_name, config.configuration.project_path,
             config.configuration.statistics_output.coverage_metrics) = saved_cfg
            if d in sys.path:
                sys.path.remove(d)
            sys.modules.pop(name, None)
            shutil.rmtree(d, ignore_errors=True)
        return fs


if __name__ == "__main__":
    run_main(C05)
