"""C05 — tracing keeps recording after an exception inside traced code (DESIGN §5 C05).

Correspondence: random nested scripts are interpreted on the real `ExecutionTracer` and by the Lean
model (`Driver/C05.lean`); the tuples `(is_disabled, covered line ids, executed predicates, executed
instructions, executed code objects)` are compared after every step.  A script consists of
  * every callback instrumented code makes: line, code object, the four predicate callbacks, the
    checked-coverage callbacks (generic / memory / jump / call / return / attribute access);
  * predicate callbacks whose operands run code of their own (`__lt__`, `__eq__`, `__bool__`,
    `__contains__` of the module under test — a nested script, run by the tracer inside
    `with temporarily_disable()`) and raise — an `Exception` or a bare `BaseException`
    (`SystemExit`, `KeyboardInterrupt`, `GeneratorExit`);
  * attribute-access callbacks whose lookup runs code (property getter, `__getattr__`, descriptor — a
    nested script, run by the tracer with the flag as it is) and raises;
  * `with temporarily_disable()/temporarily_enable()` blocks, SUT-style `try/except Exception` and
    `try/except BaseException`, plain raises.
Oracle: a flag-free reference interpreter written here (what is recorded depends only on the lexical
with-context) plus "flag after every top-level event == flag at the start".  Code that the tracer runs
for its own evaluation of operands / attributes is not "executed by the test case": the property does
not say whether it is recorded, so such code uses ids ≥ 100 and the oracle ignores those ids (the
model comparison does not).
End-to-end: a generated module whose functions catch what a traced comparison / truth test /
membership test / attribute load raises (Exception and BaseException kinds) is executed by the real
`TestCaseExecutor` under BRANCH+LINE and under BRANCH+LINE+CHECKED instrumentation; everything executed
after the handler (lines, the later predicate with its exact count, checked instructions) must be
recorded.

The variant (`repaired` = `try/finally` in `temporarily_disable`, `legacy` = no `finally`) is read
off the source of the tree under test; the property oracle does not depend on it.
"""
from __future__ import annotations

import dis
import importlib
import inspect
import os
import shutil
import sys
import tempfile
import textwrap
import threading
import zlib

import vcommon
from vcommon import Failure, PropertyCheck, run_main

INNER = 100  # ids >= INNER: code run by the tracer's own operand / attribute evaluation


# ---- operands whose comparison / truth value raises by itself -------------------------------------
class _Unorderable:
    pass


class _RaisingEq:
    __hash__ = None

    def __eq__(self, other):
        raise ValueError("eq")


class _RaisingOrder:
    def __lt__(self, other):
        raise ZeroDivisionError("lt")

    __le__ = __gt__ = __ge__ = __lt__


class _RaisingBool:
    def __bool__(self):
        raise KeyError("bool")


class _RaisingContains:
    def __contains__(self, item):
        raise ValueError("contains")

    def __iter__(self):
        return iter(())


class _ScriptOperand:
    """An object of the module under test whose operators run (instrumented) code: `thunk`, once."""

    __hash__ = None

    def __init__(self, thunk, result):
        self._thunk, self._result, self._done = thunk, result, False

    def _go(self, *_):
        if not self._done:
            self._done = True
            try:
                self._thunk()
            except TypeError as e:
                # `_in` (membership distance) reads a TypeError of `__contains__` as "not a container"
                # and goes on; whether such a predicate counts is not C05's business: keep the
                # operators of this object free of TypeError
                exc = _Raise("TypeError in operand code")
                exc._c05 = True
                raise exc from e
        return self._result

    __lt__ = __le__ = __gt__ = __ge__ = __eq__ = __ne__ = __contains__ = _go

    def __bool__(self):
        return self._go()

    def __iter__(self):
        return iter(())


class _Plain:
    klass_attr = (1, 2)

    def __init__(self):
        self.inst_attr = [1]

    def method(self):
        return 0


class _Slotted:
    __slots__ = ("slot_attr",)

    def __init__(self):
        self.slot_attr = "s"


def _script_attr_object(flavour, thunk):
    """An object whose attribute `value` is computed by code of the module under test (`thunk`)."""
    state = {"done": False}

    def go():
        if not state["done"]:
            state["done"] = True
            thunk()
        return 7

    if flavour == 0:
        cls = type("LazyProperty", (), {"value": property(lambda self: go())})
    elif flavour == 1:
        def __getattr__(self, name):
            if name == "value":
                return go()
            raise AttributeError(name)
        cls = type("Dynamic", (), {"__getattr__": __getattr__})
    else:
        class Descriptor:
            def __get__(self, inst, owner):
                return go()
        cls = type("WithDescriptor", (), {"value": Descriptor()})
    return cls()


class _Raise(Exception):
    pass


class _BaseRaise(BaseException):
    pass


_EXC = {"exception": [_Raise, lambda: ValueError("c05"), lambda: AttributeError("c05"), StopIteration,
                      lambda: OSError("c05")],
        "base": [lambda: SystemExit(3), KeyboardInterrupt, GeneratorExit, _BaseRaise]}
_OP = dis.opmap
_FILE = "c05_script.py"


def _ours_or_reraise(e):
    """`except BaseException` of the interpreted script: never swallow a foreign interrupt."""
    if isinstance(e, Exception) or getattr(e, "_c05", False):
        return
    raise e


def _snap(tracer):
    t = tracer.get_trace()
    return {"disabled": tracer.is_disabled(), "lines": list(t.covered_line_ids),
            "preds": [[p, c] for p, c in t.executed_predicates.items()],
            "instrs": [i.node_id for i in t.executed_instructions],
            "codeObjs": list(t.executed_code_objects)}


def _is_raise_only(body, kind):
    return body == [{"raise": {"e": kind}}]


class C05(PropertyCheck):
    prop_id = "C05"
    prop_modules = ["PynguinModel.Props.C05"]
    extra_modules = ["PynguinModel.Model.TracerState"]
    driver = "Driver/C05.lean"
    n_quick = 1600
    n_thorough = 60000
    n_search = 20000
    rule = ("random nested scripts of ≤ 30 events (line / code-object / predicate / checked-coverage "
            "callbacks, operand and attribute-lookup code that raises Exception or BaseException kinds, "
            "with temporarily_disable/enable, try/except Exception|BaseException, raise), depth ≤ 3; "
            "non-trivial = a script in which a predicate or attribute callback raises while tracing is "
            "enabled and at least one test-case-level callback is recorded afterwards")
    assumptions = ["one thread (thread-locality of the flag and TracingAbortedException are C32)"]
    trusted_base_extra = ["the script interpreter of harness/c05.py (maps events to real tracer calls)"]

    # -- generation ---------------------------------------------------------------------------
    def _exc(self, rng):
        return "exception" if rng.random() < 0.6 else "base"

    def _inner_body(self, rng, depth, budget):
        k = rng.random()
        if k < 0.45:
            return []
        if k < 0.75:
            return [{"raise": {"e": self._exc(rng)}}]
        body = self._block(rng, max(depth + 1, 2), budget, True) if depth < 3 else []
        if rng.random() < 0.6:
            body.append({"raise": {"e": self._exc(rng)}})
        return body

    def _block(self, rng, depth, budget, inner=False):
        off = INNER if inner else 0
        evs = []
        n = rng.randint(0, min(6, budget[0])) if depth else rng.randint(1, 12)
        for _ in range(n):
            if budget[0] <= 0:
                break
            budget[0] -= 1
            k = rng.random()
            if k < 0.22:
                evs.append({"line": {"l": off + rng.randint(0, 9)}})
            elif k < 0.47:
                evs.append({"pred": {"p": off + rng.randint(0, 23),
                                     "body": self._inner_body(rng, depth, budget)}})
            elif k < 0.58:
                evs.append({"attr": {"i": off + rng.randint(0, 11),
                                     "body": self._inner_body(rng, depth, budget)}})
            elif k < 0.66:
                evs.append({"instr": {"i": off + rng.randint(0, 19)}})
            elif k < 0.69:
                evs.append({"codeObj": {"c": off + rng.randint(0, 4)}})
            elif k < 0.73:
                evs.append({"raise": {"e": self._exc(rng)}})
            elif depth < 3:
                kind = rng.choice(["tryExcept", "tryExcept", "withDisabled", "withEnabled"])
                body = self._block(rng, depth + 1, budget, inner)
                if kind == "tryExcept":
                    evs.append({kind: {"c": "base" if rng.random() < 0.6 else "exception", "body": body}})
                else:
                    evs.append({kind: {"body": body}})
            else:
                evs.append({"line": {"l": off + rng.randint(0, 9)}})
        return evs

    def gen_case(self, rng):
        shape = rng.random()
        if shape < 0.25:  # the executor's shape: statements bracketed by observers
            evs = []
            for _ in range(rng.randint(1, 4)):
                budget = [8]
                evs += [{"withDisabled": {"body": self._block(rng, 2, budget)}},
                        {"tryExcept": {"c": "base", "body": self._block(rng, 1, [10])}},
                        {"withDisabled": {"body": self._block(rng, 2, budget)}}]
        elif shape < 0.5:  # flat script, every callback in a try of the SUT
            evs = [{"tryExcept": {"c": "base" if rng.random() < 0.75 else "exception", "body": [e]}}
                   for e in self._block(rng, 3, [30])]
        else:
            evs = self._block(rng, 0, [30])
        return {"enabled": rng.random() < 0.9, "evs": evs}

    # -- implementation adapter -----------------------------------------------------------------
    def _variant(self):
        from pynguin.instrumentation.tracer import AbstractExecutionTracer
        src = inspect.getsource(AbstractExecutionTracer.temporarily_disable)
        return "repaired" if "finally" in src else "legacy"

    def _call_pred(self, tracer, p, body, log):
        from pynguin.instrumentation import PynguinCompare as PC
        kind, flavour, alt = p % 4, (p // 4) % 3, (p // 12) % 2
        if body and kind == 2:
            kind = 0  # exception matching itself runs no code of the module under test
        natural = _is_raise_only(body, "exception") and alt == 0
        self.count(f"pred:{'plain' if not body else 'natural-raise' if natural else 'script'}:{kind}")
        if body and not natural:
            obj = _ScriptOperand(lambda: self._run(tracer, body, log), bool(flavour % 2) ^ bool(alt))
        if kind == 0:
            if natural:
                a, b, op = [(_Unorderable(), 3, PC.LT), (_RaisingEq(), 1, PC.EQ),
                            (1, _RaisingOrder(), PC.GE)][flavour]
            elif body:
                a, b, op = [(obj, 3, PC.NE if alt else PC.LT), (obj, 1, PC.EQ if alt else PC.GT),
                            (1, obj, PC.NOT_IN if alt else PC.IN)][flavour]
            else:
                a, b, op = [(3, 5, PC.LT), ("a", "b", PC.EQ), (1, [1, 2], PC.IN)][flavour]
            tracer.executed_compare_predicate(a, b, p, op)
        elif kind == 1:
            v = _RaisingBool() if natural else obj if body else [5, "", [0]][flavour]
            tracer.executed_bool_predicate(v, p)
        elif kind == 2:
            err, exc = [(ValueError("x"), Exception), (KeyError, ValueError),
                        (OSError("x"), (KeyError, OSError))][flavour]
            tracer.executed_exception_match(err, exc, p)
        else:
            c = _RaisingContains() if natural else obj if body else [[1], [2], (1, 3)][flavour]
            tracer.executed_in_presence_predicate(1, c, p)

    def _call_attr(self, tracer, i, body, log):
        natural = _is_raise_only(body, "exception") and (i // 6) % 2 == 0
        self.count(f"attr:{'plain' if not body else 'natural-raise' if natural else 'script'}")
        if natural:
            name, obj = "missing_attribute", [_Plain(), _Slotted(), 5][i % 3]
        elif body:
            name, obj = "value", _script_attr_object(i % 3, lambda: self._run(tracer, body, log))
        else:
            name, obj = [("inst_attr", _Plain()), ("klass_attr", _Plain()), ("method", _Plain()),
                         ("append", []), ("slot_attr", _Slotted()), (None, _Plain())][i % 6]
        tracer.track_attribute_access(_FILE, 0, i, _OP["LOAD_ATTR"], 1, 0, name, obj)

    def _call_instr(self, tracer, i):
        k = i % 5
        self.count(f"instr:{k}")
        if k == 0:
            tracer.track_generic(_FILE, 0, i, _OP["NOP"], 1, 0)
        elif k == 1:
            if (i // 5) % 2:
                tracer.track_memory_access(_FILE, 0, i, _OP["STORE_FAST"], 1, 0, ("a", "b"), ([i], 2))
            else:
                tracer.track_memory_access(_FILE, 0, i, _OP["LOAD_FAST"], 1, 0, "x", [i])
        elif k == 2:
            tracer.track_jump(_FILE, 0, i, _OP["POP_JUMP_IF_FALSE"], 1, 0, 3)
        elif k == 3:
            tracer.track_call(_FILE, 0, i, _OP["CALL"], 1, 0, 1)
        else:
            tracer.track_return(_FILE, 0, i, _OP["RETURN_VALUE"], 1, 0)

    def _run(self, tracer, evs, log):
        for e in evs:
            self._exec(tracer, e, log)

    def _exec(self, tracer, e, log):
        (k, v), = e.items()
        if k == "raise":
            self._nraise += 1
            flavours = _EXC[v["e"]]
            exc = flavours[self._nraise % len(flavours)]()
            exc._c05 = True
            self.count(f"raise:{type(exc).__name__}")
            raise exc
        if k == "line":
            tracer.track_line_visit(v["l"])
            log.append(_snap(tracer))
        elif k == "codeObj":
            tracer.executed_code_object(v["c"])
            log.append(_snap(tracer))
        elif k == "instr":
            self._call_instr(tracer, v["i"])
            log.append(_snap(tracer))
        elif k == "pred":
            try:
                self._call_pred(tracer, v["p"], v["body"], log)
            finally:
                log.append(_snap(tracer))
        elif k == "attr":
            try:
                self._call_attr(tracer, v["i"], v["body"], log)
            finally:
                log.append(_snap(tracer))
        elif k == "withDisabled":
            was_disabled = tracer.is_disabled()
            try:
                with tracer.temporarily_disable():
                    self._run(tracer, v["body"], log)
            finally:
                if not was_disabled:
                    log.append(_snap(tracer))
        elif k == "withEnabled":
            was_disabled = tracer.is_disabled()
            try:
                with tracer.temporarily_enable():
                    self._run(tracer, v["body"], log)
            finally:
                if was_disabled:
                    log.append(_snap(tracer))
        elif k == "tryExcept":
            # the SUT's handler / the executor's wrapper around exec
            if v["c"] == "exception":
                try:
                    self._run(tracer, v["body"], log)
                except Exception:  # noqa: BLE001
                    pass
            else:
                try:
                    self._run(tracer, v["body"], log)
                except BaseException as exc:  # noqa: BLE001
                    _ours_or_reraise(exc)
        else:
            raise AssertionError(k)

    def impl(self, case):
        if case.get("e2e"):
            return {"e2e_failures": [[f.signature, f.what, f.detail] for f in
                                     self._e2e(case["metrics"], [case["kind"]], [case["x"]])]}
        from pynguin.instrumentation.tracer import ExecutionTracer
        tracer = ExecutionTracer()
        tracer._current_thread_identifier = threading.current_thread().ident  # as __enter__ does
        if not case["enabled"]:
            tracer.disable()
        log, flags, raised = [], [], None
        self._nraise = zlib.crc32(vcommon.jdump(case).encode())  # which concrete exception class
        try:
            for e in case["evs"]:  # top level: what the executor sees between statements
                try:
                    self._exec(tracer, e, log)
                finally:
                    flags.append(tracer.is_disabled())
        except BaseException as exc:  # noqa: BLE001
            _ours_or_reraise(exc)
            raised = "exception" if isinstance(exc, Exception) else "base"
        return {"log": log, "flags": flags, "final": _snap(tracer), "raised": raised,
                "variant": self._variant()}

    # -- model side ----------------------------------------------------------------------------
    def model_line(self, case):
        if case.get("e2e"):
            return None
        return vcommon.jdump({"variant": self._variant(), "enabled": case["enabled"],
                              "evs": case["evs"]})

    def compare(self, case, io, mo):
        return (mo.get("log") == io["log"] and mo.get("final") == io["final"]
                and mo.get("raised") == io["raised"] and mo.get("flags") == io["flags"])

    # -- property oracle on the implementation (flag-free reference interpreter) -----------------
    @classmethod
    def _ref(cls, ctx, tr, evs, st):
        """Returns the kind of the exception that propagates (or None). What is recorded depends
        only on `ctx`; `st` collects facts for `classify`."""
        for e in evs:
            (k, v), = e.items()
            exc = None
            if k == "raise":
                exc = v["e"]
            elif k == "line":
                if ctx and v["l"] not in tr["lines"]:
                    tr["lines"].append(v["l"])
            elif k == "codeObj":
                if ctx and v["c"] not in tr["codeObjs"]:
                    tr["codeObjs"].append(v["c"])
            elif k == "instr":
                if ctx:
                    tr["instrs"].append(v["i"])
            elif k == "pred":
                if ctx:
                    exc = cls._ref(False, tr, v["body"], st)
                    if exc is None:
                        tr["preds"][v["p"]] = tr["preds"].get(v["p"], 0) + 1
                    else:
                        st["raised_in_callback"] = True
                        st["kinds"].add("pred-" + exc)
            elif k == "attr":
                if ctx:
                    exc = cls._ref(ctx, tr, v["body"], st)
                    if exc is None:
                        tr["instrs"].append(v["i"])
                    else:
                        st["raised_in_callback"] = True
                        st["kinds"].add("attr-" + exc)
            elif k == "withDisabled":
                exc = cls._ref(False, tr, v["body"], st)
            elif k == "withEnabled":
                exc = cls._ref(True, tr, v["body"], st)
            elif k == "tryExcept":
                exc = cls._ref(ctx, tr, v["body"], st)
                if exc is not None and (v["c"] == "base" or exc == "exception"):
                    exc = None
            if ctx and k in ("line", "codeObj", "instr", "pred", "attr") and exc is None \
                    and st.get("raised_in_callback") and cls._outer(e):
                st["recorded_after"] = True
            if exc is not None:
                return exc
        return None

    @staticmethod
    def _outer(e):
        (_, v), = e.items()
        return next(iter(v.values())) < INNER

    @staticmethod
    def _visible(snap):
        """The part of a trace the property speaks about: ids of code executed by the test case."""
        return {"lines": sorted(x for x in snap["lines"] if x < INNER),
                "preds": sorted((p, c) for p, c in map(tuple, snap["preds"]) if p < INNER),
                "instrs": [x for x in snap["instrs"] if x < INNER],
                "codeObjs": sorted(x for x in snap["codeObjs"] if x < INNER)}

    def _expected(self, case):
        tr = {"lines": [], "preds": {}, "instrs": [], "codeObjs": []}
        st = {"kinds": set()}
        self._ref(case["enabled"], tr, case["evs"], st)
        tr["preds"] = list(tr["preds"].items())
        return tr, st

    def oracle(self, case, io):
        if case.get("e2e"):
            return [Failure(s, w, case=case, detail=d) for s, w, d in io["e2e_failures"]]
        fs = []
        tr, st = self._expected(case)
        fin = io["final"]
        if any(f != (not case["enabled"]) for f in io["flags"] + [fin["disabled"]]):
            fs.append(Failure({"class": "enabled-flag-not-restored"},
                              "the tracer's enabled flag after a top-level event (a statement / an "
                              "observer bracket) differs from the flag before it: an exception that "
                              "left a callback or a `with temporarily_disable()` body skipped the "
                              "restore", detail={"flags_disabled": io["flags"], "final": fin,
                                                 "raised_in_callbacks": sorted(st["kinds"])}))
        got, want = self._visible(fin), self._visible(tr)
        if got != want:
            fs.append(Failure({"class": "events-lost-after-exception"},
                              "lines/predicates/instructions/code objects executed by the test case "
                              "after a caught exception are missing from the trace (or extra ones "
                              "appear)", detail={"recorded": got, "expected": want,
                                                 "raised_in_callbacks": sorted(st["kinds"])}))
        return fs

    def classify(self, case, io):
        if case.get("e2e"):
            return None
        _, st = self._expected(case)
        for kind in st["kinds"]:
            self.count("raised-in-callback:" + kind)
        return vcommon.jdump(case) if st.get("recorded_after") else None

    # -- witness replay -------------------------------------------------------------------------
    WITNESS = {"enabled": True,
               "evs": [{"tryExcept": {"c": "exception", "body": [
                   {"pred": {"p": 0, "body": [{"raise": {"e": "exception"}}]}}]}},
                   {"line": {"l": 7}}]}

    def witnesses(self):
        io = self.impl(self.WITNESS)
        fs = self.oracle(self.WITNESS, io)
        for f in fs:
            f.case = self.WITNESS
            f.what = ("witness of C05_legacy_cex: executed_compare_predicate(<unorderable>, 3, LT) "
                      "raises TypeError, the SUT catches it, track_line_visit(7) is then ignored: "
                      + f.what)
        self.extra_coverage["witness_C05_legacy_cex_reproduces"] = bool(fs)
        return fs

    # -- end-to-end: real instrumentation + TestCaseExecutor --------------------------------------
    SUT_TEMPLATE = '''
    import sys


    class U:
        pass


    class BadEq:
        __hash__ = None

        def __eq__(self, other):
            raise ValueError("eq")


    class BadBool:
        def __bool__(self):
            raise KeyError("bool")


    class Quitter:
        def __lt__(self, other):
            sys.exit(3)


    class Interrupted:
        def __bool__(self):
            raise KeyboardInterrupt


    class Closing:
        def __contains__(self, item):
            raise GeneratorExit


    class Lazy:
        @property
        def value(self):
            raise AttributeError("value was not computed yet")


    class Dynamic:
        def __getattr__(self, name):
            raise KeyError(name)


    class LazyQuitter:
        @property
        def value(self):
            raise SystemExit(2)


    def probe(kind, x):
        if kind == 0:
            if U() < x:
                return 1
        elif kind == 1:
            if BadEq() == x:
                return 1
        elif kind == 2:
            if BadBool():
                return 1
        elif kind == 3:
            if x in 5:
                return 1
        elif kind == 4:
            return x.missing_attribute
        elif kind == 5:
            if Quitter() < x:
                return 1
        elif kind == 6:
            if Interrupted():
                return 1
        elif kind == 7:
            if x in Closing():
                return 1
        elif kind == 8:
            return Lazy().value
        elif kind == 9:
            return Dynamic().anything
        elif kind == 10:
            return LazyQuitter().value
        else:
            return Closing()[x]
        return 0


    def guarded(kind, x):
        try:
            return probe(kind, x)
        except (TypeError, ValueError, KeyError, AttributeError):
            return -1
        except BaseException:
            return -2


    def after(x):
        r = 5  # AFTER
        if x == 3:  # AFTER PRED
            r += 10  # AFTER3
        else:
            r -= 1  # AFTERN
        return r  # AFTER


    def f(kind, x):
        a = guarded(kind, x)
        b = after(x)  # AFTER
        return a + b  # AFTER
    '''
    E2E_KINDS = 12
    E2E_METRICS = {"branch-line": ["BRANCH", "LINE"], "checked": ["BRANCH", "LINE", "CHECKED"]}

    def _e2e(self, metrics, kinds, xs):
        import libcst as cst
        import pynguin.configuration as config
        import pynguin.testcase.testcase as tc
        from pynguin.instrumentation.machinery import install_import_hook
        from pynguin.instrumentation.tracer import SubjectProperties
        from pynguin.testcase.execution import TestCaseExecutor

        fs = []
        src = textwrap.dedent(self.SUT_TEMPLATE)
        tagged, pred_line = {}, None
        for i, line in enumerate(src.splitlines(), 1):
            if "# AFTER" in line:
                tagged[i] = line.split("# ")[1].split()[0]
                if line.rstrip().endswith("PRED"):
                    pred_line = i
        d = tempfile.mkdtemp(prefix="verif-c05-")
        name = f"sutc05_{self.seed}_{os.getpid()}_{metrics.replace('-', '_')}"
        path = os.path.join(d, name + ".py")
        saved_cfg = (config.configuration.module_name, config.configuration.project_path,
                     list(config.configuration.statistics_output.coverage_metrics))
        try:
            with open(path, "w") as f:
                f.write(src)
            sys.path.insert(0, d)
            config.configuration.module_name = name
            config.configuration.project_path = d
            config.configuration.statistics_output.coverage_metrics = [
                getattr(config.CoverageMetric, m) for m in self.E2E_METRICS[metrics]]
            checked = "CHECKED" in self.E2E_METRICS[metrics]
            sp = SubjectProperties()
            try:
                with install_import_hook(name, sp):
                    with sp.instrumentation_tracer:
                        mod = importlib.import_module(name)
                        importlib.reload(mod)
                    stmt_flags = []

                    class Probe(TestCaseExecutor):
                        """Observes the flag right before and right after every statement."""

                        def _exec_statement(self, *args, **kwargs):
                            tracer = self._subject_properties.instrumentation_tracer
                            before = tracer.is_disabled()
                            try:
                                return super()._exec_statement(*args, **kwargs)
                            finally:
                                stmt_flags.append((before, tracer.is_disabled()))

                    executor = Probe(sp, maximum_test_execution_timeout=60,
                                     test_execution_time_per_statement=30)
                    runs = 0
                    for kind in kinds:
                        for x in xs:
                            test = tc.TestCase()
                            for j, code in enumerate([f"var_0 = f({kind}, {x})",
                                                      f"var_1 = after({x})"]):
                                node = cst.parse_module(code + "\n").body[0]
                                test.add_statement(tc.Statement(node=node, bound_variable=f"var_{j}",
                                                                bound_type=None))
                            del stmt_flags[:]
                            res = executor.execute(test)
                            if res.timeout:  # loaded machine: not an observation of this property
                                self.count("e2e:timeout")
                                continue
                            runs += 1
                            trace = res.execution_trace
                            covered = set(sp.lineids_to_linenos(trace.covered_line_ids))
                            want = {ln for ln, tag in tagged.items()
                                    if tag == "AFTER" or tag == ("AFTER3" if x == 3 else "AFTERN")}
                            missing = sorted(want - covered)
                            # `if x == 3` is evaluated by f(...) after the handler and by the 2nd statement
                            pred_count = sum(c for p, c in trace.executed_predicates.items()
                                             if sp.existing_predicates[p].line_no == pred_line)
                            no_instr = []
                            if checked:
                                instr_lines = {i.lineno for i in trace.executed_instructions
                                               if i.file == path}
                                no_instr = sorted(want - instr_lines)
                            self.count(f"e2e:run:{metrics}")
                            flags = list(stmt_flags)
                            if len(flags) != 2 or any(b != a for b, a in flags):
                                fs.append(Failure(
                                    {"class": "e2e-flag-not-restored-by-statement"},
                                    f"TestCaseExecutor ({'+'.join(self.E2E_METRICS[metrics])}), kind={kind}, "
                                    f"x={x}: is_disabled() (before, after) each executed statement = {flags}; "
                                    f"the statement catches what a traced comparison / attribute load raises",
                                    case={"e2e": True, "metrics": metrics, "kind": kind, "x": x},
                                    detail={"stmt_flags": flags}))
                            if res.has_test_exceptions() or missing or pred_count != 2 or no_instr:
                                fs.append(Failure(
                                    {"class": "e2e-lines-lost-after-caught-exception"},
                                    f"TestCaseExecutor ({'+'.join(self.E2E_METRICS[metrics])}) on a module "
                                    f"whose function catches what a traced comparison / attribute load "
                                    f"raises (kind={kind}, x={x}): after the handler, lines {missing} are "
                                    f"not covered, the predicate on line {pred_line} was recorded "
                                    f"{pred_count}x instead of 2x, lines {no_instr} have no checked "
                                    f"instruction",
                                    case={"e2e": True, "metrics": metrics, "kind": kind, "x": x},
                                    detail={"covered": sorted(covered), "missing": missing,
                                            "pred_count": pred_count, "no_instruction": no_instr,
                                            "exceptions": res.has_test_exceptions()}))
                                break
                        else:
                            continue
                        break
                    key = f"e2e_executions_{metrics}"
                    self.extra_coverage[key] = self.extra_coverage.get(key, 0) + runs
            except RuntimeError as e:
                if "stacksize" in str(e):  # instrumentation defect D24 (C01/C03), not this property
                    self.notes.append(f"e2e skipped: instrumentation failed ({e})")
                    self.extra_coverage["e2e_skipped"] = str(e)
                else:
                    raise
        finally:
            (config.configuration.module_name, config.configuration.project_path,
             config.configuration.statistics_output.coverage_metrics) = saved_cfg
            if d in sys.path:
                sys.path.remove(d)
            sys.modules.pop(name, None)
            shutil.rmtree(d, ignore_errors=True)
        return fs

    def extra_checks(self):
        fs = []
        for metrics in self.E2E_METRICS:
            fs += self._e2e(metrics, range(self.E2E_KINDS), (3, 4))
        return fs


if __name__ == "__main__":
    run_main(C05)
