"""C23 — literal values round-trip through generated source (DESIGN §5 C23).

Four kinds of cases, all against the real `pynguin.testcase.literalgen` and the Lean model
(`Driver/C23.lean`):

* `render`  a random nested value → `literal_to_cst` → expression shape, validity (libcst accepts it
            and `compile` accepts the printed code), `eval` of the printed code, `parse_literal`;
* `parse`   a random / perturbed expression → `parse_literal(expr, raw)`;
* `gen`     `generate_literal(raw, provider, pool)` under a random configuration, with every call to
            `pynguin.utils.randomness` and to the constant provider recorded and replayed in the model;
* `mutate`  the same for `mutate_literal`.

Oracle (the property itself, independent of the model): rendering does not raise, the printed code
compiles, evaluates to *the same value* (same type, sign of zero, NaN-ness) and parses back to it;
a generated / mutated literal evaluates to a value of the requested type.
"""
from __future__ import annotations

import fractions
import math
import random
import sys

import vcommon
from vcommon import Failure, PropertyCheck, run_main

import c23_common as cc

RAWS = ["bool", "int", "float", "complex", "str", "bytes", "list", "set", "tuple", "dict", "other"]
PYTYPE = {"bool": bool, "int": int, "float": float, "complex": complex, "str": str, "bytes": bytes,
          "list": list, "set": set, "tuple": tuple, "dict": dict, "other": None}
SCALARS = ["none", "bool", "int", "int", "float", "float", "complex", "str", "bytes"]
INT_LIMIT = sys.get_int_max_str_digits()


def frac(p: float) -> list:
    f = fractions.Fraction(p)
    return [f.numerator, f.denominator]


def raw_of(v) -> str:
    if v is None:
        return "other"
    return type(v).__name__


class _Provider:
    """A scripted constant provider (duck-typed `ConstantProvider`): every call is recorded."""

    def __init__(self, pools, rng, rec):
        self.pools, self.rng, self.rec = pools, rng, rec

    def get_constant_for(self, tp):
        pool = self.pools.get(tp.__name__, [])
        v = self.rng.choice(pool) if pool and self.rng.random() < 0.8 else None
        key = {"int": "ci", "float": "cf", "complex": "cc", "str": "cs", "bytes": "cb"}[tp.__name__]
        if v is None:
            self.rec.append(({key: None}, "provider"))
        elif tp is int:
            self.rec.append(({key: hex(v)}, "provider"))
        elif tp is float:
            self.rec.append(({key: cc.enc_float(v)}, "provider"))
        elif tp is complex:
            self.rec.append(({key: [cc.enc_float(v.real), cc.enc_float(v.imag)]}, "provider"))
        elif tp is str:
            self.rec.append(({key: [ord(c) for c in v]}, "provider"))
        else:
            self.rec.append(({key: list(v)}, "provider"))
        return v

    def get_all_constants_for(self, tp):
        from pynguin.utils.orderedset import OrderedSet
        pool = OrderedSet(self.pools.get(tp.__name__, []))
        self.rec.append(({"all": [[ord(c) for c in s] for s in pool]}, "provider"))
        return pool


class C23(PropertyCheck):
    prop_id = "C23"
    prop_modules = ["PynguinModel.Props.C23"]
    extra_modules = ["PynguinModel.Model.Literals"]
    driver = "Driver/C23.lean"
    n_quick = 5000
    n_thorough = 120000
    n_search = 30000
    rule = ("render: random nested values (depth ≤ 4; ints up to 4500 digits; all float specials, "
            "subnormals, random bit patterns; arbitrary code points incl. lone surrogates); parse: perturbed "
            "expressions; gen/mutate: random configurations, recorded RNG/provider draws.  non-trivial = "
            "distinct case that is a collection, a negative/non-finite/zero number, a non-ASCII string, or a "
            "gen/mutate run that consumed ≥ 3 draws")
    assumptions = [
        "repr(abs(x)) / float(text) are inverse on finite doubles; repr / evaluated_value are inverse on "
        "str and bytes (CPython; checked on every sample through eval of the printed code)",
        "hashability of set elements / dict keys is not modelled (Python values are well-formed)",
        "float arithmetic on gaussian draws is computed by the harness (arithInt/arithFloat entries), "
        "for _mutate_complex with the same expressions as the code",
        "configurations have string_length ≥ 1 and collection_size ≥ 1 (randrange on an empty range raises)",
    ]

    # ------------------------------------------------------------------------------------------
    # generation of cases
    # ------------------------------------------------------------------------------------------
    def gen_case(self, rng):
        r = rng.random()
        if r < 0.55:
            return self._gen_render(rng)
        if r < 0.70:
            return self._gen_parse(rng)
        if r < 0.86:
            return self._gen_gen(rng, mutate=False)
        return self._gen_gen(rng, mutate=True)

    def _gen_render(self, rng):
        depth = rng.choice([0, 0, 1, 2, 3, 4])
        v = cc.rand_value(rng, depth, SCALARS)
        return {"op": "render", "v": cc.enc(v)}

    def _rand_expr(self, rng, depth=2, hashable=False):
        """A random expression JSON (shapes the renderers produce and near misses)."""
        r = rng.random()
        if depth <= 0 or r < 0.5:
            k = rng.choice(["I", "F", "s", "b", "n", "negI", "negF", "fcall", "ccall", "negneg"]
                           + ([] if hashable else ["set0"]))
            if k == "I":
                return {"I": str(abs(cc.rand_int(rng, huge_ok=False)))}
            if k == "F":
                return {"F": cc.fbits(abs(rng.choice(cc.SPECIAL_FLOATS[6:])))}
            if k == "s":
                return {"s": [ord(c) for c in cc.rand_str(rng)]}
            if k == "b":
                return {"b": list(cc.rand_bytes(rng))}
            if k == "n":
                return {"n": rng.choice(["True", "False", "None", "var_0", "inf"])}
            if k == "negI":
                return {"neg": {"I": str(abs(cc.rand_int(rng, huge_ok=False)))}}
            if k == "negF":
                return {"neg": {"F": cc.fbits(abs(rng.choice(cc.SPECIAL_FLOATS[6:])))}}
            if k == "fcall":
                inner = {"call": rng.choice(["float", "float", "float", "int", "complex"]),
                         "a": [{"s": [ord(c) for c in rng.choice(["inf", "nan", "-inf", "1.5", "Infinity", ""])]}]}
                return {"neg": inner} if rng.random() < 0.4 else inner
            if k == "ccall":
                def comp():
                    t = rng.random()
                    if t < 0.4:
                        return cc.cst2j(self._lg()._float_to_cst(cc.rand_float(rng)))
                    if t < 0.8:
                        z = rng.choice([0, 1, -1, 3, 2 ** 53 + 1, -(2 ** 53 + 1), 2 ** 54 + 2, 2 ** 63 - 1,
                                        10 ** 22, 10 ** 23, 2 ** 1023, -(2 ** 1023) - 12345,
                                        rng.getrandbits(rng.choice([10, 54, 60, 70, 200, 1000]))])
                        return {"neg": {"I": str(-z)}} if z < 0 else {"I": str(z)}
                    return self._rand_expr(rng, 0)
                n = rng.choice([2, 2, 2, 2, 1, 3])
                return {"call": rng.choice(["complex", "complex", "complex", "float"]),
                        "a": [comp() for _ in range(n)]}
            if k == "set0":
                return {"call": rng.choice(["set", "set", "list", "frozenset"]), "a": []}
            return {"neg": {"neg": {"I": "3"}}}
        k = rng.choice(["l", "t", "S", "d"])
        n = rng.choice([0, 1, 1, 2, 3])
        if k == "l":
            return {"l": [self._rand_expr(rng, depth - 1) for _ in range(n)]}
        if k == "t":
            return {"t": [self._rand_expr(rng, depth - 1) for _ in range(n)],
                    "c": n == 1 and rng.random() < 0.7}
        # elements of sets / dict keys stay scalar (hashability is not modelled)
        if k == "S":
            return {"S": [self._rand_expr(rng, 0, True) for _ in range(max(n, 1))]}
        return {"d": [[self._rand_expr(rng, 0, True), self._rand_expr(rng, depth - 1)] for _ in range(n)]}

    def _gen_parse(self, rng):
        if rng.random() < 0.5:
            v = cc.rand_value(rng, rng.choice([0, 1, 2]), [k for k in SCALARS], coll=("list", "tuple", "set", "dict"))
            ints = [x for x in cc.leaves(v) if isinstance(x, int) and not isinstance(x, bool)]
            if any(abs(x) >= 10 ** INT_LIMIT for x in ints):
                v = 7
            e = cc.cst2j(self._lg().literal_to_cst(v))
            raw = raw_of(v) if rng.random() < 0.7 else rng.choice(RAWS)
        else:
            e = self._rand_expr(rng, rng.choice([0, 1, 2]))
            raw = rng.choice(RAWS)
        return {"op": "parse", "raw": raw, "e": e}

    def _gen_gen(self, rng, mutate):
        P = [0.0, 0.0, 0.2, 0.5, 0.9, 1.0]
        cfg = {
            "seed_prob": rng.choice(P), "assembly_prob": rng.choice(P), "ref_prob": rng.choice(P),
            "perturb_prob": rng.choice([0.0, 0.0, 0.2, 0.5, 1.0]) if mutate else 0.2,
            "string_length": rng.choice([1, 3, 20]), "bytes_length": rng.choice([0, 1, 2, 5, 20]),
            "collection_size": rng.choice([1, 2, 3, 5, 10]), "max_assembled_tokens": rng.choice([0, 1, 2, 4, 6]),
            "max_int": rng.choice([1, 10, 2048, 10 ** 6]), "max_delta": rng.choice([1, 20, 1000]),
        }
        pools = {
            "int": [cc.rand_int(rng, huge_ok=False) for _ in range(rng.choice([0, 2]))],
            "float": [cc.rand_float(rng) for _ in range(rng.choice([0, 3]))],
            "complex": [complex(cc.rand_float(rng), cc.rand_float(rng)) for _ in range(rng.choice([0, 2]))],
            "str": [rng.choice(["", "-", ":", "a", "ab", "x y", "é", "'", "\n"]) for _ in range(rng.choice([0, 1, 2, 4]))],
            "bytes": [cc.rand_bytes(rng) for _ in range(rng.choice([0, 2]))],
        }
        raw = rng.choice(RAWS)
        case = {"op": "mutate" if mutate else "gen", "seed": rng.getrandbits(32), "cfg": cfg, "raw": raw,
                "pool": [f"var_{i}" for i in range(rng.choice([0, 0, 1, 3]))],
                "pools": {k: [cc.enc(x) for x in v] for k, v in pools.items()}}
        if mutate:
            t = rng.random()
            if t < 0.6 and raw != "other":
                # a literal of the right type, produced by the generator itself
                sub = dict(case, op="gen", seed=rng.getrandbits(32))
                case["e"] = self._run_gen(sub)["expr"]
            elif t < 0.85:
                v = cc.rand_value(rng, rng.choice([0, 1, 2]), [k for k in SCALARS if k != "none"])
                ints = [x for x in cc.leaves(v) if isinstance(x, int) and not isinstance(x, bool)]
                if any(abs(x) >= 10 ** 400 for x in ints):
                    v = [1, -2.5, float("inf")]
                case["e"] = cc.cst2j(self._lg().literal_to_cst(v))
            else:
                case["e"] = self._rand_expr(rng, rng.choice([0, 1]))
        return case

    # ------------------------------------------------------------------------------------------
    # implementation adapter
    # ------------------------------------------------------------------------------------------
    @staticmethod
    def _lg():
        from pynguin.testcase import literalgen
        return literalgen

    def impl(self, case):
        op = case["op"]
        self.count("op:" + op)
        if op == "render":
            io = self._impl_render(case)
        elif op == "parse":
            io = self._impl_parse(case)
        else:
            io = self._run_gen(case)
        # the model line needs what only the live objects know (set iteration order — NaN hashes by
        # identity —, recorded draws): build it now, from this very run
        if not hasattr(self, "_lines"):
            self._lines = {}
        self._lines[id(case)] = self._line(case, io)
        return io

    def _impl_render(self, case):
        lg = self._lg()
        v = cc.dec(case["v"])
        self.count("kind:" + raw_of(v))
        out = {"actual": cc.enc(v)}  # iteration order of the live sets, for the model
        try:
            node = lg.literal_to_cst(v)
        except Exception as e:  # the property says rendering never fails
            out["err"] = type(e).__name__
            return out
        out["expr"] = cc.cst2j(node)
        code = cc.code_of(node)
        try:
            compile(code, "<lit>", "eval")
            out["valid"] = True
        except (SyntaxError, ValueError):
            out["valid"] = False
        try:
            ev = eval(code, {})  # noqa: S307 - our own rendered literal
            out["eval"] = {"some": cc.enc(ev)}
            out["eval_same"] = cc.same(ev, v)
        except Exception as e:
            out["eval"] = None
            out["eval_err"] = type(e).__name__
            out["eval_same"] = False
        pv = lg.parse_literal(node, None if v is None else type(v))
        out["parse"] = None if (pv is None and v is not None) else {"some": cc.enc(pv)}
        out["parse_same"] = (pv is None) if v is None else (pv is not None and cc.same(pv, v))
        return out

    def _impl_parse(self, case):
        lg = self._lg()
        node = cc.j2cst(case["e"])
        raw = PYTYPE[case["raw"]]
        try:
            pv = lg.parse_literal(node, raw)
        except OverflowError:
            return {"err": "OverflowError"}
        if pv is None:
            # `None` is both "not parseable" and the value of the literal `None`: disambiguate
            if case["raw"] == "other":
                import ast
                try:
                    if ast.literal_eval(cc.code_of(node)) is None:
                        return {"parse": {"some": None}}
                except (ValueError, SyntaxError, TypeError, MemoryError, RecursionError):
                    pass
            return {"parse": None}
        return {"parse": {"some": cc.enc(pv)}}

    def _configure(self, cfg):
        import pynguin.configuration as config
        c = config.configuration
        c.seeding.seeded_primitives_reuse_probability = cfg["seed_prob"]
        c.string_statement.token_assembly_probability = cfg["assembly_prob"]
        c.string_statement.max_assembled_tokens = cfg["max_assembled_tokens"]
        c.test_creation.collection_reference_probability = cfg["ref_prob"]
        c.search_algorithm.random_perturbation = cfg["perturb_prob"]
        c.test_creation.string_length = cfg["string_length"]
        c.test_creation.bytes_length = cfg["bytes_length"]
        c.test_creation.collection_size = cfg["collection_size"]
        c.test_creation.max_int = cfg["max_int"]
        c.test_creation.max_delta = cfg["max_delta"]

    def _run_gen(self, case):
        """Run generate_literal / mutate_literal with every randomness / provider call recorded."""
        import libcst as cst
        import pynguin.configuration as config
        from pynguin.utils import randomness as R
        lg = self._lg()
        import copy
        saved_cfg = config.configuration
        config.configuration = copy.deepcopy(saved_cfg)
        self._configure(case["cfg"])
        rec: list = []
        orig = {n: getattr(R, n) for n in ("next_float", "next_bool", "next_int", "choice", "next_gaussian",
                                           "next_string", "next_bytes")}

        depth = [0]

        def wrap(name, describe):
            """Record top-level calls only (e.g. the real next_bool() calls next_float() itself)."""
            def f(*a):
                who = sys._getframe(1).f_code.co_name
                depth[0] += 1
                try:
                    x = orig[name](*a)
                finally:
                    depth[0] -= 1
                if depth[0] == 0:
                    rec.append((describe(x, *a), who))
                return x
            return f

        next_float = wrap("next_float", lambda x, *a: {"flt": frac(x)})
        next_bool = wrap("next_bool", lambda b: {"bool": b})
        next_int = wrap("next_int", lambda i, lo=-100, hi=100: {"int": [lo, hi, i]})
        next_gaussian = wrap("next_gaussian", lambda g: {"gauss": g})
        next_string = wrap("next_string", lambda s, n: {"string": [n, [ord(c) for c in s]]})
        next_bytes = wrap("next_bytes", lambda b, n: {"bytes": [n, list(b)]})

        def choice(seq):
            who = sys._getframe(1).f_code.co_name
            seq = list(seq)
            i = orig["next_int"](0, len(seq))
            if depth[0] == 0:
                rec.append(({"choice": [len(seq), i]}, who))
            return seq[i]

        pool = [cst.Name(n) for n in case["pool"]]
        prov = _Provider({k: [cc.dec(x) for x in v] for k, v in case["pools"].items()},
                         random.Random(case["seed"] ^ 0x5A5A), rec)
        R.RNG.seed(case["seed"])
        for n, f in (("next_float", next_float), ("next_bool", next_bool), ("next_int", next_int),
                     ("choice", choice), ("next_gaussian", next_gaussian), ("next_string", next_string),
                     ("next_bytes", next_bytes)):
            setattr(R, n, f)
        raw = PYTYPE[case["raw"]]
        out = {}
        try:
            if case["op"] == "gen":
                node = lg.generate_literal(raw, prov, pool)
            else:
                e0 = cc.j2cst(case["e"])
                node = lg.mutate_literal(e0, raw, prov, pool)
        except Exception as e:
            out["err"] = type(e).__name__ + ": " + str(e)[:100]
            node = None
        finally:
            for n, f in orig.items():
                setattr(R, n, f)
            config.configuration = saved_cfg
        out["draws"] = self._derive(rec, case)
        if node is None:
            return out
        out["expr"] = cc.cst2j(node)
        out["rest"] = 0
        code = cc.code_of(node)
        ns = {n: i for i, n in enumerate(case["pool"])}
        try:
            ev = eval(compile(code, "<lit>", "eval"), dict(ns))  # noqa: S307
            out["valid"] = True
            out["type"] = (ev is None) if raw is None else (type(ev) is raw)
        except SyntaxError:
            out["valid"] = False
            out["type"] = None
        except Exception as e:  # a free name in the mutated input, an unhashable pooled reference, ...
            out["valid"] = True
            out["type"] = None
            out["eval_err"] = type(e).__name__ + ": " + str(e)[:60]
        if case["op"] == "mutate":
            try:
                eval(cc.code_of(cc.j2cst(case["e"])), dict(ns))  # noqa: S307
                out["input_evaluates"] = True
            except Exception:
                out["input_evaluates"] = False
        return out

    def _derive(self, rec, case):
        """Insert the arithmetic results (arithInt / arithFloat) the model reads after gaussian draws."""
        cfg = case["cfg"]
        max_int, max_delta = cfg["max_int"], cfg["max_delta"]
        cur = None
        if case["op"] == "mutate":
            try:
                cur = eval(cc.code_of(cc.j2cst(case["e"])), {})  # noqa: S307
            except Exception:
                cur = None
        out = []
        i = 0
        n = len(rec)
        while i < n:
            d, who = rec[i]
            if "gauss" not in d:
                if who == "_mutate_complex" and "int" in d and d["int"][:2] == [0, 3]:
                    c = d["int"][2]
                    out.append(d)
                    if c == 2:
                        p = rec[i + 1][0]["int"][2]
                        b = rec[i + 2][0]["bool"]
                        comp = cur.real if b else cur.imag
                        out += [rec[i + 1][0], rec[i + 2][0], {"af": cc.enc_float(round(comp, p))}]
                    else:
                        g = rec[i + 1][0]["gauss"]
                        b = rec[i + 2][0]["bool"]
                        comp = cur.real if b else cur.imag
                        delta = g * max_delta if c == 0 else g
                        out += ["gauss", rec[i + 2][0], {"af": cc.enc_float(comp + delta)}]
                    i += 3
                    continue
                out.append(d)
                i += 1
                continue
            g = d["gauss"]
            out.append("gauss")
            if who == "_gen_int":
                out.append({"ai": hex(round(g * max_int))})
            elif who == "_gen_float":
                out.append({"af": cc.enc_float(round(g * max_int, 2))})
            elif who == "_gen_complex":
                p = rec[i + 1][0]["int"][2]
                out += [rec[i + 1][0], {"af": cc.enc_float(round(g * max_int, p))}]
                i += 1
            elif who == "_mutate_int":
                out.append({"ai": hex(round(g * max_delta))})
            elif who == "_mutate_float":
                out.append({"af": cc.enc_float(float(cur) + g * max_delta)})
            else:
                raise RuntimeError(f"gaussian draw from unexpected caller {who}")
            i += 1
        return out

    # ------------------------------------------------------------------------------------------
    # model side
    # ------------------------------------------------------------------------------------------
    def model_line(self, case):
        line = getattr(self, "_lines", {}).get(id(case))
        if line is None:
            self.impl(case)
            line = self._lines[id(case)]
        return line

    def _line(self, case, io):
        op = case["op"]
        if op == "render":
            return vcommon.jdump({"op": "render", "lim": INT_LIMIT, "v": io["actual"]})
        if op == "parse":
            return vcommon.jdump(case)
        c = case["cfg"]
        line = {"op": op, "raw": case["raw"], "pool": [{"n": n} for n in case["pool"]], "draws": io["draws"],
                "cfg": {"seedProb": frac(c["seed_prob"]), "assemblyProb": frac(c["assembly_prob"]),
                        "refProb": frac(c["ref_prob"]), "perturbProb": frac(c["perturb_prob"]),
                        "stringLength": c["string_length"], "bytesLength": c["bytes_length"],
                        "collectionSize": c["collection_size"], "maxAssembledTokens": c["max_assembled_tokens"]}}
        if op == "mutate":
            line["e"] = case["e"]
        return vcommon.jdump(line)

    def compare(self, case, io, mo):
        op = case["op"]
        if op == "render":
            if "err" in io or "err" in mo:
                return io.get("err") == mo.get("err")
            return (io["expr"] == mo.get("expr") and io["valid"] == mo.get("valid")
                    and cc.canon(io["eval"]) == cc.canon(mo.get("eval"))
                    and cc.canon(io["parse"]) == cc.canon(mo.get("parse")))
        if op == "parse":
            if "err" in io:  # float(int) overflow inside _parse_component: model says "no value"
                return mo.get("parse") is None
            return cc.canon(io["parse"]) == cc.canon(mo.get("parse"))
        if "err" in io:
            return mo.get("fail") is True
        if io["expr"] != mo.get("expr") or mo.get("rest") != 0 or io["valid"] != mo.get("valid"):
            return False
        # the model evaluates in a builtins-only namespace: compare the type verdict when no pooled
        # reference made it into the literal
        if not self._has_ref(io["expr"]):
            return io["type"] == mo.get("type")
        return True

    @staticmethod
    def _has_ref(e) -> bool:
        if isinstance(e, dict):
            if "n" in e and e["n"].startswith("var_"):
                return True
            return any(C23._has_ref(x) for x in e.values())
        if isinstance(e, list):
            return any(C23._has_ref(x) for x in e)
        return False

    # ------------------------------------------------------------------------------------------
    # property oracle
    # ------------------------------------------------------------------------------------------
    @staticmethod
    def _value_class(v, declined=False):
        """Fine classification of a value a round trip failed on (`declined`: parse returned None)."""
        ls = list(cc.leaves(v))
        top_coll = isinstance(v, (list, tuple, set, dict))
        floats = [x for x in ls if isinstance(x, float)] + [p for x in ls if isinstance(x, complex)
                                                           for p in (x.real, x.imag)]
        call_rendered = any(isinstance(x, complex) for x in ls) or any(not math.isfinite(x) for x in floats)
        if declined and top_coll and call_rendered:
            return "collection-with-call-rendered-element"
        if any(cc.is_negzero(x) for x in floats):
            return "signed-zero"
        if top_coll and call_rendered:
            return "collection-with-call-rendered-element"
        if any(not math.isfinite(x) for x in floats):
            return "complex-nonfinite-component" if isinstance(v, complex) else "float-nonfinite-call-form"
        return "other"

    def oracle(self, case, io):
        op = case["op"]
        fs = []
        if op == "render":
            v = cc.dec(case["v"])
            if "err" in io:
                ints = [x for x in cc.leaves(v) if isinstance(x, int) and not isinstance(x, bool)]
                cls = ("int-digits>4300" if io["err"] == "ValueError" and any(abs(x) >= 10 ** INT_LIMIT for x in ints)
                       else io["err"])
                fs.append(Failure({"op": "render", "class": cls},
                                  f"literal_to_cst raised {io['err']} on {str(case['v'])[:120]}"))
                return fs
            if not io["valid"]:
                fs.append(Failure({"op": "render", "class": "invalid-python"},
                                  f"rendered literal does not compile: {str(io['expr'])[:200]}"))
            if not io["eval_same"]:
                fs.append(Failure({"op": "eval-roundtrip", "class": self._value_class(v)},
                                  f"eval(render(v)) != v for v={str(case['v'])[:160]}; got {str(io['eval'])[:160]}"))
            if not io["parse_same"]:
                fs.append(Failure({"op": "parse-roundtrip", "class": self._value_class(v, io["parse"] is None)},
                                  f"parse_literal(literal_to_cst(v), type(v)) != v for v={str(case['v'])[:160]}; "
                                  f"got {str(io['parse'])[:160]}"))
        elif op in ("gen", "mutate"):
            if "err" in io:
                fs.append(Failure({"op": op, "class": "raises"}, f"{op} raised {io['err']}"))
            elif not io["valid"]:
                fs.append(Failure({"op": op, "class": "invalid-python"},
                                  f"{op}: result does not compile: {str(io['expr'])[:200]}"))
            elif io["type"] is not True and not self._has_ref(io["expr"]) and io.get("input_evaluates", True):
                fs.append(Failure({"op": op, "class": "wrong-type", "raw": case["raw"]},
                                  f"{op}({case['raw']}) produced {str(io['expr'])[:200]}"))
        return fs

    def classify(self, case, io):
        op = case["op"]
        if op == "render":
            v = cc.dec(case["v"])
            if isinstance(v, (list, tuple, set, dict)) and len(v) > 0:
                return vcommon.jdump(case)
            if isinstance(v, (int, float, complex)) and not isinstance(v, bool):
                parts = [v.real, v.imag] if isinstance(v, complex) else [v]
                if any(p != p or p <= 0 or p in (math.inf,) for p in parts):
                    return vcommon.jdump(case)
            if isinstance(v, str) and not v.isascii():
                return vcommon.jdump(case)
            return None
        if op == "parse":
            return vcommon.jdump(case) if len(vcommon.jdump(case["e"])) > 12 else None
        return vcommon.jdump(case) if len(io.get("draws", [])) >= 3 else None

    # ------------------------------------------------------------------------------------------
    # known-finding witnesses, replayed on every run
    # ------------------------------------------------------------------------------------------
    def witnesses(self):
        fs = []
        lg = self._lg()
        try:
            lg.literal_to_cst(10 ** INT_LIMIT)
        except ValueError:
            fs.append(Failure({"op": "render", "class": "int-digits>4300"},
                              "literal_to_cst(10**4300) raises ValueError (int->str digit limit)",
                              case={"op": "render", "v": {"i": hex(10 ** INT_LIMIT)}}))
        node = lg.literal_to_cst([math.inf])
        if lg.parse_literal(node, list) is None and cc.same(eval(cc.code_of(node), {}), [math.inf]):  # noqa: S307
            fs.append(Failure({"op": "parse-roundtrip", "class": "collection-with-call-rendered-element"},
                              "parse_literal(literal_to_cst([inf]), list) is None (ast.literal_eval rejects "
                              "float('inf')), evaluation round-trips",
                              case={"op": "render", "v": cc.enc([math.inf])}))
        return fs


if __name__ == "__main__":
    run_main(C23)
