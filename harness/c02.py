"""C02 — reported line coverage equals the lines the interpreter actually executed (DESIGN §5 C02).

Tie 1 (translator, `translate()`): the opcode names for which the live
`LineCoverageInstrumentation.should_instrument_line` refuses a tracker whatever the line are read from the
running adapter (every name of `dis.opmap`) and written to `lean/PynguinModel/Generated/C02Opcodes.lean`;
`Props/C02.lean` `decide`s that the table skips RESUME / RETURN_GENERATOR / END_FOR and nothing that
produces line events.

Tie 2 (correspondence, kinds `syn` and `real`): the REAL adapter (`visit_node` → `should_instrument_line` →
`visit_line` → `SubjectProperties.register_line`, iterating `BasicBlockNode.instrumentation_original_
instructions` over a real `bytecode.BasicBlock`) instruments
  * synthetic blocks (pseudo-instructions, artificial instructions of other adapters, instructions without
    line number, excluded lines, RESUME / END_FOR / RETURN_GENERATOR, repeated lines, several files), and
  * every basic block of real code objects (generated programs, stdlib modules) taken from pynguin's own
    `CFG.from_bytecode`,
and the resulting block layout (where every `track_line_visit(id)` snippet sits) and the line registry are
compared with `Driver/C02.lean`.  Then random execution HISTORIES on one tracer are replayed over the REAL
instrumented blocks with the REAL proxy (`InstrumentationExecutionTracer` → `ExecutionTracer` → trace): block
prefixes (block, k original instructions) interleaved with `enable / disable`, `temporarily_disable /
temporarily_enable` (through the proxy), `with tracer:` enter / exit, `init_trace / store_import_trace /
reset`, a swapped delegate, and `executed_compare / bool / in_presence_predicate` calls on objects whose
`__eq__ / __lt__ / __contains__ / __bool__ / __len__ …` run instrumented blocks (the branch tracer's own
evaluation).  `covered_line_ids` before every new trace and at the end, aborted calls, the enabled / entered
flags, `lineids_to_linenos`, `compute_line_coverage(_fitness_is_covered)` are compared with `Model/LineTracer.lean`.

Oracle (independent of the model): the property in its own words, evaluated on the implementation's
output, execution by execution — the (file, line) pairs of a trace == the lines of the import trace it was
started from + lines of the original instructions the program executed while the tracer was enabled inside
`with tracer:` that have an integer line, are not excluded and are not one of the (hand-listed, trusted)
opcodes CPython gives no line event.

End-to-end (`extra_checks`, failing-input search): generated programs (branches, loops, comprehensions,
generators, try/except/finally, with, match, closures, classes) are imported through pynguin's import hook
with LINE (and BRANCH+LINE) instrumentation and run; the reported lines of the import and of every call
are compared with `sys.monitoring` LINE events of the same import / call on the uninstrumented module.
Plus generated modules with classes defining comparison / truth / membership / size dunder methods (one-line
bodies) used in predicates, one-line functions and properties, with call sequences that repeat a function;
every call is its own execution on the ONE tracer, started with `reset()` or — as the executor does — with
`init_trace()` after `store_import_trace()` (then the import lines belong to every execution).
Runs in a child interpreter so that a broken instrumentation that crashes CPython is reported, not fatal.
"""
from __future__ import annotations

import dis
import hashlib
import json
import os
import random
import subprocess
import sys
import tempfile
from fractions import Fraction
from pathlib import Path

import vcommon
from vcommon import Failure, PropertyCheck, run_main

#: opcodes that carry a line number but for which CPython 3.12 reports no LINE event of their own
#: (trusted ground truth of the oracle; NOT read from pynguin)
NOLINE = {"RESUME", "RETURN_GENERATOR", "END_FOR"}

#: opcode pool of synthetic blocks: name -> Instr argument (None = no argument)
SYN_OPS = {"LOAD_FAST": "x", "STORE_FAST": "x", "LOAD_CONST": 1, "POP_TOP": None, "NOP": None,
           "RETURN_VALUE": None, "CALL": 0, "RESUME": 0, "END_FOR": None, "RETURN_GENERATOR": None,
           "BINARY_OP": 0, "PUSH_NULL": None}
SYN_WEIGHTS = (["LOAD_FAST"] * 6 + ["STORE_FAST"] * 3 + ["LOAD_CONST"] * 3 + ["POP_TOP"] * 4 + ["NOP"] * 2
               + ["RETURN_VALUE", "CALL", "CALL", "BINARY_OP", "PUSH_NULL"]
               + ["RESUME"] * 2 + ["END_FOR"] * 2 + ["RETURN_GENERATOR"])

#: tracer operations of a script besides block visits ("v") and predicate evaluations ("p")
TRACER_OPS = ("enable", "disable", "tdEnter", "teEnter", "cmExit", "enter", "exit",
              "initTrace", "storeImportTrace", "reset", "setFresh")
#: the operations that install a new trace
STARTS = ("initTrace", "storeImportTrace", "reset", "setFresh")

GENERATED = vcommon.LEAN / "PynguinModel" / "Generated" / "C02Opcodes.lean"


# ---------------------------------------------------------------------------------------------
# helpers on real blocks
# ---------------------------------------------------------------------------------------------
def _entries_of_block(block, pre_art=()):
    """The model's view of a raw `bytecode.BasicBlock` before the line adapter runs."""
    from bytecode import Instr
    from pynguin.instrumentation.controlflow import ArtificialInstr
    out = []
    for e in block:
        if not isinstance(e, Instr):
            out.append({"k": "pseudo"})
        elif isinstance(e, ArtificialInstr):
            out.append({"k": "art"})
        else:
            ln = e.lineno
            out.append({"k": "orig", "name": e.name, "line": ln if isinstance(ln, int) else None})
    return out


def _layout_of_block(block, pre_art_ids):
    """Canonical layout of a block after the real adapter ran: "p" | "a" | ["o", name, line] | ["t", id]."""
    from bytecode import Instr
    from pynguin.instrumentation.controlflow import ArtificialInstr
    out, snippet = [], []

    def flush():
        if not snippet:
            return
        names = [i.name for i in snippet]
        tid = None
        for j, i in enumerate(snippet):
            arg = i.arg
            if i.name in ("LOAD_ATTR", "LOAD_METHOD") and "track_line_visit" in repr(arg) \
                    and j + 1 < len(snippet) and snippet[j + 1].name == "LOAD_CONST":
                tid = snippet[j + 1].arg
                break
        out.append(["t", tid] if isinstance(tid, int) and not isinstance(tid, bool) else ["?", names])
        snippet.clear()

    for e in block:
        if isinstance(e, ArtificialInstr) and id(e) not in pre_art_ids:
            snippet.append(e)
            if e.name == "POP_TOP":  # the snippet's last instruction
                flush()
            continue
        flush()
        if not isinstance(e, Instr):
            out.append("p")
        elif isinstance(e, ArtificialInstr):
            out.append("a")
        else:
            ln = e.lineno
            out.append(["o", e.name, ln if isinstance(ln, int) else (None if ln is None else repr(ln))])
    flush()
    return out


class _Replay:
    """Drives the REAL `InstrumentationExecutionTracer` (what the injected bytecode and pynguin's executor call)
    through a script; block visits call `track_line_visit` exactly where the real instrumented block does."""

    def __init__(self, sp, layout):
        self.sp = sp
        self.proxy = sp.instrumentation_tracer
        self.layout = layout
        self.stack = []      # open temporarily_disable / temporarily_enable context managers
        self.calls = []      # ids handed to track_line_visit by block events
        self.snaps = []      # covered_line_ids before every new trace
        self.aborted = 0
        self.nth = 0

    def entered(self):
        import threading
        return self.proxy.tracer._current_thread_identifier == threading.current_thread().ident  # noqa: SLF001

    def visit(self, v, record):
        from pynguin.utils.exceptions import TracingAbortedException
        ci, bi, k = v
        left = k
        for item in self.layout[ci][bi]:
            if left == 0:
                break
            if isinstance(item, list) and item[0] == "t":
                if record:
                    self.calls.append(item[1])
                try:
                    self.proxy.track_line_visit(item[1])  # what the inserted snippet calls
                except TracingAbortedException:
                    self.aborted += 1
            elif isinstance(item, list) and item[0] == "o":
                left -= 1

    def predicate(self, ev):
        """`proxy.executed_*_predicate` on objects whose dunder methods are instrumented code of the module: the
        tracer evaluates the comparison / truth value / membership itself, which runs the given blocks."""
        from pynguin.instrumentation import PynguinCompare as PC
        from pynguin.utils.exceptions import TracingAbortedException
        rep, vs, how = self, ev["vs"], ev["how"] % 8
        self.nth += 1
        res = (self.nth + how) % 3 != 0

        def body(*_a):
            for v in vs:
                rep.visit(v, False)
            return res

        name, cmp_op = [("__eq__", PC.EQ), ("__lt__", PC.LT), ("__contains__", PC.IN), ("__bool__", None),
                        ("__len__", None), ("__contains__", "presence"), ("__ne__", PC.NE), ("__ge__", PC.GE)][how]
        ns = {name: (lambda self_, *a: int(body())) if name == "__len__" else (lambda self_, *a: body())}
        if name == "__eq__":
            ns["__hash__"] = lambda self_: 7
        cls = type("Sut", (), ns)
        a, b = cls(), cls()
        pid = 1000 + self.nth
        try:
            if cmp_op is None:
                self.proxy.executed_bool_predicate(a, pid)
            elif cmp_op == "presence":
                self.proxy.executed_in_presence_predicate(b, a, pid)
            elif cmp_op is PC.IN:
                self.proxy.executed_compare_predicate(b, a, pid, cmp_op)
            else:
                self.proxy.executed_compare_predicate(a, b, pid, cmp_op)
        except TracingAbortedException:
            self.aborted += 1

    def event(self, ev):
        from pynguin.instrumentation.tracer import ExecutionTracer
        e, p = ev["e"], self.proxy
        if e in STARTS:
            self.snaps.append(list(p.get_trace().covered_line_ids))
        if e == "blk":
            self.visit(ev["v"], True)
        elif e == "predicate":
            self.predicate(ev)
        elif e == "enable":
            p.enable()
        elif e == "disable":
            p.disable()
        elif e in ("tdEnter", "teEnter"):
            # the executor and the observers use the proxy's context managers (they may span a swap of the
            # delegate); the delegate's own ones are used by its predicate methods only (see `predicate`)
            cm = p.temporarily_disable() if e == "tdEnter" else p.temporarily_enable()
            cm.__enter__()
            self.stack.append(cm)
        elif e == "cmExit":
            if self.stack:
                self.stack.pop().__exit__(None, None, None)
        elif e == "enter":
            p.__enter__()
        elif e == "exit":
            p.__exit__(None, None, None)
        elif e == "initTrace":
            p.init_trace()
        elif e == "storeImportTrace":
            p.store_import_trace()
        elif e == "reset":
            p.reset()
        elif e == "setFresh":
            p.tracer = ExecutionTracer()
        else:
            raise ValueError(e)


class _Cover:
    """Stand-in for `AstInfo`: the adapter only calls `should_cover_line`."""

    def __init__(self, nocover):
        self.nocover = set(nocover)

    def should_cover_line(self, lineno):
        return lineno not in self.nocover


class _FakeBytecodeCfg:
    def __init__(self, filename):
        self.filename = filename


class _FakeCfg:
    def __init__(self, filename):
        self.bytecode_cfg = _FakeBytecodeCfg(filename)


# ---------------------------------------------------------------------------------------------
# end-to-end runs (executed inside the child interpreter)
# ---------------------------------------------------------------------------------------------
def _call(mod, fn, args):
    try:
        f = eval(fn, mod.__dict__)  # noqa: S307 - expressions generated by this harness
        r = f(*args)
        if hasattr(r, "__next__"):
            r = list(r)
        return ["ok", repr(r)[:200]]
    except Exception as e:  # noqa: BLE001
        return ["exc", type(e).__name__]


def e2e_plain(src, calls):
    """Ground truth: LINE events of the uninstrumented module (import, then each call)."""
    import importlib
    import instr as hinstr
    mon = sys.monitoring
    tool = mon.COVERAGE_ID
    d = tempfile.mkdtemp(prefix="verif_c02_plain_")
    name = f"c02plain_{os.getpid()}_{random.getrandbits(40)}"
    path = os.path.join(d, name + ".py")
    with open(path, "w", encoding="utf-8") as f:
        f.write(src)
    cur = set()

    def cb(code, line):
        if code.co_filename == path:
            cur.add(line)

    steps = []
    mon.use_tool_id(tool, "verif-c02")
    mon.register_callback(tool, mon.events.LINE, cb)
    sys.path.insert(0, d)
    mod = None
    try:
        mon.set_events(tool, mon.events.LINE)
        try:
            mod = importlib.import_module(name)
        finally:
            mon.set_events(tool, 0)
        steps.append({"lines": sorted(cur), "res": ["ok", "import"]})
        for fn, args in calls:
            cur.clear()
            mon.set_events(tool, mon.events.LINE)
            try:
                res = _call(mod, fn, args)
            finally:
                mon.set_events(tool, 0)
            steps.append({"lines": sorted(cur), "res": res})
    finally:
        mon.set_events(tool, 0)
        mon.register_callback(tool, mon.events.LINE, None)
        mon.free_tool_id(tool)
        sys.path.remove(d)
        hinstr.cleanup(d, mod)
    # the coverable lines by an independent reading of the uninstrumented code objects
    import progen
    k = set()
    for co in progen.all_code_objects(compile(src, path, "exec")):
        for ins in dis.get_instructions(co):
            ln = ins.positions.lineno if ins.positions else None
            if isinstance(ln, int) and ln > 0 and ins.opname not in NOLINE and ins.opname != "CACHE":
                k.add(ln)
    gens = sorted({co.co_firstlineno for co in progen.all_code_objects(compile(src, path, "exec"))
                   if co.co_flags & 0x2A0})  # generator / coroutine / async generator
    return steps, sorted(k), gens


def e2e_instrumented(src, calls, metrics, start="reset"):
    """What pynguin reports: covered line ids -> (same file?, line number) after the import / each call.

    start = "reset": every call starts with `tracer.reset()` (a trace of this call alone);
    start = "init": what the executor does — `store_import_trace()` once after the import, `init_trace()` before
    every call (a trace of the import plus this call)."""
    import instr as hinstr
    from pynguin.ga import fitness_metrics as fm
    mod, sp, d = hinstr.instrument_module(src, metrics=tuple(metrics))
    try:
        tr = sp.instrumentation_tracer
        fname = mod.__file__

        def snap(res):
            trace = tr.get_trace()
            metas = []
            for lid in trace.covered_line_ids:
                m = sp.existing_lines.get(lid)
                if m is None:
                    metas.append([False, f"unregistered-id-{lid}"])
                else:
                    ln = m.line_number
                    metas.append([m.file_name == fname, ln if isinstance(ln, int) or ln is None else repr(ln)])
            try:
                linenos = [ln if isinstance(ln, int) or ln is None else repr(ln)
                           for ln in sp.lineids_to_linenos(trace.covered_line_ids)]
            except Exception as e:  # noqa: BLE001
                linenos = {"err": type(e).__name__}
            try:
                cov = list(Fraction(fm.compute_line_coverage(trace, sp)).as_integer_ratio())
            except AssertionError:
                cov = {"err": "AssertionError"}
            return {"metas": metas, "linenos": linenos, "cov": cov, "ncov": len(trace.covered_line_ids),
                    "res": res}

        steps = [snap(["ok", "import"])]
        if start == "init":
            tr.store_import_trace()
        for fn, args in calls:
            if start == "init":
                tr.init_trace()  # a fresh trace that holds the import trace
            else:
                tr.reset()  # a fresh trace without the import trace: exactly this call
            with tr:
                res = _call(mod, fn, args)
            steps.append(snap(res))
        existing = []
        for m in sp.existing_lines.values():
            ln = m.line_number
            existing.append([m.file_name == fname, ln if isinstance(ln, int) or ln is None else repr(ln)])
        return steps, existing
    finally:
        hinstr.cleanup(d, mod)


def e2e_run(case):
    try:
        steps_i, existing = e2e_instrumented(case["src"], case["calls"], case["metrics"], case.get("start", "reset"))
    except Exception as e:  # noqa: BLE001 - instrumentation failed: reported as such by the parent
        import traceback
        return {"instr_error": f"{type(e).__name__}: {e}"[:400], "tb": traceback.format_exc()[-1200:]}
    steps_p, coverable, gens = e2e_plain(case["src"], case["calls"])
    return {"instr": steps_i, "existing": existing, "plain": steps_p, "coverable": coverable, "gens": gens}


def child_main(inp, outp):
    vcommon.use_repo_sources()
    sys.setrecursionlimit(5000)
    with open(inp) as f:
        cases = [json.loads(l) for l in f if l.strip()]
    with open(outp, "a") as out:
        for c in cases:
            out.write(json.dumps(e2e_run(c)) + "\n")
            out.flush()


# ---------------------------------------------------------------------------------------------
class C02(PropertyCheck):
    prop_id = "C02"
    prop_modules = ["PynguinModel.Props.C02"]
    extra_modules = ["PynguinModel.Generated.C02Opcodes", "PynguinModel.Model.LineInstr",
                     "PynguinModel.Model.LineTracer"]
    driver = "Driver/C02.lean"
    n_quick = 400
    n_thorough = 4000
    n_search = 1500
    e2e_quick = 8
    e2e_thorough = 150
    e2e_dunder_quick = 5
    e2e_dunder_thorough = 60
    rule = ("syn: 1-3 code objects (1-2 files), 1-4 blocks of 1-12 entries (pseudo / artificial / original with "
            "line in a small range, None, excluded lines, RESUME / END_FOR / RETURN_GENERATOR), a history of 0-30 "
            "events on one tracer (block prefixes - earlier ones repeated on purpose -, enable/disable, "
            "temporarily_disable/_enable, with-tracer enter/exit, init_trace/store_import_trace/reset/new delegate, "
            "predicate evaluations running blocks); real: all basic blocks (pynguin's CFG) of the code objects of a generated module or of a "
            "stdlib module, random excluded lines, random histories; non-trivial = distinct case whose real "
            "instrumented layout has >= 2 trackers, >= 1 original instruction without tracker and >= 1 executed "
            "prefix that reports a line; e2e (extra_checks): distinct (module, call) executions whose reported "
            "lines are a non-empty proper subset of the registered lines")
    assumptions = [
        "an execution is a sequence of visits of basic blocks, each leaving the block after k original "
        "instructions (the theorems hold for every such sequence; which sequences CPython produces is observed "
        "end-to-end only)",
        "CPython 3.12 reports no LINE event for RESUME, RETURN_GENERATOR and END_FOR and for instructions "
        "without a line number (trusted; validated by the end-to-end comparison with sys.monitoring)",
        "the excluded-lines predicate (should_cover_line) is a parameter (property C08)",
        "one thread: `entered` stands for _current_thread_identifier == the running thread (threads: C32); an "
        "execution's trace starts from the import trace when it is started with init_trace (the import is part of "
        "every execution, as in pynguin's executor)",
    ]
    trusted_base_extra = [
        "Model/LineInstr.lean mirrors LineCoverageInstrumentation.visit_node/should_instrument_line/visit_line "
        "(python3_10/11/12), BasicBlockNode.instrumentation_original_instructions, SubjectProperties."
        "register_line/lineids_to_linenos, ExecutionTracer.track_line_visit, compute_line_coverage("
        "_fitness_is_covered)",
        "Model/LineTracer.lean mirrors InstrumentationExecutionTracer (proxy, forwards everything) -> "
        "ExecutionTracer._early_return/check/track_line_visit, enable/disable/temporarily_disable/temporarily_enable, "
        "__enter__/__exit__/stop, init_trace/store_import_trace/reset, ExecutionTrace.merge (covered_line_ids), "
        "executed_*_predicate (own evaluation inside temporarily_disable)",
        "translator harness/c02.py:translate (reads should_instrument_line of the live adapter for every opcode "
        "name of dis.opmap)",
        "sys.monitoring LINE events as ground truth of 'the interpreter executed the line'",
    ]

    def __init__(self, tier, seed):
        super().__init__(tier, seed)
        self._mat: dict = {}
        self._stdlib = None
        self._child = None
        self._e2e_cases: list = []
        self._tmp = None

    # -- translator ------------------------------------------------------------------------------
    def corpus(self):
        return [c for c in super().corpus() if c.get("kind") != "e2e"]

    def translate(self):
        # start the end-to-end child first: it runs while Lean builds and audits
        self._start_e2e()
        from types import SimpleNamespace
        import pynguin.instrumentation.version as version
        from pynguin.instrumentation.tracer import SubjectProperties
        adapter = version.LineCoverageInstrumentation(SubjectProperties())
        names = sorted(dis.opmap)
        skipped = []
        for n in names:
            a = adapter.should_instrument_line(SimpleNamespace(name=n, lineno=1), None)
            b = adapter.should_instrument_line(SimpleNamespace(name=n, lineno=7), 3)
            if not isinstance(a, bool) or a != b:
                raise RuntimeError(f"should_instrument_line is not a function of (opname, line differs): {n}")
            if not a:
                skipped.append(n)
        # the rule must still be 'a different line' for an ordinary opcode
        probe = SimpleNamespace(name="LOAD_FAST", lineno=5)
        if adapter.should_instrument_line(probe, 5) or not adapter.should_instrument_line(probe, 4):
            skipped.append("<same-line-rule-changed>")
        srcs = []
        for f in ("python3_10.py", "python3_11.py", "python3_12.py"):
            p = vcommon.REPO / "src" / "pynguin" / "instrumentation" / "version" / f
            srcs.append(f"-- source: src/pynguin/instrumentation/version/{f} sha256 "
                        f"{hashlib.sha256(p.read_bytes()).hexdigest()}")
        text = (
            "/-! GENERATED by harness/c02.py `translate()` from the live pynguin sources — do not edit.\n"
            "`skippedOpnames`: the opcode names `n` of this Python version for which the live\n"
            "`LineCoverageInstrumentation.should_instrument_line(Instr(n, lineno=1), lineno=None)` is `False`. -/\n"
            + "\n".join(srcs) + "\n"
            "namespace PynguinModel.Generated.C02\n\n"
            f"def pythonVersion : String := \"{sys.version_info[0]}.{sys.version_info[1]}\"\n\n"
            f"def nOpnames : Nat := {len(names)}\n\n"
            "def skippedOpnames : List String := [" + ", ".join(json.dumps(n) for n in skipped) + "]\n\n"
            "end PynguinModel.Generated.C02\n")
        if not GENERATED.exists() or GENERATED.read_text() != text:
            GENERATED.write_text(text)
        self.extra_coverage["skipped_opnames"] = skipped
        import time
        self.extra_coverage.setdefault("phase_s", {})["translate_done_at"] = round(time.time() - self.t0, 1)
        self._skipped = set(skipped)

    # -- generation ------------------------------------------------------------------------------
    def _syn_block(self, rng, lines):
        n = rng.randint(1, 12)
        out = []
        cur = rng.choice(lines)
        for _ in range(n):
            k = rng.random()
            if k < 0.12:
                out.append({"k": "pseudo"})
            elif k < 0.22:
                out.append({"k": "art"})
            else:
                if rng.random() < 0.45:
                    cur = rng.choice(lines)
                line = None if rng.random() < 0.12 else cur
                out.append({"k": "orig", "name": rng.choice(SYN_WEIGHTS), "line": line})
        return out

    def _gen_script(self, rng, n):
        """An execution history on ONE tracer: block visits interleaved with what the executor, the branch
        tracer and the observers do to the tracer (enable / disable, temporarily_disable / _enable,
        `with tracer:`, new traces, swapping the delegate, predicate evaluations that run code of the module).
        Earlier visits are repeated on purpose (the same line again after a disabled phase / in the next trace)."""
        trip = lambda: [rng.randrange(1 << 20), rng.randrange(1 << 20), rng.randrange(1 << 20)]  # noqa: E731
        evs, pool = [["enter"]], []

        def visit():
            t = rng.choice(pool) if pool and rng.random() < 0.45 else trip()
            pool.append(t)
            return t

        for _ in range(n):
            r = rng.random()
            if r < 0.50:
                evs.append(["v", *visit()])
            elif r < 0.62:
                evs.append(["p", rng.randrange(8), [visit() for _ in range(rng.randint(1, 2))]])
                if rng.random() < 0.6:  # the program evaluates the same comparison itself
                    evs.append(["v", *pool[-1]])
            elif r < 0.70:
                evs.append([rng.choice(["disable", "enable", "enable"])])
            elif r < 0.80:
                evs.append([rng.choice(["tdEnter", "tdEnter", "teEnter", "cmExit", "cmExit"])])
            elif r < 0.85:
                evs.append([rng.choice(["enter", "exit"])])
            else:
                if rng.random() < 0.7:
                    evs.append(["exit"])
                evs.append([rng.choice(["initTrace"] * 4 + ["reset"] * 3 + ["storeImportTrace", "setFresh"])])
                if rng.random() < 0.85:
                    evs.append(["enter"])
                if pool and rng.random() < 0.6:  # the next execution starts where the last one stopped
                    evs.append(["v", *pool[-1]])
        return evs

    def gen_case(self, rng):
        kind = rng.choice(["syn"] * 14 + ["real"] * 2 + ["stdlib"] * 4)
        self.count("kind:" + kind)
        if rng.random() < 0.25:  # one plain execution: `with tracer:` around block visits only
            script = [["enter"]] + [["v", rng.randrange(1 << 20), rng.randrange(1 << 20), rng.randrange(1 << 20)]
                                    for _ in range(rng.randint(0, 6 if kind == "syn" else 16))]
        else:
            script = self._gen_script(rng, rng.randint(0, 14) if kind == "syn" else rng.randint(6, 24))
        if kind == "syn":
            files = rng.choice([["a.py"], ["a.py"], ["a.py", "b.py"]])
            lines = list(range(1, rng.choice([3, 4, 6, 9])))
            cos = []
            for _ in range(rng.randint(1, 3)):
                cos.append({"file": rng.choice(files),
                            "nocover": sorted(rng.sample(lines, rng.choice([0, 0, 0, 1, 2]) % (len(lines) + 1))),
                            "blocks": [self._syn_block(rng, lines) for _ in range(rng.randint(1, 4))]})
            return {"kind": "syn", "cos": cos, "script": script}
        if kind == "real":
            import progen
            src = progen.gen_module(rng, n_funcs=rng.randint(1, 2))
            nl = src.count("\n")
            nocover = sorted(rng.sample(range(1, nl + 1), rng.choice([0, 0, 3, 8])))
            return {"kind": "real", "src": src, "nocover": nocover, "script": script}
        import progen
        mod = rng.choice(progen.STDLIB_MODULES)
        return {"kind": "stdlib", "module": mod, "start": rng.randrange(1 << 20), "count": rng.randint(3, 10),
                "nocover": sorted(rng.sample(range(1, 400), rng.choice([0, 0, 20]))), "script": script}

    # -- materialisation: explicit code objects / blocks / visits of a case ------------------------
    def _real_cfgs(self, case):
        """[(filename, cfg)] for the code objects a real / stdlib case refers to (pynguin's own CFG)."""
        import progen
        from bytecode import Bytecode
        import pynguin.instrumentation.version as version
        from pynguin.instrumentation import controlflow as cf
        if case["kind"] == "real":
            fname = "real.py"
            cos = progen.all_code_objects(compile(case["src"], fname, "exec"))
        else:
            if self._stdlib is None:
                self._stdlib = {}
            mod = case["module"]
            if mod not in self._stdlib:
                self._stdlib[mod] = [c for _, c in progen.stdlib_code_objects([mod])]
            allc = self._stdlib[mod]
            if not allc:
                return []
            start = case["start"] % len(allc)
            cos = allc[start:start + case["count"]]
            fname = None
        out = []
        for co in cos:
            cfg = cf.CFG.from_bytecode(version.add_for_loop_no_yield_nodes(Bytecode.from_code(co)))
            out.append((fname or cfg.bytecode_cfg.filename, cfg))
        return out

    def _materialise(self, case):
        key = id(case)
        hit = self._mat.get(key)
        if hit is not None and hit[0] is case:
            return hit[1]
        if case["kind"] == "syn":
            cos = case["cos"]
        else:
            cos = []
            for fname, cfg in self._real_cfgs(case):
                blocks = [_entries_of_block(n.basic_block) for n in cfg.basic_block_nodes]
                cos.append({"file": fname, "nocover": case["nocover"], "blocks": blocks})
        def visit(a, b, c):
            if not cos:
                return None
            ci = a % len(cos)
            blocks = cos[ci]["blocks"]
            if not blocks:
                return None
            bi = b % len(blocks)
            norig = sum(1 for e in blocks[bi] if e["k"] == "orig")
            return [ci, bi, c % (norig + 2)]

        raw = case.get("script")
        if raw is None:  # cases written before the tracer was part of the model: one `with tracer:` execution
            raw = [["enter"]] + [["v", *v] for v in case["visits"]]
        script = []
        for ev in raw:
            if ev[0] == "v":
                v = visit(*ev[1:])
                if v is not None:
                    script.append({"e": "blk", "v": v})
            elif ev[0] == "p":
                vs = [v for v in (visit(*t) for t in ev[2]) if v is not None]
                script.append({"e": "predicate", "vs": vs, "how": ev[1]})
            elif ev[0] in TRACER_OPS:
                script.append({"e": ev[0]})
            else:
                raise ValueError(f"unknown script event {ev!r}")
        m = {"cos": cos, "script": script}
        if len(self._mat) > 600:  # a quick run keeps all its cases (impl, model line, oracle use the same view)
            self._mat.clear()
        self._mat[key] = (case, m)
        return m

    # -- implementation adapter --------------------------------------------------------------------
    def impl(self, case):
        import time
        t0 = time.time()
        try:
            return self._impl(case)
        finally:
            ph = self.extra_coverage.setdefault("phase_s", {})
            ph["impl"] = round(ph.get("impl", 0.0) + time.time() - t0, 2)
            ph["since_start_at_last_impl"] = round(time.time() - self.t0, 1)

    def _impl(self, case):
        if case["kind"] == "e2e":
            return self._e2e_single(case)
        from bytecode import BasicBlock, Instr, SetLineno, TryBegin, TryEnd
        import pynguin.instrumentation.version as version
        from pynguin.ga import fitness_metrics as fm
        from pynguin.instrumentation import controlflow as cf
        from pynguin.instrumentation.tracer import SubjectProperties

        m = self._materialise(case)
        sp = SubjectProperties()
        adapter = version.LineCoverageInstrumentation(sp)
        real_blocks = []  # per code object: list of (BasicBlock, pre_art_ids)
        if case["kind"] == "syn":
            for ci, co in enumerate(m["cos"]):
                cfg = _FakeCfg(co["file"])
                ast_info = _Cover(co["nocover"]) if (co["nocover"] or ci % 2 == 0) else None
                blocks = []
                for bi, entries in enumerate(co["blocks"]):
                    bb = BasicBlock()
                    pre = set()
                    open_try = None
                    for e in entries:
                        if e["k"] == "pseudo":
                            if len(bb) % 3 == 2:
                                bb.append(SetLineno(3))
                            elif open_try is None:
                                open_try = TryBegin(BasicBlock(), False)
                                bb.append(open_try)
                            else:
                                bb.append(TryEnd(open_try))
                                open_try = None
                        elif e["k"] == "art":
                            a = cf.ArtificialInstr("NOP", lineno=1)
                            pre.add(id(a))
                            bb.append(a)
                        else:
                            arg = SYN_OPS[e["name"]]
                            bb.append(Instr(e["name"], lineno=e["line"]) if arg is None
                                      else Instr(e["name"], arg, lineno=e["line"]))
                    node = cf.BasicBlockNode(bi, bb)
                    try:
                        adapter.visit_node(ast_info, cfg, ci, node)
                    except Exception as e:  # noqa: BLE001 - the real adapter raised on a valid block
                        return {"err": type(e).__name__, "where": "visit_node", "msg": str(e)[:300]}
                    blocks.append((bb, pre))
                real_blocks.append(blocks)
        else:
            for ci, (fname, cfg) in enumerate(self._real_cfgs(case)):
                ast_info = _Cover(case["nocover"]) if (case["nocover"] or ci % 2 == 0) else None
                blocks = []
                for node in cfg.basic_block_nodes:
                    try:
                        adapter.visit_node(ast_info, cfg, ci, node)
                    except Exception as e:  # noqa: BLE001 - the real adapter raised on a real block
                        return {"err": type(e).__name__, "where": "visit_node", "msg": str(e)[:300]}
                    blocks.append((node.basic_block, set()))
                real_blocks.append(blocks)
        try:
            layout = [[_layout_of_block(bb, pre) for bb, pre in blocks] for blocks in real_blocks]
        except ValueError as e:  # bytecode rejects the instrumented block (e.g. code after a jump)
            return {"err": "ValueError", "where": "instrumented block is not a valid basic block", "msg": str(e)[:300]}
        registry = []
        for lid, meta in sp.existing_lines.items():
            ln = meta.line_number
            registry.append([lid, meta.file_name, ln if isinstance(ln, int) or ln is None else repr(ln)])
        # replay the history over the real instrumented blocks with the real proxy / tracer
        rep = _Replay(sp, layout)
        for ev in m["script"]:
            rep.event(ev)
        trace = sp.instrumentation_tracer.get_trace()
        covered = list(trace.covered_line_ids)
        rep.snaps.append(covered)
        calls = rep.calls
        tracer = sp.instrumentation_tracer
        metas = []
        for lid in covered:
            meta = sp.existing_lines.get(lid)
            metas.append(None if meta is None else
                         [meta.file_name, meta.line_number if isinstance(meta.line_number, int)
                          or meta.line_number is None else repr(meta.line_number)])
        try:
            linenos = [ln if isinstance(ln, int) or ln is None else repr(ln)
                       for ln in sp.lineids_to_linenos(trace.covered_line_ids)]
        except (KeyError, TypeError) as e:
            linenos = {"err": type(e).__name__}
        try:
            cov = list(Fraction(fm.compute_line_coverage(trace, sp)).as_integer_ratio())
        except AssertionError:
            cov = {"err": "AssertionError"}
        return {"blocks": layout, "registry": registry, "calls": calls, "covered": covered, "metas": metas,
                "snaps": rep.snaps, "aborted": rep.aborted, "enabled": not tracer.is_disabled(),
                "entered": rep.entered(), "open": len(rep.stack),
                "linenos": linenos, "coverage_float": cov,
                "all": bool(fm.compute_line_coverage_fitness_is_covered(trace, sp))}

    # -- model side --------------------------------------------------------------------------------
    def model_line(self, case):
        if case["kind"] == "e2e":
            return None
        m = self._materialise(case)
        return vcommon.jdump({"cos": [{"file": c["file"], "nocover": c["nocover"], "blocks": c["blocks"]}
                                      for c in m["cos"]],
                              "script": [{k: v for k, v in ev.items() if k != "how"} for ev in m["script"]]})

    def compare(self, case, io, mo):
        if "blocks" not in mo or "err" in io:
            return False
        if io["blocks"] != mo["blocks"]:
            return False
        if [[f, l] for _, f, l in io["registry"]] != mo["registry"] or \
                [i for i, _, _ in io["registry"]] != list(range(len(io["registry"]))):
            return False
        if io["calls"] != mo["calls"] or io["covered"] != mo["covered"] or io["snaps"] != mo["snaps"]:
            return False
        if any(io[k] != mo[k] for k in ("aborted", "enabled", "entered", "open")):
            return False
        if io["metas"] != mo["metas"] or io["linenos"] != mo["linenos"] or io["all"] != mo["all"]:
            return False
        num, den = mo["coverage"]
        return io["coverage_float"] == list(Fraction(num / den).as_integer_ratio())

    # -- the property itself on the implementation's output --------------------------------------------
    def oracle(self, case, io):
        if case["kind"] == "e2e":
            return self._e2e_oracle(case, io)
        m = self._materialise(case)
        fs = []
        sig = lambda cls, **kw: dict({"kind": "block", "class": cls}, **kw)  # noqa: E731
        if "err" in io:
            return [Failure(sig("adapter-raises", err=io["err"]),
                            f"line instrumentation of a valid basic block fails: {io['err']} ({io['where']}): {io['msg']}")]
        carriers = {}

        def lines_of(v):
            """the coverable lines the interpreter executes when the first k original instructions of a block run"""
            ci, bi, k = v
            co, out, left = m["cos"][ci], set(), k
            for e in co["blocks"][bi]:
                if left == 0:
                    break
                if e["k"] != "orig":
                    continue
                left -= 1
                if isinstance(e["line"], int) and e["line"] not in co["nocover"] and e["name"] not in NOLINE:
                    out.add((co["file"], e["line"]))
                carriers.setdefault((co["file"], e["line"]), set()).add(e["name"])
            return out

        # The property, execution by execution: a trace holds the lines of the import trace it was started from
        # plus the lines the program executed while the tracer was enabled inside `with tracer:`.  What the
        # tracer runs on its own (predicate evaluation) is no execution of the program.
        enabled, entered, stack = True, False, []
        base, cur, expected_snaps = set(), set(), []
        for ev in m["script"]:
            e = ev["e"]
            if e in STARTS:
                expected_snaps.append(set(cur))
            if e == "blk":
                ls = lines_of(ev["v"])
                if enabled and entered:
                    cur |= ls
            elif e == "predicate":
                for v in ev["vs"]:
                    lines_of(v)
            elif e in ("enable", "disable"):
                enabled = e == "enable"
            elif e == "tdEnter":
                stack.append("enable" if enabled else None)
                enabled = False
            elif e == "teEnter":
                stack.append(None if enabled else "disable")
                enabled = True
            elif e == "cmExit":
                todo = stack.pop() if stack else None
                if todo is not None:
                    enabled = todo == "enable"
            elif e in ("enter", "exit"):
                entered = e == "enter"
            elif e == "initTrace":
                cur = set(base)
            elif e == "storeImportTrace":
                base = set(cur)
            elif e == "reset":
                base, cur = set(), set()
            elif e == "setFresh":
                base, cur, enabled, entered = set(), set(), True, False
        expected_snaps.append(set(cur))
        files = {c["file"] for c in m["cos"]}
        by_id = {lid: (f, l) for lid, f, l in io["registry"]}
        short = [[ev["e"]] + ([ev["v"]] if "v" in ev else [ev["vs"]] if "vs" in ev else []) for ev in m["script"]]
        if len(io["snaps"]) != len(expected_snaps):
            fs.append(Failure(sig("trace-count"), f"{len(io['snaps'])} traces for {len(expected_snaps)} executions"))
        reported = set()
        for n, (ids, expected) in enumerate(zip(io["snaps"], expected_snaps)):
            reported = set()
            for lid in ids:
                if lid not in by_id:
                    fs.append(Failure(sig("unregistered-id"), "a covered line id is not in existing_lines"))
                    continue
                reported.add(by_id[lid])
                if by_id[lid][0] not in files:
                    fs.append(Failure(sig("foreign-file"),
                                      f"reported line {by_id[lid]} is not a line of an instrumented file"))
            where = f"trace {n + 1} of {len(expected_snaps)} of the history {short}"
            for f, l in sorted(reported - expected, key=str):
                if l is None:
                    cls = "line-none"
                elif carriers.get((f, l), set()) & NOLINE and not (carriers.get((f, l), set()) - NOLINE):
                    cls = "only-noline-opcodes"
                elif any(l in c["nocover"] for c in m["cos"] if c["file"] == f):
                    cls = "excluded-line"
                elif (f, l) in set().union(*expected_snaps):
                    cls = "not-in-this-execution"
                else:
                    cls = "other"
                fs.append(Failure(sig("reported-not-executed", line=cls),
                                  f"line {l!r} of {f} is reported covered but none of the instructions "
                                  f"{sorted(carriers.get((f, l), []))} the program executed while the tracer was "
                                  f"recording makes the interpreter execute that line ({where})",
                                  detail={"reported": sorted(reported, key=str), "expected": sorted(expected)}))
            for f, l in sorted(expected - reported):
                fs.append(Failure(sig("executed-not-reported"),
                                  f"line {l} of {f} was executed while the tracer was enabled and entered but is not "
                                  f"reported covered ({where})",
                                  detail={"reported": sorted(reported, key=str), "expected": sorted(expected)}))
            if fs:
                break
        if [tuple(x) if x is not None else None for x in io["metas"]] != [by_id.get(i) for i in io["covered"]]:
            fs.append(Failure(sig("metas-differ"), "existing_lines[id] differs from the registry listing"))
        if isinstance(io["linenos"], dict):
            fs.append(Failure(sig("linenos-raises", err=io["linenos"]["err"]),
                              f"lineids_to_linenos raised {io['linenos']['err']}"))
        elif set(map(str, io["linenos"])) != {str(by_id[i][1]) for i in io["covered"] if i in by_id}:
            fs.append(Failure(sig("linenos-differ"),
                              f"lineids_to_linenos gives {io['linenos']}, the registry says "
                              f"{sorted((by_id[i] for i in io['covered'] if i in by_id), key=str)}"))
        return fs[:4]

    def classify(self, case, io):
        if case["kind"] == "e2e" or "err" in io:
            return None
        flat = [it for blocks in io["blocks"] for b in blocks for it in b]
        nt = sum(1 for it in flat if isinstance(it, list) and it[0] == "t")
        bare = 0
        for blocks in io["blocks"]:
            for b in blocks:
                for j, it in enumerate(b):
                    if isinstance(it, list) and it[0] == "o" and not (
                            j > 0 and isinstance(b[j - 1], list) and b[j - 1][0] == "t"):
                        bare += 1
        if nt >= 2 and bare >= 1 and io["covered"]:
            return vcommon.jdump([io["blocks"], io["calls"]])
        return None

    # -- end-to-end --------------------------------------------------------------------------------
    def _gen_e2e(self, rng):
        import progen
        feats = rng.choice([None, None, {"for", "while", "comp", "try"}, {"try", "with", "match", "closure"},
                            {"comp", "closure", "for", "boolop", "chain"}])
        src = progen.gen_module(rng, n_funcs=rng.randint(1, 2), features=feats,
                                with_generator=rng.random() < 0.5, with_class=rng.random() < 0.35)
        names = [l.split("(")[0][4:] for l in src.splitlines() if l.startswith("def ")]
        calls = []
        for nm in names:
            for _ in range(rng.randint(2, 4)):
                calls.append([nm, [rng.randint(-3, 6) for _ in range(3)]])
        if "class K0" in src:
            calls.append(["lambda a, b, c: K0(a).method(a, b, c)", [rng.randint(-3, 6) for _ in range(3)]])
            calls.append(["lambda a: K0(a).get()", [rng.choice([-1, 0, 2])]])
        calls.append(["lambda v: _Ctx(v).__enter__()", [1]])
        return {"kind": "e2e", "src": src, "calls": calls,
                "metrics": rng.choice([["LINE"], ["LINE"], ["BRANCH", "LINE"]]),
                "start": rng.choice(["reset", "reset", "init"])}

    def _gen_e2e_dunder(self, rng):
        """A module whose classes define comparison / truth / membership / size dunder methods (mostly one-line
        bodies) and functions with predicates on such objects, plus one-line functions and properties; the calls
        repeat functions so that an execution starts on the line the previous one ended on.  With BRANCH+LINE the
        branch tracer evaluates every predicate itself (tracing disabled) before the program does."""
        pool = {"__eq__": "self.v == other.v", "__ne__": "self.v != other.v", "__lt__": "self.v < other.v",
                "__le__": "self.v <= other.v", "__gt__": "self.v > other.v", "__ge__": "self.v >= other.v",
                "__contains__": "other == self.v or other == self.v + 1", "__bool__": "self.v > 0",
                "__len__": "abs(self.v) % 4"}
        uses = {"__eq__": "W(a) == W(b)", "__ne__": "W(a) != W(b)", "__lt__": "W(a) < W(b)", "__le__": "W(a) <= W(b)",
                "__gt__": "W(a) > W(b)", "__ge__": "W(a) >= W(b)", "__contains__": "a in W(b)", "__bool__": "W(a)",
                "__len__": "W(b)"}
        lines, calls, fns = [], [], []
        for ci in range(rng.randint(1, 2)):
            w = f"W{ci}"
            names = rng.sample(sorted(pool), rng.randint(2, 5))
            lines += [f"class {w}:", "    def __init__(self, v):", "        self.v = v", ""]
            for nm in names:
                arg = "" if nm in ("__bool__", "__len__") else ", other"
                lines.append(f"    def {nm}(self{arg}):")
                if rng.random() < 0.25:
                    lines.append(f"        r = {pool[nm]}")
                    lines.append("        return r")
                else:
                    lines.append(f"        return {pool[nm]}")
                lines.append("")
            if "__eq__" in names:
                lines += ["    def __hash__(self):", "        return hash(self.v)", ""]
            lines += ["    @property", "    def val(self):", "        return self.v", "", ""]
            for fi, nm in enumerate(names):
                if nm == "__len__" and "__bool__" in names:
                    continue  # truth goes through __bool__; __len__ would only be run by the tracer's distance
                fn = f"f{ci}_{fi}"
                pred = uses[nm].replace("W(", w + "(")
                shape = rng.randrange(6)
                if shape == 0:
                    body = [f"    if {pred}:", "        return 1", "    return 0"]
                elif shape == 1:
                    body = [f"    if not {pred}:", "        a += 1", "    return a"]
                elif shape == 2:
                    body = ["    n = 0", f"    while {pred} and n < 3:", "        a += 1", "        n += 1", "    return n"]
                elif shape == 3:
                    body = [f"    return 1 if {pred} else 2"]
                elif shape == 4:
                    body = [f"    r = [k for k in range(b, b + 2) if {pred.replace('(a)', '(k)').replace('a in', 'k in')}]",
                            "    return len(r)"]
                else:
                    other = uses[rng.choice(names)].replace("W(", w + "(")
                    body = [f"    if {pred} and {other}:", "        return 2", f"    elif {pred} or {other}:",
                            "        return 1", "    return 0"]
                lines += [f"def {fn}(a, b):"] + body + ["", ""]
                fns.append(fn)
            lines += [f"def get{ci}(x):", f"    return {w}(x).val", "", ""]
            fns.append(f"get{ci}")
        lines += ["def ident(a, b=0):", "    return a", ""]
        fns.append("ident")
        for _ in range(rng.randint(6, 10)):
            fn = rng.choice(fns)
            for _ in range(rng.choice([1, 2, 2, 3])):  # the same function again: starts where the last call ended
                calls.append([fn, [rng.randint(-1, 3), rng.randint(-1, 3)] if fn.startswith("f") or fn == "ident"
                              else [rng.randint(-1, 3)]])
        return {"kind": "e2e", "src": "\n".join(lines), "calls": calls,
                "metrics": rng.choice([["BRANCH", "LINE"], ["BRANCH", "LINE"], ["BRANCH", "LINE"], ["LINE"]]),
                "start": rng.choice(["reset", "init"])}

    def _start_e2e(self):
        n = int(os.environ.get("VERIF_E2E", self.e2e_quick if self.tier == "quick" else self.e2e_thorough))
        rng = random.Random(self.seed * 7919 + 2)
        cases = [c for c in PropertyCheck.corpus(self) if c.get("kind") == "e2e"]
        cases += [self._gen_e2e(rng) for _ in range(n)]
        nd = int(os.environ.get("VERIF_E2E_DUNDER", self.e2e_dunder_quick if self.tier == "quick"
                                else self.e2e_dunder_thorough))
        cases += [self._gen_e2e_dunder(rng) for _ in range(nd)]
        self._e2e_cases = cases
        self._tmp = tempfile.mkdtemp(prefix="verif_c02_")
        self._child = self._spawn(cases, 0)

    def _spawn(self, cases, tag):
        inp = os.path.join(self._tmp, f"in{tag}.jsonl")
        outp = os.path.join(self._tmp, f"out{tag}.jsonl")
        with open(inp, "w") as f:
            for c in cases:
                f.write(json.dumps(c) + "\n")
        open(outp, "w").close()
        env = dict(os.environ, PYTHONHASHSEED="0")
        p = subprocess.Popen([vcommon.PY, os.path.abspath(__file__), "--e2e-child", inp, outp],
                             env=env, stdout=subprocess.DEVNULL, stderr=subprocess.PIPE, text=True,
                             cwd=self._tmp)
        return (p, outp, cases)

    def _collect(self, child):
        """Results of a child, one per case; a child that dies yields {'crash': ...} for the case it died on
        and is restarted for the rest."""
        results = []
        tag = 1
        while True:
            p, outp, cases = child
            try:
                _, err = p.communicate(timeout=300 + 120 * len(cases))
            except subprocess.TimeoutExpired:
                p.kill()
                _, err = p.communicate()
                err = (err or "") + "\n[timeout]"
            with open(outp) as f:
                got = [json.loads(l) for l in f if l.strip()]
            results += got
            if len(got) >= len(cases):
                return results
            results.append({"crash": p.returncode, "stderr": (err or "")[-1500:]})
            rest = cases[len(got) + 1:]
            if not rest:
                return results
            child = self._spawn(rest, tag)
            tag += 1

    def _e2e_single(self, case):
        """impl() for an e2e case (corpus replay, search phase): run it alone in a child."""
        import shutil
        own = self._tmp is None
        if own:
            self._tmp = tempfile.mkdtemp(prefix="verif_c02_")
        try:
            return self._collect(self._spawn([case], f"s{random.getrandbits(30)}"))[0]
        finally:
            if own:
                shutil.rmtree(self._tmp, ignore_errors=True)
                self._tmp = None

    def _e2e_oracle(self, case, out):
        sig = lambda cls, **kw: dict({"kind": "e2e", "class": cls}, **kw)  # noqa: E731
        short = {"metrics": case["metrics"], "start": case.get("start", "reset")}
        if "crash" in out:
            return [Failure(sig("instrumented-module-crashes"),
                            f"running the line-instrumented module kills the interpreter (rc={out['crash']})",
                            detail={"stderr": out.get("stderr", "")[-600:]})]
        if "instr_error" in out:
            return [Failure(sig("instrumentation-raises"),
                            f"instrumenting the module with {case['metrics']} raised {out['instr_error']}",
                            detail={"tb": out.get("tb")})]
        fs = []
        coverable = set(out["coverable"])
        gens = set(out["gens"])
        src_lines = case["src"].splitlines()
        for k, (si, sp_) in enumerate(zip(out["instr"], out["plain"])):
            what = "import" if k == 0 else f"call {case['calls'][k - 1]}"
            if any(not same for same, _ in si["metas"]):
                fs.append(Failure(sig("foreign-file"), f"{what}: a reported line belongs to another file", detail=short))
            rep = {ln for _, ln in si["metas"]}
            exe = set(sp_["lines"]) & coverable
            if k > 0 and case.get("start", "reset") == "init":
                # the executor's traces start from the import trace: the import is part of every execution
                exe |= set(out["plain"][0]["lines"]) & coverable
            self.count("e2e:step")
            if set(sp_["lines"]) - coverable:
                self.count("e2e:line-event-outside-coverable")
            for ln in sorted(rep - exe, key=str):
                if ln is None:
                    cls = "line-none"
                elif ln in gens:
                    cls = "generator-def-line"
                else:
                    cls = "other"
                text = src_lines[ln - 1].strip() if isinstance(ln, int) and 0 < ln <= len(src_lines) else ""
                fs.append(Failure(sig("reported-not-executed", line=cls),
                                  f"{what}: line {ln!r} ({text!r}) is reported covered, sys.monitoring saw no LINE "
                                  f"event for it on the uninstrumented module (results {si['res']} / {sp_['res']})",
                                  detail={"reported": sorted(rep, key=str), "executed": sorted(exe), **short}))
            for ln in sorted(exe - rep):
                fs.append(Failure(sig("executed-not-reported"),
                                  f"{what}: line {ln} ({src_lines[ln - 1].strip()!r}) was executed (LINE event) but "
                                  f"is not reported covered (results {si['res']} / {sp_['res']})",
                                  detail={"reported": sorted(rep, key=str), "executed": sorted(exe), **short}))
            if isinstance(si["linenos"], dict):
                fs.append(Failure(sig("linenos-raises", err=si["linenos"]["err"]),
                                  f"{what}: lineids_to_linenos raised {si['linenos']['err']}"))
            elif {str(x) for x in si["linenos"]} != {str(x) for x in rep}:
                fs.append(Failure(sig("linenos-differ"), f"{what}: lineids_to_linenos {si['linenos']} vs {sorted(rep, key=str)}"))
            if fs:
                break
        seen, uniq = set(), []
        for f in fs:
            s = vcommon.jdump(f.signature)
            if s not in seen:
                seen.add(s)
                uniq.append(f)
        return uniq[:4]

    def extra_checks(self):
        import shutil
        import time
        fs = []
        try:
            if self._child is None:
                return []
            t0 = time.time()
            results = self._collect(self._child)
            ph = self.extra_coverage.setdefault("phase_s", {})
            ph["e2e_wait"] = round(time.time() - t0, 2)
            ph["since_start_at_e2e_done"] = round(time.time() - self.t0, 1)
            self._child = None
            stats = {"modules": 0, "executions": 0, "lines_reported": 0, "calls_raising": 0}
            for case, out in zip(self._e2e_cases, results):
                self.evaluations += 1
                stats["modules"] += 1
                self.count("e2e:metrics=" + "+".join(case["metrics"]))
                for f in self._e2e_oracle(case, out):
                    f.case = case
                    fs.append(f)
                if "instr" in out:
                    nexist = len(out["existing"])
                    for k, si in enumerate(out["instr"]):
                        stats["executions"] += 1
                        stats["lines_reported"] += len(si["metas"])
                        if si["res"][0] == "exc":
                            stats["calls_raising"] += 1
                        if 0 < len(si["metas"]) < nexist:
                            key = vcommon.jdump([case["src"], case["calls"][k - 1] if k else "import"])
                            self.nontrivial.add(hashlib.sha1(key.encode()).hexdigest())
            self.extra_coverage["e2e"] = stats
        finally:
            if self._tmp:
                shutil.rmtree(self._tmp, ignore_errors=True)
                self._tmp = None
        return fs


if __name__ == "__main__":
    if len(sys.argv) == 4 and sys.argv[1] == "--e2e-child":
        child_main(sys.argv[2], sys.argv[3])
    else:
        run_main(C02)
