"""C24 — exported tests round-trip through the seed parser (DESIGN §5 C24).

One case = one history on the REAL code: the real `TestFactory` (random test cases over a real
`ModuleTestCluster`), real execution + `ExceptionTruncation` + `AssertionGenerator` (as the pipeline
does), the real `TestSuiteWriter.write`, then `seeding.parse_seed_module` on the written file
(`CstStatementDeserializer.deserialize_function` observed per function).

* correspondence: the written file is read with Python's `ast` and abstracted (`absify`, the compact
  array encoding below); `Driver/C24.lean` runs the model of `normalize_sut_references` +
  `deserialize_function` on it and predicts, per function, the parsed statements (node, bound
  variable, lifted assertions) and the re-rendered body; compared with what the real parser built.
  A third of the cases perturb the written file first (rebinding, unknown names, unsupported shapes,
  all assertion shapes, imports inside the function) so that the non-identity paths of the
  deserialiser are exercised too (correspondence only).
* oracle (independent of the model): for every exported `test_*` function, the code the parsed test
  case renders to (statement, then its assertions, in order) must be the exported body — compared as
  Python ASTs, modulo the documented canonical form of references to the module under test
  (`X` imported by the file's own `from m import X` ≡ `m_.X`) and the order of set-display elements.

Encoding (`absify`): expressions `["n",id] ["a",e,attr] ["c",f,[args]] ["kw",k,v] ["st",n,v]
["k",kind,tok] ["neg",e] ["l",[..]] ["t",[..]] ["s",[..]] ["d",[k,v,..]] ["lam",[params],body]
["cmp",l,op,r] ["or",l,r] ["f",[parts]] ["o",tag,[subs]]`; small statements `["=",[targets],v]
["e",e] ["as",t] ["im",[dotted],as] ["if",[dotted],[[name,as]..]] ["x",tag]`; lines `["s",small]
["w",[items],[smalls]]`.
"""
from __future__ import annotations

import ast
import atexit
import builtins
import importlib
import os
import re
import shutil
import sys
import tempfile
import textwrap

import vcommon
from vcommon import Failure, PropertyCheck, run_main

SUTS = {
    "c24shapes": '''
        """Shapes: keyword names that are also public names, a sized mutable class, enum, exceptions."""
        import enum

        limit = 10
        count = 0


        class Shade(enum.Enum):
            RED = 1
            BLUE = 2


        class AppError(Exception):
            pass


        class Stack:
            total = 0

            def __init__(self, first: int = 0):
                self.items = [first]
                self.size = 1

            def push(self, x: int) -> None:
                self.items.append(x)
                self.size += 1
                Stack.total += 1

            def pop(self) -> int:
                if not self.items:
                    raise AppError("empty")
                self.size -= 1
                return self.items.pop()

            def __len__(self) -> int:
                return len(self.items)


        def half(x: int) -> float:
            return x / 2


        def clamp(x: int, limit: int = 5) -> int:
            return min(x, limit)


        def shout(s: str) -> str:
            return s.upper() + "!"


        def shade(flag: bool) -> Shade:
            return Shade.RED if flag else Shade.BLUE


        def uniq(xs: list[int]) -> set[int]:
            return set(xs)


        def check(x: int) -> int:
            """Check.

            Raises:
                ValueError: if negative
            """
            if x < 0:
                raise ValueError("neg")
            if x > 100:
                raise AppError("big")
            return x


        def mk(n: int) -> Stack:
            return Stack(n)
    ''',
    "c24plain": '''
        """Plain functions: no name collisions, all literal kinds."""


        def add(a: int, b: int) -> int:
            return a + b


        def mean(a: float, b: float) -> float:
            return (a + b) / 2


        def words(s: str) -> list[str]:
            return s.split()


        def pair(a: int, s: str) -> tuple[int, str]:
            return (a, s)


        def table(n: int) -> dict[int, str]:
            return {i: str(i) for i in range(min(abs(n), 3))}


        def small_set(n: int) -> set[int]:
            return {n % 3, n % 5, 8, 1}


        def raw(s: str) -> bytes:
            return s.encode("utf-8", "replace")


        def is_even(n: int) -> bool:
            return n % 2 == 0


        def nothing(n: int) -> None:
            return None


        def ratio(a: int, b: int) -> float:
            """Ratio.

            Raises:
                ZeroDivisionError: if b is zero
            """
            return a / b


        def nested(n: int) -> list[tuple[int, dict[str, bool]]]:
            return [(n, {"even": n % 2 == 0})]
    ''',
    "c24objs": '''
        """Objects with public fields, a nested class, a callable parameter."""
        from collections.abc import Callable


        class Point:
            origin_count = 0

            def __init__(self, x: int, y: int = 0):
                self.x = x
                self.y = y
                self.tag = "p"

            def moved(self, dx: int) -> "Point":
                return Point(self.x + dx, self.y)

            def shift(self, dx: int) -> None:
                self.x += dx

            def norm1(self) -> int:
                return abs(self.x) + abs(self.y)


        class Outer:
            class Inner:
                def __init__(self, v: int):
                    self.v = v

            def __init__(self):
                self.made = 0

            def make(self, v: int) -> "Outer.Inner":
                self.made += 1
                return Outer.Inner(v)


        def apply(f: Callable[[int], int], x: int) -> int:
            return f(x)


        def inner(v: int) -> Outer.Inner:
            return Outer.Inner(v)


        def origin() -> Point:
            Point.origin_count += 1
            return Point(0, 0)


        def dist(p: Point, q: Point) -> int:
            return abs(p.x - q.x) + abs(p.y - q.y)


        def fail_big(p: Point) -> int:
            if p.x > 50:
                raise OverflowError("too far")
            return p.x
    ''',
}


# ---------------------------------------------------------------------------------------------
# ast -> abstract JSON
# ---------------------------------------------------------------------------------------------
class Unmodelled(Exception):
    pass


_CMP = {ast.Eq: "eq", ast.Is: "is"}


def abs_expr(n):  # noqa: C901, PLR0911, PLR0912
    if isinstance(n, ast.Name):
        return ["n", n.id]
    if isinstance(n, ast.Attribute):
        return ["a", abs_expr(n.value), n.attr]
    if isinstance(n, ast.Call):
        args = []
        for a in n.args:
            args.append(["st", 1, abs_expr(a.value)] if isinstance(a, ast.Starred) else abs_expr(a))
        for k in n.keywords:
            args.append(["st", 2, abs_expr(k.value)] if k.arg is None else ["kw", k.arg, abs_expr(k.value)])
        return ["c", abs_expr(n.func), args]
    if isinstance(n, ast.Constant):
        v = n.value
        if v is True:
            return ["k", "true", ""]
        if v is False:
            return ["k", "false", ""]
        if v is None:
            return ["k", "none", ""]
        if isinstance(v, int):
            return ["k", "int", str(v)] if v.bit_length() < 10000 else ["k", "int", format(v, "d")]
        if isinstance(v, float):
            return ["k", "float", repr(v)]
        if isinstance(v, str):
            return ["k", "str", ascii(v)]
        if isinstance(v, bytes):
            return ["k", "bytes", ascii(v)]
        raise Unmodelled(f"constant {type(v).__name__}")
    if isinstance(n, ast.UnaryOp):
        if isinstance(n.op, ast.USub):
            return ["neg", abs_expr(n.operand)]
        if isinstance(n.op, ast.UAdd):
            raise Unmodelled("unary plus")
        return ["o", type(n.op).__name__, [abs_expr(n.operand)]]
    if isinstance(n, (ast.List, ast.Tuple, ast.Set)):
        if any(isinstance(e, ast.Starred) for e in n.elts):
            raise Unmodelled("starred element")
        return [{ast.List: "l", ast.Tuple: "t", ast.Set: "s"}[type(n)], [abs_expr(e) for e in n.elts]]
    if isinstance(n, ast.Dict):
        if any(k is None for k in n.keys):
            raise Unmodelled("dict unpacking")
        flat = []
        for k, v in zip(n.keys, n.values):
            flat += [abs_expr(k), abs_expr(v)]
        return ["d", flat]
    if isinstance(n, ast.Lambda):
        a = n.args
        if a.defaults or a.kw_defaults or a.posonlyargs and False:
            raise Unmodelled("lambda defaults")
        if any(d is not None for d in a.kw_defaults):
            raise Unmodelled("lambda defaults")
        # libcst visits params, star_arg, kwonly_params, star_kwarg, posonly_params in that field order
        params = [x.arg for x in a.args] + ([a.vararg.arg] if a.vararg else []) + [x.arg for x in a.kwonlyargs] \
            + ([a.kwarg.arg] if a.kwarg else []) + [x.arg for x in a.posonlyargs]
        return ["lam", params, abs_expr(n.body)]
    if isinstance(n, ast.Compare):
        if len(n.ops) == 1:
            return ["cmp", abs_expr(n.left), _CMP.get(type(n.ops[0]), type(n.ops[0]).__name__),
                    abs_expr(n.comparators[0])]
        return ["o", "Compare:" + ",".join(type(o).__name__ for o in n.ops),
                [abs_expr(n.left)] + [abs_expr(c) for c in n.comparators]]
    if isinstance(n, ast.BoolOp):
        vals = [abs_expr(v) for v in n.values]
        if isinstance(n.op, ast.Or):
            out = vals[0]
            for v in vals[1:]:
                out = ["or", out, v]
            return out
        return ["o", "And", vals]
    if isinstance(n, ast.JoinedStr):
        parts = []
        for p in n.values:
            if isinstance(p, ast.Constant):
                parts.append(["k", "str", ascii(p.value)])
            elif isinstance(p, ast.FormattedValue) and p.conversion == -1 and p.format_spec is None:
                parts.append(abs_expr(p.value))
            else:
                raise Unmodelled("f-string conversion")
        return ["f", parts]
    if isinstance(n, (ast.ListComp, ast.SetComp, ast.DictComp, ast.GeneratorExp, ast.NamedExpr, ast.Await,
                      ast.Yield, ast.YieldFrom, ast.Starred)):
        raise Unmodelled(type(n).__name__)
    if isinstance(n, ast.BinOp):
        return ["o", "BinOp:" + type(n.op).__name__, [abs_expr(n.left), abs_expr(n.right)]]
    if isinstance(n, ast.Subscript):
        return ["o", "Subscript", [abs_expr(n.value), abs_expr(n.slice)]]
    if isinstance(n, ast.Slice):
        return ["o", "Slice", [abs_expr(x) for x in (n.lower, n.upper, n.step) if x is not None]]
    if isinstance(n, ast.IfExp):
        # libcst's IfExp field order: body, test, orelse
        return ["o", "IfExp", [abs_expr(n.body), abs_expr(n.test), abs_expr(n.orelse)]]
    raise Unmodelled(type(n).__name__)


def abs_small(s):  # noqa: PLR0911
    if isinstance(s, ast.Assign):
        return ["=", [abs_expr(t) for t in s.targets], abs_expr(s.value)]
    if isinstance(s, ast.Expr):
        return ["e", abs_expr(s.value)]
    if isinstance(s, ast.Assert):
        if s.msg is not None:
            raise Unmodelled("assert message")
        return ["as", abs_expr(s.test)]
    if isinstance(s, ast.Import):
        if len(s.names) != 1:
            raise Unmodelled("multi-alias import")
        return ["im", s.names[0].name.split("."), s.names[0].asname]
    if isinstance(s, ast.ImportFrom):
        if s.level or s.module is None or any(a.name == "*" for a in s.names):
            raise Unmodelled("relative/star import")
        return ["if", s.module.split("."), [[a.name, a.asname] for a in s.names]]
    if isinstance(s, (ast.Pass, ast.Return, ast.Delete, ast.AugAssign, ast.AnnAssign, ast.Raise, ast.Global,
                      ast.Nonlocal, ast.Break, ast.Continue)):
        return ["x", type(s).__name__]
    raise Unmodelled(type(s).__name__)


def abs_line(s):
    if isinstance(s, ast.With):
        if any(i.optional_vars is not None for i in s.items):
            raise Unmodelled("with-as")
        body = []
        for b in s.body:
            if isinstance(b, (ast.Import, ast.ImportFrom)) or not isinstance(b, ast.stmt) or hasattr(b, "body"):
                raise Unmodelled("with body")
            body.append(abs_small(b))
        return ["w", [abs_expr(i.context_expr) for i in s.items], body]
    if hasattr(s, "body"):
        raise Unmodelled(type(s).__name__)
    return ["s", abs_small(s)]


def abs_header(stmts):
    out = []
    for s in stmts:
        try:
            out.append(abs_small(s) if not hasattr(s, "body") else ["x", type(s).__name__])
        except Unmodelled:
            out.append(["x", type(s).__name__])
    return out


def code_lines(code: str):
    """abstract lines of a piece of code, or None when a construct is outside the model's grammar"""
    try:
        return [abs_line(s) for s in ast.parse(code).body]
    except Unmodelled:
        return None


# ---------------------------------------------------------------------------------------------
# independent canonical form for the oracle (Python ASTs)
# ---------------------------------------------------------------------------------------------
class _Canon(ast.NodeTransformer):
    """`X` imported by the file's own `from m import X` ≡ `alias.X`; `m.X` ≡ `alias.X`; set displays sorted."""

    def __init__(self, imported, module, alias):
        self.imported, self.module, self.alias = imported, module, alias

    def visit_Name(self, node):
        if isinstance(node.ctx, ast.Load):
            if node.id in self.imported:
                return ast.Attribute(ast.Name(self.alias, ast.Load()), self.imported[node.id], ast.Load())
            if node.id == self.module and "." not in self.module:
                return ast.Name(self.alias, ast.Load())
        return node

    def visit_Set(self, node):
        self.generic_visit(node)
        node.elts = sorted(node.elts, key=ast.dump)
        return node


def canon_lines(code: str, imported, module, alias):
    tree = ast.parse(code)
    out = []
    for s in tree.body:
        s = _Canon(imported, module, alias).visit(s)
        out.append((ast.dump(s), isinstance(s, ast.Assert), ast.unparse(s)))
    return out


# ---------------------------------------------------------------------------------------------
class Env:
    pass


PERTURBATIONS = [
    "{v} = 7", "{v} = {alias}.{fn}()", "zz_unknown(1)", "qq_a, qq_b = 1, 2", "pass", "{v}.attr_z = 3",
    "assert {v}", "assert {v} is None", "assert {v} == 1.5", "assert {v} == [1, {{2: 'x'}}, (3,), set()]",
    "assert {v} or {w}", "assert zz_unknown == 1", "assert len({v}) == 3", "assert isinstance({v}, int)",
    "assert isinstance({v}, {alias}.Qq.Rr)", "assert isinstance({v}, Unknown)", "assert {v} == -4",
    "assert {v} is True", "assert {v} == [[[[[1]]]]]", "assert {v} != 3", "assert {v}.x == 3",
    "assert {v} == {{8, 1}}", "assert len({v}.items) == 1", "assert {v} == 'a\\nb'", "assert {v} == b'\\x00'",
    "import os", "import os.path as osp", "from {mod} import {fn} as hh", "import {mod} as mm",
    "hh({v})", "mm.{fn}({v})", "{v} = lambda qa, *qb: {w}", "{alias}.{fn}({v})", "{v}; {w}",
    "with pytest.raises(KeyError):\n        zq_1 = {alias}.{fn}({v})", "{fn}({v})", "{alias}.{fn}({fn}={v})",
    "assert {v} == (1,)", "assert {v} == {{}}", "assert {v} == -2.5", "assert not {v}",
]


class C24(PropertyCheck):
    prop_id = "C24"
    level = "proof"
    prop_modules = ["PynguinModel.Props.C24"]
    extra_modules = ["PynguinModel.Model.SeedRoundTrip"]
    driver = "Driver/C24.lean"
    n_quick = 32
    n_thorough = 900
    n_search = 300
    rule = ("one case = a suite of 1-5 test cases made by the real TestFactory over one of three small modules "
            "(random seed, chromosome length 4-30), executed, truncated at the first exception and given "
            "assertions by the real AssertionGenerator (SIMPLE) as in the pipeline, written by "
            "TestSuiteWriter.write (x no_xfail x black x seed fixture) and parsed back by parse_seed_module "
            "(x create_assertions); 45% of the suites additionally contain 1-3 test cases with the SAME statements as "
            "an earlier one (clones, and clones whose recorded assertion values are shifted = the same calls traced "
            "at another module state); a third of the cases perturb the written file (correspondence only); "
            "non-trivial = the written file has an assertion, a pytest.raises block, a lambda or a keyword "
            "argument naming a public module member")
    assumptions = [
        "rendered code is compared as Python ASTs (formatting, comments and quote style are not test code)",
        "`X` imported by the written file's own `from <module> import X` and `<alias>.X` denote the same reference "
        "(the parser's documented canonical form); element order inside a set display is not significant",
        "the written file is parsed with the same configuration (module name) that wrote it",
    ]
    trusted_base_extra = ["Python's `ast` as the reader of the written / re-rendered code (abstraction `absify`)"]

    def __init__(self, tier, seed):
        super().__init__(tier, seed)
        self._tmp = None
        self._envs = {}
        self._abs = {}
        self._next = 0

    # -- environment -----------------------------------------------------------------------------
    def _scratch(self):
        if self._tmp is None:
            self._tmp = tempfile.mkdtemp(prefix="c24-")
            atexit.register(shutil.rmtree, self._tmp, True)
            os.mkdir(os.path.join(self._tmp, "sut"))
            for name, src in SUTS.items():
                with open(os.path.join(self._tmp, "sut", name + ".py"), "w") as f:
                    f.write(textwrap.dedent(src).lstrip())
            sys.path.insert(0, os.path.join(self._tmp, "sut"))
            importlib.invalidate_caches()
            import logging
            logging.getLogger("pynguin").setLevel(logging.CRITICAL)
        return self._tmp

    def _env(self, name):
        if name in self._envs:
            return self._envs[name]
        import pynguin.configuration as config
        import pynguin.ga.testcasefactory as tcf
        import pynguin.testcase.testfactory as tfm
        from pynguin.analyses.module import generate_test_cluster
        from pynguin.instrumentation.tracer import SubjectProperties
        from pynguin.testcase.execution import TestCaseExecutor
        self._scratch()
        config.configuration.module_name = name
        config.configuration.project_path = os.path.join(self._tmp, "sut")
        e = Env()
        e.name = name
        e.module = importlib.import_module(name)
        e.cluster = generate_test_cluster(name)
        e.factory = tfm.TestFactory(e.cluster)
        e.tcfactory = tcf.RandomLengthTestCaseFactory(e.factory, e.cluster)
        e.sp = SubjectProperties()
        e.executor = TestCaseExecutor(e.sp)
        e.public = sorted(n for n in dir(e.module) if not n.startswith("_"))
        self._envs[name] = e
        return e

    # -- generation ------------------------------------------------------------------------------
    def gen_case(self, rng):
        case = {"sut": rng.choice(["c24shapes", "c24shapes", "c24plain", "c24objs"]),
                "seed": rng.randrange(1 << 30), "n": rng.choice([1, 2, 2, 3, 5]),
                "len": rng.choice([4, 8, 8, 15, 30]), "assertions": rng.random() < 0.8,
                "ca": rng.random() < 0.85, "no_xfail": rng.random() < 0.3, "black": rng.random() < 0.5,
                "wseed": rng.choice([None, None, 7]), "perturb": []}
        if rng.random() < 0.33:
            case["perturb"] = [[rng.randrange(1 << 16), rng.randrange(1 << 16), rng.randrange(len(PERTURBATIONS)),
                                rng.randrange(1 << 16), rng.randrange(1 << 16)]
                               for _ in range(rng.choice([1, 2, 4]))]
        # test functions with the SAME statements as an earlier one: clones (they survive crossover / a
        # switched-off minimisation) and re-traced clones (same calls observed at another module state:
        # equal statements, different assertion values); [pick, mode, salt], mode 0 = clone, 1 = re-traced
        case["dup"] = []
        if rng.random() < 0.45:
            case["dup"] = [[rng.randrange(1 << 16), rng.choice([0, 1, 1]), rng.randrange(1 << 16)]
                           for _ in range(rng.choice([1, 1, 2, 3]))]
        return case

    def _make_suite(self, env, case):
        import pynguin.assertion.assertiongenerator as ag
        import pynguin.configuration as config
        import pynguin.ga.postprocess as pp
        import pynguin.ga.testcasechromosome as tcc
        import pynguin.ga.testsuitechromosome as tsc
        from pynguin.utils import randomness
        config.configuration.module_name = env.name
        config.configuration.search_algorithm.chromosome_length = case["len"]
        randomness.RNG.seed(case["seed"])
        suite = tsc.TestSuiteChromosome()
        for _ in range(case["n"]):
            chrom = tcc.TestCaseChromosome(env.tcfactory.get_test_case(), env.factory)
            chrom.set_last_execution_result(env.executor.execute(chrom.test_case))
            suite.add_test_case_chromosome(chrom)
        suite.accept(pp.ExceptionTruncation())
        if case["assertions"]:
            suite.accept(ag.AssertionGenerator(env.executor, filtering_executor=None))
        for pick, mode, salt in case.get("dup", []):
            if suite.size() == 0:
                break
            twin = suite.get_test_case_chromosome(pick % suite.size()).clone()
            if mode == 1:
                self._retrace(twin.test_case, salt)
            suite.add_test_case_chromosome(twin)
        return suite

    @staticmethod
    def _retrace(test_case, salt):
        """the same statements traced at another state: every recorded scalar value / length is shifted"""
        import libcst as cst
        import pynguin.assertion.assertion as ass
        for st in test_case.statements():
            # the value of a literal assignment does not depend on any state: its own assertion stays
            literal = "(" not in cst.Module(body=[st.node]).code
            for i, a in enumerate(list(st.assertions)):
                if literal and a.source == st.bound_variable:
                    continue
                if isinstance(a, ass.ObjectAssertion):
                    v = a.object
                    if isinstance(v, bool):
                        st.assertions[i] = ass.ObjectAssertion(a.source, not v)
                    elif isinstance(v, int):
                        st.assertions[i] = ass.ObjectAssertion(a.source, v + 1 + salt % 7)
                    elif isinstance(v, str):
                        st.assertions[i] = ass.ObjectAssertion(a.source, v + "x" * (1 + salt % 2))
                elif isinstance(a, ass.FloatAssertion):
                    st.assertions[i] = ass.FloatAssertion(a.source, a.value + 1.5 + salt % 3)
                elif isinstance(a, ass.CollectionLengthAssertion):
                    st.assertions[i] = ass.CollectionLengthAssertion(a.source, a.length + 1 + salt % 2)

    @staticmethod
    def _perturb(text, env, case):
        """insert extra statements into the written test functions (deterministic in the case)"""
        lines = text.split("\n")
        for (fpick, lpick, kind, vpick, wpick) in case["perturb"]:
            fn_starts = [i for i, l in enumerate(lines) if l.startswith("def test_")]
            if not fn_starts:
                break
            start = fn_starts[fpick % len(fn_starts)]
            end = start + 1
            while end < len(lines) and (lines[end].startswith("    ") or not lines[end].strip()):
                end += 1
            while end > start + 1 and not lines[end - 1].strip():
                end -= 1
            body_idx = [i for i in range(start + 1, end) if lines[i].startswith("    ") and not lines[i].startswith("     ")]
            bound = sorted({l.split("=")[0].strip() for l in lines[start + 1:end]
                            if l.startswith("    var_") and " = " in l}) or ["var_0"]
            funcs = [n for n in env.public if callable(getattr(env.module, n)) and n[0].islower() and n != "enum"]
            stmt = PERTURBATIONS[kind].format(v=bound[vpick % len(bound)], w=bound[wpick % len(bound)],
                                              alias=env.name + "_", mod=env.name, fn=funcs[vpick % len(funcs)])
            at = body_idx[lpick % len(body_idx)] + 1 if body_idx else start + 1
            # never split a multi-line statement (black wraps long calls): insert only after a complete statement
            probe = "\n".join(lines[start:at])
            try:
                ast.parse(textwrap.dedent(probe) + "\n")
            except SyntaxError:
                at = start + 1
            lines[at:at] = ["    " + stmt]
        return "\n".join(lines)

    # -- the real thing ---------------------------------------------------------------------------
    def impl(self, case):
        case.pop("_io", None)
        io = self._impl(case)
        case["_io"] = io  # handed to model_line in the same run; removed again by oracle()
        return io

    def _impl(self, case):
        import libcst as cst
        import pynguin.configuration as config
        import pynguin.large_language_model.parsing.deserializer as des
        import pynguin.testcase.export as export
        from pynguin.analyses.seeding import parse_seed_module
        from pynguin.assertion.assertion_to_ast import assertion_to_cst
        from pynguin.utils.naming import get_module_alias

        env = self._env(case["sut"])
        self.count("sut:" + case["sut"])
        suite = self._make_suite(env, case)
        out_dir = tempfile.mkdtemp(prefix="w-", dir=self._scratch())
        writer = export.TestSuiteWriter(no_xfail=case["no_xfail"])
        path = writer.write(suite, env.name, out_dir, project_path=os.path.join(self._tmp, "sut"),
                            format_with_black=case["black"], seed=case["wseed"], subject_properties=None)
        with open(path, encoding="utf-8") as f:
            text = f.read()
        shutil.rmtree(out_dir, ignore_errors=True)
        if case["perturb"]:
            text = self._perturb(text, env, case)
            self.count("kind:perturbed")
        alias = get_module_alias(env.name)
        io = {"text": text, "alias": alias, "module": env.name, "ca": case["ca"]}
        try:
            tree = ast.parse(text)
        except SyntaxError as e:
            io["syntax_error"] = str(e)
            return io
        fns = [s for s in tree.body if isinstance(s, ast.FunctionDef) and s.name.startswith(("test_", "seed_test_"))]
        first = min((tree.body.index(f) for f in fns), default=len(tree.body))
        io["header"] = abs_header(tree.body[:first])
        io["imported"] = {}
        for s in tree.body:
            if isinstance(s, ast.ImportFrom) and s.module == env.name and not s.level:
                for a in s.names:
                    io["imported"][a.asname or a.name] = a.name
        src_lines = text.split("\n")
        io["fns"] = []
        for f in fns:
            body_src = textwrap.dedent("\n".join(src_lines[f.body[0].lineno - 1:f.end_lineno])) + "\n"
            try:
                body = [abs_line(s) for s in f.body]
            except Unmodelled as e:
                body = None
                self.count("unmodelled:" + str(e))
            io["fns"].append({"name": f.name, "body": body, "src": body_src,
                              "xfail": any("xfail" in ast.unparse(d) for d in f.decorator_list)})

        # parse it back with the real seed parser, observing the per-function deserialisation
        seen = []
        orig = des.CstStatementDeserializer.deserialize_function

        def spy(self_, fn):
            res = orig(self_, fn)
            seen.append((fn.name.value, res.test_case))
            return res

        config.configuration.module_name = env.name
        des.CstStatementDeserializer.deserialize_function = spy
        try:
            try:
                got = parse_seed_module(text, env.cluster, create_assertions=case["ca"])
            except Exception as e:  # noqa: BLE001 - the parser must not raise on a file pynguin wrote
                io["parse_error"] = f"{type(e).__name__}: {e}"
                return io
        finally:
            des.CstStatementDeserializer.deserialize_function = orig
        io["n_returned"] = len(got)
        # which of the deserialised functions (file order) came back, and what the returned test cases render to
        pos = {id(tc): i for i, (_, tc) in enumerate(seen)}
        io["returned"] = [pos.get(id(t), -1) for t in got]
        io["returned_code"] = []
        for t in got:
            parts = []
            for st in t.statements():
                parts.append(cst.Module(body=[st.node]).code)
                for a in st.assertions:
                    node = assertion_to_cst(a)
                    parts.append(cst.Module(body=[node]).code if node is not None else "")
            io["returned_code"].append("".join(parts))
        if case.get("dup"):
            self.count("kind:duplicate-statements")
        io["parsed"] = []
        for name, tc in seen:
            stmts, rendered = [], []
            for st in tc.statements():
                code = cst.Module(body=[st.node]).code
                rendered.append(code)
                asserts = []
                for a in st.assertions:
                    node = assertion_to_cst(a)
                    acode = cst.Module(body=[node]).code if node is not None else ""
                    rendered.append(acode)
                    try:
                        t = abs_expr(ast.parse(acode).body[0].test)
                    except (Unmodelled, SyntaxError, IndexError, AttributeError):
                        t = None
                    asserts.append({"k": type(a).__name__, "src": a.source.split("."), "t": t})
                nodes = code_lines(code) if self._parses(code) else None
                stmts.append({"node": nodes[0] if nodes is not None and len(nodes) == 1 else None,
                              "bound": st.bound_variable, "asserts": asserts, "code": code})
            io["parsed"].append({"name": name, "stmts": stmts, "code": "".join(rendered)})
        return io

    @staticmethod
    def _parses(code):
        try:
            ast.parse(code)
            return True
        except SyntaxError:
            return False

    # -- model side --------------------------------------------------------------------------------
    def model_line(self, case):
        io = case.get("_io")
        if io is None:
            io = self._impl(case)
        if "fns" not in io:
            return None
        amb = set(dir(builtins)) | {"pytest", io["alias"]} | set(vars(self._env(case["sut"]).module))
        env = self._env(case["sut"])
        for obj in env.cluster.accessible_objects_under_test:
            fn = getattr(obj, "function_name", None)
            if fn:
                amb.add(fn)
            owner = getattr(obj, "owner", None)
            if owner is not None and getattr(owner, "name", None):
                amb.add(owner.name)
        return vcommon.jdump({"alias": io["alias"], "module": io["module"].split("."), "ambient": sorted(amb),
                              "builtins": sorted(dir(builtins)), "ca": io["ca"], "header": io["header"],
                              "fns": [f["body"] if f["body"] is not None else [] for f in io["fns"]]})

    @classmethod
    def _unordered_sets(cls, t):
        """an abstract expression with the elements of every set display sorted: since /repo c636a34 `_value_to_cst`
        emits set elements ordered by their source text, the model keeps the literal's order; the order of a set
        display is not significant (see `assumptions`)"""
        if isinstance(t, list):
            out = [cls._unordered_sets(x) for x in t]
            if len(out) == 2 and out[0] == "s" and isinstance(out[1], list):
                out[1] = sorted(out[1], key=vcommon.jdump)
            return out
        return t

    def compare(self, case, io, mo):
        if "syntax_error" in io:
            return True  # a perturbation broke the file; nothing to compare
        if "parse_error" in io or "bad-op" in mo or "unparsable" in mo:
            return False
        if len(io["parsed"]) != len(io["fns"]) or len(mo["fns"]) != len(io["fns"]):
            return False
        ok = True
        for f, p, m in zip(io["fns"], io["parsed"], mo["fns"]):
            if f["body"] is None:
                continue
            got = [{"node": s["node"], "bound": s["bound"],
                    "asserts": [{"k": a["k"], "src": a["src"], "t": self._unordered_sets(a["t"])}
                                for a in s["asserts"]]}
                   for s in p["stmts"]]
            want = [{"node": s["node"], "bound": s["bound"],
                     "asserts": [{"k": a["k"], "src": a["src"], "t": self._unordered_sets(a["t"])}
                                 for a in s["asserts"]]}
                    for s in m["stmts"]]
            if got != want:
                ok = False
        # the returned list: one test case per function with an admitted statement, in file order
        if all(f["body"] is not None for f in io["fns"]) and io.get("returned") != mo.get("returned"):
            ok = False
        return ok

    # -- the property on the implementation's behaviour ------------------------------------------------
    def oracle(self, case, io):
        case.pop("_io", None)
        fs = []
        if case["perturb"] or "syntax_error" in io:
            return fs
        if "parse_error" in io:
            return [Failure({"class": "parser-raises"}, f"parse_seed_module raises on the written file: "
                            f"{io['parse_error']}", detail=io["text"])]
        by_name = {p["name"]: p for p in io["parsed"]}
        n_nonempty = 0
        returned = []
        for code in io.get("returned_code", []):
            try:
                returned.append([g[0] for g in canon_lines(code, io["imported"], io["module"], io["alias"])])
            except SyntaxError:
                returned.append(None)
        stmts_seen = []
        for f in io["fns"]:
            want = canon_lines(f["src"], io["imported"], io["module"], io["alias"])
            if not io["ca"]:
                want = [w for w in want if not w[1]]
            if f["name"] == "test_empty" and [w[2] for w in want] == ["pass"]:
                continue
            p = by_name.get(f["name"])
            if p is None:
                fs.append(Failure({"class": "function-not-parsed"}, f"{f['name']} was not handed to the parser",
                                  detail=io["text"]))
                continue
            if p["stmts"]:
                n_nonempty += 1
            try:
                got = canon_lines(p["code"], io["imported"], io["module"], io["alias"])
            except SyntaxError as e:
                kw = re.search(rf"[(,]\s*{re.escape(io['alias'])}\.\w+\s*=[^=]", p["code"]) is not None
                fs.append(Failure({"class": "not-valid-python", "cause": "keyword-rewritten" if kw else "other"},
                                  f"{f['name']}: the parsed test case renders to invalid Python ({e.msg}): "
                                  f"{p['code'][:400]!r}", detail={"file": io["text"], "function": f["name"]}))
                continue
            if [g[0] for g in got] == [w[0] for w in want]:
                # deserialised correctly: then parse_seed_module must hand back a test case that renders to it
                only_stmts = [w[0] for w in want if not w[1]]
                if want and [w[0] for w in want] not in returned:
                    twin = only_stmts in stmts_seen
                    fs.append(Failure(
                        {"class": "function-without-test-case",
                         "cause": "same-statements-as-earlier-function" if twin else "other"},
                        f"{f['name']}: none of the {len(returned)} test cases returned by parse_seed_module renders "
                        f"to this function (statements and assertions: {[w[2] for w in want][:6]})"
                        + ("; an earlier function has the same statements" if twin else ""),
                        detail={"file": io["text"], "function": f["name"], "returned": io.get("returned_code")}))
                stmts_seen.append(only_stmts)
                continue
            gd, wd = [g[0] for g in got], [w[0] for w in want]
            if sorted(gd) == sorted(wd):
                moved = next(w for g, w in zip(got, want) if g[0] != w[0])
                sig = {"class": "reordered", "what": "assertion" if moved[1] or any(g[1] for g in got) else "statement"}
                what = (f"{f['name']}: same lines, different order; first difference at `{moved[2]}` "
                        f"(written) vs `{next(g for g, w in zip(got, want) if g[0] != w[0])[2]}` (re-rendered)")
            else:
                lost = [w for w in want if w[0] not in gd]
                extra = [g for g in got if g[0] not in wd]
                if lost and not extra:
                    first = lost[0]
                    kind = ("assertion" if first[1] else "lambda-statement" if "lambda" in first[2]
                            else "block" if first[2].startswith("with ") else "statement")
                    sig = {"class": "lost", "what": kind}
                    what = f"{f['name']}: `{first[2]}` (and {len(lost) - 1} more) missing from the re-rendered test"
                else:
                    sig = {"class": "differs"}
                    what = (f"{f['name']}: written {[w[2] for w in lost][:3]} vs re-rendered "
                            f"{[g[2] for g in extra][:3]}")
            fs.append(Failure(sig, what, detail={"file": io["text"], "function": f["name"], "rendered": p["code"]}))
        if io.get("n_returned") != n_nonempty:
            fs.append(Failure({"class": "returned-count"}, f"parse_seed_module returned {io.get('n_returned')} test "
                              f"cases, {n_nonempty} functions have statements", detail=io["text"]))
        return fs

    def classify(self, case, io):
        if "fns" not in io:
            return None
        t = io["text"]
        feats = []
        if "    assert " in t:
            feats.append("assert")
        if "pytest.raises" in t:
            feats.append("raises")
        if "lambda" in t:
            feats.append("lambda")
        if any(f"({n}=" in t or f", {n}=" in t for n in io.get("imported", {})):
            feats.append("kw-collision")
        if "xfail" in t:
            self.count("feature:xfail")
        for x in feats:
            self.count("feature:" + x)
        self.count("functions", len(io["fns"]))
        self.count("unmodelled-functions", sum(1 for f in io["fns"] if f["body"] is None))
        for p in io.get("parsed", []):
            for s in p["stmts"]:
                for a in s["asserts"]:
                    self.count("lifted:" + a["k"])
        return t if feats else None


if __name__ == "__main__":
    run_main(C24)
