"""C13 — the archive never loses a covered goal or a better solution (DESIGN §5 C13).

Correspondence: operation histories on the REAL `CoverageArchive`, `_GoalsManager.update` (with a
fake structural graph), `MIOPopulation` and `MIOArchive`, fed with real `TestCaseChromosome`s (real
`TestCase`s with n statements, real `ExecutionResult`s carrying timeout / exception flags) and
real-typed fitness functions (`TestCaseFitnessFunction` subclasses whose `compute_fitness` /
`compute_is_covered` are pure functions of the test case's first statement), against the Lean model
(`Driver/C13.lean`).  Every assignment `_covered[goal] = solution` and every `add_solution` call is
observed individually (recording dict / wrapper), so the oracle checks the replacement rule per
replacement, in the property's own words, independently of the model.

extra_checks: real DYNAMOSA / MOSA / MIO runs on tiny modules in child interpreters, observed after
every iteration by a `SearchObserver` (goal sets only grow, partition, every archived test re-executed
covers its goal, every single replacement obeys the rule, MIO capacity / exactly-one / stays-covered),
plus DYNAMOSA runs with local search on every statement: each archived test is snapshotted when it enters
`_covered` and compared / re-executed right after every suite local search and after every iteration.
"""
from __future__ import annotations

import concurrent.futures
import json
import os
import shutil
import struct
import subprocess
import sys
import tempfile
import textwrap

import vcommon
from vcommon import Failure, PropertyCheck, run_main

H_ONE = 4607182418800017408  # bits of 1.0
_NODES: dict = {}


def bits(h: float) -> int:
    """Order-preserving encoding of a non-negative double (see Model/Archive.lean)."""
    if h == 0.0:
        return 0  # also -0.0, which compares equal to 0.0
    assert h > 0.0
    return struct.unpack("<Q", struct.pack("<d", h))[0]


H_VALUES = [0.0, 5e-324, 0.25, 0.5, 0.5, 0.75, 0.75, 1.0 - 2.0 ** -53, 1.0, 1.0, 1.0]
FITNESS_VALUES = [0.0, 0.0, 0.0, 1e-300, 0.5, 1.0, 1.0, 3.0, 3.0, 7.0, 1e300]

TINYMOD = '''
def classify(x: int, y: int) -> int:
    if x > 10:
        if y < 0:
            return 1
        return 2
    if x == y:
        return 3
    return 4


def ratio(a: int, b: int) -> int:
    if a < 0:
        return -1
    q = a // b
    if q > 2:
        return 2
    return q
'''

TINYCLS = '''
class Counter:
    def __init__(self, start: int) -> None:
        if start < 0:
            raise ValueError("negative")
        self.value = start

    def bump(self, by: int) -> int:
        if by == 0:
            return self.value
        if by > 100:
            self.value += 100
        else:
            self.value += by
        return self.value

    def ratio(self, d: int) -> int:
        if self.value > 5:
            return self.value // d
        return 0
'''

# Integer comparisons against far-away constants: random generation does not reach the inner branches, the AVM
# local search on an (archived) test's integer statement does — the runs with local search on every statement
# make local search SUCCEED on archived tests.
CMPMOD = '''
def classify(a: int, b: int) -> int:
    if a > 150000:
        if b == a + 7:
            return 1
        return 2
    if a < -90000:
        if b == a - 7:
            return 3
        return 4
    if b == 123456:
        return 5
    return 0


def band(x: int) -> int:
    if x > 4000:
        if x < 4010:
            return 1
        return 2
    if x == -77:
        return 3
    return 0
'''

# The child interpreter: runs the real pipeline with a search observer + per-event recorders.
CHILD = r'''
import json, os, sys
sys.path.insert(0, os.environ["C13_SRC"])
os.environ.setdefault("PYNGUIN_DANGER_AWARE", "1")
import pynguin.generator as gen
import pynguin.ga.algorithms.archive as arch
import pynguin.ga.searchobserver as so
import pynguin.ga.testcasechromosome as tcc

REPORT = {"iterations": 0, "violations": [], "events": 0, "replacements": 0, "reexec": 0,
          "covered_final": 0, "err_archived": 0, "kind": None, "mio_adds": 0, "gm_checks": 0,
          "ls_calls": 0, "ls_changed_tests": 0, "snapshot_checks": 0}

def viol(cls, what):
    if len(REPORT["violations"]) < 20:
        REPORT["violations"].append({"class": cls, "what": what})

def erroneous(c):
    r = c.get_last_execution_result()
    return r is not None and (r.timeout or r.has_test_exceptions())

def clean(c):
    r = c.get_last_execution_result()
    return r is not None and not r.timeout and not r.has_test_exceptions()

class RecDict(dict):
    """dict that checks every assignment `_covered[goal] = solution` against the replacement rule"""
    def __setitem__(self, goal, new):
        old = self.get(goal)
        REPORT["events"] += 1
        if not new.get_is_covered(goal):
            viol("insert-not-covering", f"{goal} <- solution that does not cover it")
        if old is not None:
            REPORT["replacements"] += 1
            if not ((erroneous(old) and clean(new)) or new.size() < old.size()):
                viol("replacement-rule", f"{goal}: old(size={old.size()},err={erroneous(old)}) "
                     f"replaced by new(size={new.size()},err={erroneous(new)},clean={clean(new)})")
        super().__setitem__(goal, new)
        # snapshot at the moment the solution enters the archive: the object, its code, that it covers the goal
        SNAP[id(goal)] = (goal, new, code_of(new))

SNAP = {}

def code_of(chromosome):
    return chromosome.test_case.to_module().code  # rendered from the statements, not from the code cache

def check_snapshots(a, where):
    """Archive contents only change through update/add events: between two `_covered[goal] = ...` events the
    archived object is the same and its code is the code it was archived with."""
    for goal, sol in a._covered.items():
        snap = SNAP.get(id(goal))
        REPORT["snapshot_checks"] += 1
        if snap is None or snap[1] is not sol:
            viol("archived-changed-without-update", f"{where}: {goal}: the archived solution is not the one "
                 "recorded by the last `_covered[goal] = solution`")
            continue
        now = code_of(sol)
        if now != snap[2]:
            viol("archived-mutated", f"{where}: the test archived for {goal} was altered in place: "
                 f"archived as {snap[2]!r}, now {now!r}")
    for key, (goal, _, _) in SNAP.items():
        if goal not in a._covered:
            viol("covered-shrinks", f"{where}: {goal} was archived and is not covered any more")

def reexec_covers(goal, chromosome):
    fresh = tcc.TestCaseChromosome(test_case=chromosome.test_case.clone())
    REPORT["reexec"] += 1
    return bool(goal.compute_is_covered(fresh))

class Monitor(so.SearchObserver):
    def __init__(self, algo):
        self.algo = algo
        self.prev_cov = []
        self.prev_obj = []
        self.prev_mio = {}
    def before_search_start(self, start_time_ns):
        pass
    def before_first_search_iteration(self, initial):
        self.check()
    def after_search_iteration(self, best):
        REPORT["iterations"] += 1
        self.check()
    def after_search_finish(self):
        self.check()
    def check(self):
        a = self.algo._archive
        if isinstance(a, arch.CoverageArchive):
            self.check_cov(a)
        elif isinstance(a, arch.MIOArchive):
            self.check_mio(a)
    def check_cov(self, a):
        REPORT["kind"] = "coverage"
        cov = list(a.covered_goals); unc = list(a.uncovered_goals); obj = list(a.objectives)
        if cov[:len(self.prev_cov)] != self.prev_cov:
            viol("covered-shrinks", "covered goals are not an extension of the previous iteration's")
        if obj[:len(self.prev_obj)] != self.prev_obj:
            viol("objectives-shrink", "objectives are not an extension of the previous iteration's")
        ids = lambda l: [id(x) for x in l]
        if set(ids(cov)) & set(ids(unc)):
            viol("partition", "a goal is both covered and uncovered")
        if set(ids(cov)) | set(ids(unc)) != set(ids(obj)) or len(cov) + len(unc) != len(obj):
            viol("partition", "covered + uncovered != objectives")
        cs = set(ids(cov))
        if ids(unc) != [id(g) for g in obj if id(g) not in cs]:
            viol("partition", "uncovered is not objectives minus covered, in objective order")
        if isinstance(a._covered, RecDict):
            check_snapshots(a, "after iteration %d" % REPORT["iterations"])
        for goal, sol in a._covered.items():
            if not sol.get_is_covered(goal):
                viol("archived-not-covering", f"{goal}: cached is_covered is False")
            if not reexec_covers(goal, sol):
                viol("archived-not-covering-reexec", f"{goal}: re-executed archived test does not cover it")
        gm = getattr(self.algo, "_goals_manager", None)
        if gm is not None:
            REPORT["gm_checks"] += 1
            uncs = set(ids(unc))
            for g in gm.current_goals:
                if id(g) not in uncs:
                    viol("goals-manager", f"current goal {g} is not an uncovered goal of the archive")
        self.prev_cov, self.prev_obj = cov, obj
        REPORT["covered_final"] = len(cov)
        REPORT["err_archived"] = sum(1 for s in a._covered.values() if erroneous(s))
    def check_mio(self, a):
        REPORT["kind"] = "mio"
        ncov = 0
        for target, pop in a._archive.items():
            sols = pop._solutions
            if len(sols) > pop._capacity:
                viol("mio-capacity", f"{target}: {len(sols)} solutions, capacity {pop._capacity}")
            hs = [p.h for p in sols]
            if hs != sorted(hs, reverse=True):
                viol("mio-sorted", f"{target}: h values not sorted descending")
            if any(h == 1.0 for h in hs) and not pop.is_covered:
                viol("mio-exactly-one", f"{target}: holds a covering solution but is not is_covered")
            if self.prev_mio.get(id(target)) and not pop.is_covered:
                viol("mio-covered-lost", f"{target}: was covered, is not any more")
            self.prev_mio[id(target)] = pop.is_covered
            if pop.is_covered:
                ncov += 1
                if len(sols) != 1:
                    viol("mio-exactly-one", f"{target}: covered with {len(sols)} solutions")
                if not reexec_covers(target, sols[0].test_case_chromosome):
                    viol("archived-not-covering-reexec", f"{target}: re-executed archived test does not cover it")
        if ncov != a.num_covered_targets:
            viol("mio-num-covered", "num_covered_targets differs")
        REPORT["covered_final"] = ncov

orig_add = arch.MIOPopulation.add_solution
def add_solution(self, h, chromosome):
    REPORT["mio_adds"] += 1
    was = self.is_covered
    old = self._solutions[0] if was else None
    r = orig_add(self, h, chromosome)
    if was:
        if not self.is_covered:
            viol("mio-covered-lost", "add_solution uncovered a covered target")
        elif self._solutions[0] is not old:
            REPORT["replacements"] += 1
            new = self._solutions[0]
            o, n = old.test_case_chromosome, new.test_case_chromosome
            if new.h != 1.0 or not ((erroneous(o) and clean(n)) or n.size() < o.size()):
                viol("mio-replacement-rule", f"old(size={o.size()},err={erroneous(o)}) replaced by "
                     f"new(h={new.h},size={n.size()},err={erroneous(n)},clean={clean(n)})")
    if h == 1.0 and not self.is_covered:
        viol("mio-cover-not-recorded", "h == 1.0 offered but the target is not covered afterwards")
    return r
arch.MIOPopulation.add_solution = add_solution

import pynguin.testcase.localsearch as lsm
ALGO = []
orig_ls = lsm.TestSuiteLocalSearch.local_search
def suite_local_search(self, suite, *args, **kwargs):
    """Observe the archive right after the suite local search, before the goals manager sees its results."""
    REPORT["ls_calls"] += 1
    before = [code_of(c) for c in suite.test_case_chromosomes]
    try:
        return orig_ls(self, suite, *args, **kwargs)
    finally:
        after = [code_of(c) for c in suite.test_case_chromosomes]
        REPORT["ls_changed_tests"] += sum(1 for x, y in zip(before, after) if x != y) + abs(len(after) - len(before))
        for algo in ALGO:
            a = algo._archive
            if isinstance(a, arch.CoverageArchive) and isinstance(a._covered, RecDict):
                check_snapshots(a, "after local search %d" % REPORT["ls_calls"])
                for goal, sol in a._covered.items():
                    if not reexec_covers(goal, sol):
                        viol("archived-not-covering-reexec", f"after local search {REPORT['ls_calls']}: {goal}: "
                             f"re-executed archived test does not cover it: {code_of(sol)!r}")
lsm.TestSuiteLocalSearch.local_search = suite_local_search

orig_inst = gen._instantiate_test_generation_strategy
def inst(executor, cluster, provider):
    algo = orig_inst(executor, cluster, provider)
    a = algo._archive
    if isinstance(a, arch.CoverageArchive):
        a._covered = RecDict(a._covered)
    algo.add_search_observer(Monitor(algo))
    ALGO.append(algo)
    return algo
gen._instantiate_test_generation_strategy = inst

import pynguin.cli as cli
rc = None
try:
    rc = cli.main(sys.argv)
except SystemExit as e:
    rc = e.code
except AssertionError as e:  # CoverageArchive.solutions checks itself ("Some covered targets have a fitness != 0.0")
    import traceback
    tb = traceback.extract_tb(e.__traceback__)
    where = f"{os.path.basename(tb[-1].filename)}:{tb[-1].name}" if tb else "?"
    if tb and tb[-1].filename.endswith("archive.py"):
        viol("solutions-asserts", f"the search aborted with AssertionError in {where}: {e}")
    else:
        REPORT["crash"] = f"AssertionError in {where}: {e}"
    for algo in ALGO:
        if isinstance(algo._archive, arch.CoverageArchive):
            for goal, sol in algo._archive._covered.items():
                if not reexec_covers(goal, sol):
                    viol("archived-not-covering-reexec", f"when the search aborted: {goal}: re-executed archived "
                         f"test does not cover it: {code_of(sol)!r}")
REPORT["rc"] = int(rc) if rc is not None else None
with open(os.environ["C13_REPORT"], "w") as f:
    json.dump(REPORT, f)
'''


class C13(PropertyCheck):
    prop_id = "C13"
    prop_modules = ["PynguinModel.Props.C13"]
    extra_modules = ["PynguinModel.Model.Archive"]
    driver = "Driver/C13.lean"
    n_quick = 1200
    n_thorough = 40000
    n_search = 20000
    runs_quick = 6
    runs_thorough = 60
    ls_runs_quick = 3
    ls_runs_thorough = 12
    rule = ("random histories: CoverageArchive (update/add_goals/solutions, <=8 cmds, goals 0..9, pools of <=8 "
            "solutions with sizes 0..6 so that ties occur, results none/clean/timeout/exception), _GoalsManager.update "
            "on random structural graphs (cycles allowed), MIOPopulation (add/shrink/sample, h in {0, 5e-324, .25, .5, "
            ".75, 1-2^-53, 1}), MIOArchive (update with chopping, shrink); non-trivial = distinct history in which a "
            "stored solution was replaced or a replacement was refused (coverage: >=1 log event with an old solution "
            "or a covering candidate rejected; MIO: add_solution on a covered or full population)")
    assumptions = [
        "value level: the model's solutions are immutable values; the reference level (Model/ArchiveHeap.lean) proves "
        "that no alias-free loop operation alters an archived object; on the real objects this is observed by the real "
        "runs of extra_checks (snapshot at archiving time compared after every local search / iteration, re-execution)",
        "MIO h values are compared through the order-preserving bit pattern of non-negative doubles",
        "reset() is not part of a search history",
        "re-execution of archived tests in the real runs is deterministic on the tiny modules used",
    ]
    trusted_base_extra = [
        "Model/Archive.lean mirrors CoverageArchive.{__init__,update,add_goals,covered_goals,solutions,"
        "_is_better_than_current}, _GoalsManager.update, MIOPopulation.{is_covered,add_solution,shrink_population,"
        "sample_solution,get_best_solution_if_any,_is_pair_better_than_current,_is_better_than_current}, "
        "MIOArchive.{__init__,update,shrink_solutions,solutions,num_covered_targets}",
        "1.0 - normalise(f) is computed by the real code and handed to the model (normalise is not modelled)",
    ]

    # -- generation ---------------------------------------------------------------------------
    @staticmethod
    def _res(rng):
        return rng.choice([None, [False, False], [False, False], [False, True], [False, True],
                           [True, False], [True, True]])

    def _pool(self, rng, n, goals=range(10)):
        pool, have_empty = [], False
        for i in range(n):
            size = rng.choice([0, 1, 2, 2, 3, 3, 3, 4, 4, 5, 6])
            if size == 0:
                if have_empty:
                    size = 3
                have_empty = True
            k = rng.choice([0, 1, 1, 2, 3, 5])
            pool.append({"id": i + 1, "size": size, "res": self._res(rng),
                         "covers": sorted(rng.sample(list(goals), min(k, len(goals))))})
        return pool

    def gen_case(self, rng):
        kind = rng.choice(["cov"] * 9 + ["gm"] * 3 + ["pop"] * 5 + ["mio"] * 3)
        self.count("kind:" + kind)
        if kind == "cov":
            goals = list(range(rng.choice([3, 5, 10])))
            pool = self._pool(rng, rng.randint(1, 8), goals)
            objs = [rng.choice(goals) for _ in range(rng.randint(0, 6))]
            cmds = []
            for _ in range(rng.randint(1, 8)):
                k = rng.choice(["update"] * 5 + ["add_goals"] * 2 + ["solutions"])
                if k == "update":
                    cmds.append({"k": k, "sols": [rng.randrange(len(pool)) for _ in range(rng.randint(0, 5))]})
                elif k == "add_goals":
                    cmds.append({"k": k, "gs": [rng.choice(goals) for _ in range(rng.randint(0, 3))]})
                else:
                    cmds.append({"k": k})
            return {"kind": kind, "objs": objs, "pool": pool, "cmds": cmds}
        if kind == "gm":
            goals = list(range(rng.choice([4, 6, 8])))
            pool = self._pool(rng, rng.randint(1, 6), goals)
            children = []
            for g in goals:
                if rng.random() < 0.7:
                    children.append([g, [rng.choice(goals) for _ in range(rng.randint(0, 3))]])
            return {"kind": kind, "objs": [rng.choice(goals) for _ in range(rng.choice([0, 0, 2]))],
                    "current": [rng.choice(goals) for _ in range(rng.randint(1, 3))],
                    "children": children, "pool": pool,
                    "cmds": [[rng.randrange(len(pool)) for _ in range(rng.randint(0, 4))]
                             for _ in range(rng.randint(1, 5))]}
        if kind == "pop":
            pool = self._pool(rng, rng.randint(1, 8), [])
            cmds = []
            for _ in range(rng.randint(1, 16)):
                k = rng.choice(["add"] * 8 + ["shrink", "sample"])
                if k == "add":
                    h = 1.5 if rng.random() < 0.02 else rng.choice(H_VALUES)
                    cmds.append({"k": k, "h": h, "s": rng.randrange(len(pool))})
                elif k == "shrink":
                    cmds.append({"k": k, "n": rng.choice([0, 1, 1, 2, 3, 4])})
                else:
                    cmds.append({"k": k, "r": rng.randrange(8)})
            return {"kind": kind, "cap": rng.choice([0, 1, 1, 2, 2, 3, 4]), "pool": pool, "cmds": cmds}
        targets = [rng.randrange(6) for _ in range(rng.randint(1, 4))]
        pool = []
        have_empty = False
        for i in range(rng.randint(1, 6)):
            size = rng.choice([0, 1, 2, 3, 3, 4, 5, 6])
            if size == 0:
                if have_empty:
                    size = 2
                have_empty = True
            pool.append({"id": i + 1, "size": size, "hasResult": rng.random() > 0.04,
                         "timeout": rng.random() < 0.2,
                         "excPos": rng.choice([None, None, None, 0, 1, 2, 3, 7]),
                         "fit": [rng.choice(FITNESS_VALUES) for _ in range(6)]})
        cmds = []
        for _ in range(rng.randint(1, 8)):
            if rng.random() < 0.8:
                cmds.append({"k": "update", "inps": [rng.randrange(len(pool)) for _ in range(rng.randint(0, 3))]})
            else:
                cmds.append({"k": "shrink", "n": rng.choice([0, 1, 1, 2, 3])})
        return {"kind": "mio", "targets": targets, "size": rng.choice([1, 2, 3]), "pool": pool, "cmds": cmds}

    # -- real objects --------------------------------------------------------------------------
    @staticmethod
    def _mk_chromosome(sid, size, res, exc_pos=None, has_result=True):
        """A real TestCaseChromosome: `size` statements `var_i = sid*100+i`, a real ExecutionResult."""
        import libcst as cst
        import pynguin.ga.testcasechromosome as tcc
        import pynguin.testcase.testcase as tc
        from pynguin.testcase.execution_result import ExecutionResult
        t = tc.TestCase()
        for i in range(size):
            code = f"var_{i} = {sid * 100 + i}\n"
            node = _NODES.get(code)
            if node is None:
                node = _NODES[code] = cst.parse_module(code).body[0]  # libcst nodes are immutable
            t.add_statement(tc.Statement(node=node, bound_variable=f"var_{i}", bound_type=int))
        c = tcc.TestCaseChromosome(t)
        if has_result and res is not None:
            r = ExecutionResult(timeout=bool(res[0]))
            if res[1]:
                pos = exc_pos if exc_pos is not None else max(size - 1, 0)
                r.report_new_thrown_exception(pos, ValueError("c13"))
            c.set_last_execution_result(r)
        return c

    @staticmethod
    def _goal_class():
        import pynguin.ga.computations as ff

        class FakeGoal(ff.TestCaseFitnessFunction):
            """Real-typed fitness function; values are pure functions of the test case's first statement."""

            def __init__(self, gid, tables):
                super().__init__(None, 0)
                self.gid = gid
                self.tables = tables

            def _sid(self, individual):
                t = individual.test_case
                if t.size() == 0:
                    return self.tables["empty"]
                return int(t.to_code().split("\n")[0].split("=")[1]) // 100

            def compute_fitness(self, individual):
                return self.tables["fit"][self._sid(individual)][self.gid]

            def compute_is_covered(self, individual):
                return self.gid in self.tables["covers"][self._sid(individual)]

            def is_maximisation_function(self):
                return False

            def __repr__(self):
                return f"goal{self.gid}"

        return FakeGoal

    def _setup(self, case, ngoals):
        """Goals 0..ngoals-1 and the chromosomes of the pool (every goal registered on every chromosome)."""
        tables = {"empty": None, "fit": {}, "covers": {}}
        goal_cls = self._goal_class()
        goals = [goal_cls(g, tables) for g in range(ngoals)]
        chroms = []
        for s in case["pool"]:
            if case["kind"] == "mio":
                res = [s["timeout"], s["excPos"] is not None]
                c = self._mk_chromosome(s["id"], s["size"], res, s["excPos"], s["hasResult"])
                tables["fit"][s["id"]] = s["fit"]
                tables["covers"][s["id"]] = {g for g in range(ngoals) if s["fit"][g] == 0.0}
            else:
                c = self._mk_chromosome(s["id"], s["size"], s["res"])
                tables["covers"][s["id"]] = set(s["covers"])
                tables["fit"][s["id"]] = [0.0 if g in s["covers"] else 1.0 for g in range(ngoals)]
            if s["size"] == 0:
                tables["empty"] = s["id"]
            for g in goals:
                c.add_fitness_function(g)
            chroms.append(c)
        return goals, chroms, tables

    @staticmethod
    def _sid_of(chrom, tables):
        t = chrom.test_case
        if t.size() == 0:
            return tables["empty"]
        return int(t.to_code().split("\n")[0].split("=")[1]) // 100

    # -- implementation adapter -----------------------------------------------------------------
    def impl(self, case):
        return getattr(self, "_impl_" + case["kind"])(case)

    def _cov_archive(self, case, goals, tables):
        from pynguin.ga.algorithms.archive import CoverageArchive
        from pynguin.utils.orderedset import OrderedSet
        events, notified = [], []
        sid = lambda c: self._sid_of(c, tables)  # noqa: E731

        class RecDict(dict):
            def __setitem__(self, goal, new):
                old = self.get(goal)
                events.append([goal.gid, None if old is None else sid(old), sid(new)])
                super().__setitem__(goal, new)

        a = CoverageArchive(OrderedSet(goals[g] for g in case["objs"]))
        a._covered = RecDict()  # a dict; observes each `_covered[objective] = solution`
        a.add_on_target_covered(lambda t: notified.append(t.gid))

        def snap():
            return {"cov": [[g.gid, sid(s)] for g, s in a._covered.items()],
                    "unc": [g.gid for g in a.uncovered_goals], "obj": [g.gid for g in a.objectives],
                    "covered_goals": [g.gid for g in a.covered_goals]}
        return a, events, notified, snap

    def _impl_cov(self, case):
        from pynguin.utils.orderedset import OrderedSet
        ngoals = 10
        goals, chroms, tables = self._setup(case, ngoals)
        a, events, notified, snap = self._cov_archive(case, goals, tables)
        outs = []
        for c in case["cmds"]:
            self.count("op:cov." + c["k"])
            if c["k"] == "update":
                upd = a.update([chroms[i] for i in c["sols"]])
                outs.append({"upd": bool(upd), **snap()})
            elif c["k"] == "add_goals":
                a.add_goals(OrderedSet(goals[g] for g in c["gs"]))
                outs.append({"upd": None, **snap()})
            else:
                try:
                    outs.append({"sols": [self._sid_of(s, tables) for s in a.solutions]})
                except AssertionError:
                    outs.append({"err": "AssertionError"})
        return {"outs": outs, "notified": notified, "log": events}

    def _impl_gm(self, case):
        from pynguin.ga.algorithms.dynamosaalgorithm import _GoalsManager
        from pynguin.utils.orderedset import OrderedSet
        goals, chroms, tables = self._setup(case, 8)
        a, events, notified, snap = self._cov_archive(case, goals, tables)
        children = {}
        for g, cs in case["children"]:
            children[g] = cs  # dict semantics: the last entry for a key wins ...
        first = {}
        for g, cs in case["children"]:
            first.setdefault(g, cs)  # ... the model's lookup takes the first: generate unique keys only
        assert children == first

        class FakeGraph:
            def get_structural_children(self, goal):
                return OrderedSet(goals[c] for c in children.get(goal.gid, []))

        gm = object.__new__(_GoalsManager)  # the real update(); __init__ needs a CDG, replayed by hand
        gm._archive = a
        gm._graph = FakeGraph()
        gm._current_goals = OrderedSet(goals[g] for g in case["current"])
        a.add_goals(gm._current_goals)
        class Loop(Exception):
            pass

        calls = [0]
        real_update = a.update

        def guarded_update(solutions):  # a changed `while new_goals_added` loop must not hang the check
            calls[0] += 1
            if calls[0] > 64:
                raise Loop
            return real_update(solutions)

        a.update = guarded_update
        outs = []
        for sols in case["cmds"]:
            self.count("op:gm.update")
            calls[0] = 0
            try:
                gm.update([chroms[i] for i in sols])
            except Loop:
                outs.append({"err": "fuel"})  # what the model prints when its iteration bound is exhausted
                break
            outs.append({"cur": [g.gid for g in gm.current_goals], **snap()})
        return {"outs": outs, "notified": notified, "log": events}

    def _pop_snap(self, pop, tables):
        sols = [[bits(p.h), [self._sid_of(p.test_case_chromosome, tables), p.test_case_chromosome.size()]]
                for p in pop._solutions]
        best = pop.get_best_solution_if_any()
        return {"cap": pop._capacity, "cnt": pop.counter, "sols": sols, "cov": bool(pop.is_covered),
                "best": None if best is None else self._sid_of(best, tables)}

    def _watch_adds(self, tables):
        """Wrap MIOPopulation.add_solution to observe every call (for the oracle only)."""
        from pynguin.ga.algorithms import archive as arch
        orig = arch.MIOPopulation.add_solution
        events = []
        me = self

        def add_solution(pop, h, chromosome):
            before = me._pop_snap(pop, tables)
            err = None
            try:
                r = orig(pop, h, chromosome)
            except (AssertionError, IndexError) as e:
                r, err = None, type(e).__name__
            events.append({"h": h, "cand": [me._sid_of(chromosome, tables), chromosome.size()],
                           "before": before, "after": me._pop_snap(pop, tables), "r": r, "err": err})
            if err == "AssertionError":
                raise AssertionError
            if err == "IndexError":
                raise IndexError
            return r

        arch.MIOPopulation.add_solution = add_solution
        return events, lambda: setattr(arch.MIOPopulation, "add_solution", orig)

    def _impl_pop(self, case):
        from pynguin.ga.algorithms.archive import MIOPopulation
        from pynguin.utils import randomness
        _, chroms, tables = self._setup(case, 0)
        events, restore = self._watch_adds(tables)
        outs = []
        try:
            pop = MIOPopulation(case["cap"])
            for c in case["cmds"]:
                self.count("op:pop." + c["k"])
                try:
                    if c["k"] == "add":
                        r = bool(pop.add_solution(c["h"], chroms[c["s"]]))
                    elif c["k"] == "shrink":
                        r = pop.shrink_population(c["n"])
                    else:
                        orig_choice = randomness.choice
                        randomness.choice = lambda seq, _r=c["r"]: seq[_r % len(seq)]
                        try:
                            s = pop.sample_solution()
                        finally:
                            randomness.choice = orig_choice
                        r = None if s is None else self._sid_of(s, tables)
                except (AssertionError, IndexError) as e:
                    r = {"err": type(e).__name__}
                outs.append({"r": r, **self._pop_snap(pop, tables)})
        finally:
            restore()
        return {"outs": outs, "events": events}

    def _impl_mio(self, case):
        from pynguin.ga.algorithms.archive import MIOArchive
        from pynguin.utils.orderedset import OrderedSet
        goals, chroms, tables = self._setup(case, 6)
        events, restore = self._watch_adds(tables)
        notified = []
        outs = []
        try:
            a = MIOArchive(OrderedSet(goals[g] for g in case["targets"]), case["size"])
            a.add_on_target_covered(lambda t: notified.append(t.gid))
            for c in case["cmds"]:
                self.count("op:mio." + c["k"])
                try:
                    if c["k"] == "update":
                        r = bool(a.update([chroms[i] for i in c["inps"]]))
                    else:
                        r = a.shrink_solutions(c["n"])
                except (AssertionError, IndexError, KeyError) as e:
                    r = {"err": type(e).__name__}
                outs.append({"r": r,
                             "pops": [{"g": g.gid, **self._pop_snap(p, tables)} for g, p in a._archive.items()],
                             "notified": list(notified),
                             "solutions": [self._sid_of(s, tables) for s in a.solutions],
                             "ncov": a.num_covered_targets})
        finally:
            restore()
        return {"outs": outs, "events": events}

    # -- model side ----------------------------------------------------------------------------
    @staticmethod
    def _msol(s):
        return {"id": s["id"], "size": s["size"], "res": s.get("res"), "covers": s.get("covers", [])}

    def model_line(self, case):
        k = case["kind"]
        pool = case["pool"]
        if k == "cov":
            cmds = []
            for c in case["cmds"]:
                if c["k"] == "update":
                    cmds.append({"op": {"op": {"update": {"sols": [self._msol(pool[i]) for i in c["sols"]]}}}})
                elif c["k"] == "add_goals":
                    cmds.append({"op": {"op": {"addGoals": {"gs": c["gs"]}}}})
                else:
                    cmds.append("solutions")
            return vcommon.jdump({"cov": {"c": {"objs": case["objs"], "cmds": cmds}}})
        if k == "gm":
            return vcommon.jdump({"gm": {"c": {
                "objs": case["objs"], "current": case["current"], "children": case["children"], "fuel": 64,
                "cmds": [[self._msol(pool[i]) for i in sols] for sols in case["cmds"]]}}})
        if k == "pop":
            cmds = []
            for c in case["cmds"]:
                if c["k"] == "add":
                    cmds.append({"add": {"h": bits(c["h"]), "s": self._msol(pool[c["s"]])}})
                elif c["k"] == "shrink":
                    cmds.append({"shrink": {"n": c["n"]}})
                else:
                    cmds.append({"sample": {"r": c["r"]}})
            return vcommon.jdump({"pop": {"c": {"cap": case["cap"], "cmds": cmds}}})
        from pynguin.ga.fitness_metrics import normalise
        targets = list(dict.fromkeys(case["targets"]))
        cmds = []
        for c in case["cmds"]:
            if c["k"] == "update":
                inps = []
                for i in c["inps"]:
                    s = pool[i]
                    inps.append({"id": s["id"], "size": s["size"], "hasResult": s["hasResult"],
                                 "timeout": s["timeout"], "excPos": s["excPos"],
                                 "hs": [bits(1.0 - normalise(s["fit"][g])) for g in targets]})
                cmds.append({"update": {"inps": inps}})
            else:
                cmds.append({"shrink": {"n": c["n"]}})
        return vcommon.jdump({"mio": {"c": {"targets": case["targets"], "size": case["size"], "cmds": cmds}}})

    def compare(self, case, io, mo):
        if "outs" not in mo or len(mo["outs"]) != len(io["outs"]):
            return False
        k = case["kind"]
        if k in ("cov", "gm"):
            if mo.get("notified") != io["notified"] or mo.get("log") != io["log"]:
                return False
        for a, b in zip(io["outs"], mo["outs"]):
            a = {x: y for x, y in a.items() if x != "covered_goals"}
            if a != b:
                return False
        return True

    # -- property oracle on the implementation --------------------------------------------------
    @staticmethod
    def _err(res):
        return res is not None and (res[0] or res[1])

    @staticmethod
    def _clean(res):
        return res is not None and not res[0] and not res[1]

    def oracle(self, case, io):
        k = case["kind"]
        if k in ("cov", "gm"):
            return self._oracle_cov(case, io)
        return self._oracle_mio(case, io)

    def _oracle_cov(self, case, io):
        fs = []
        sig = lambda cls: {"archive": "coverage", "class": cls}  # noqa: E731
        by_id = {s["id"]: s for s in case["pool"]}
        prev_cov, prev_obj = [], []
        for o in io["outs"]:
            if "cov" not in o:
                if o.get("err") == "AssertionError":
                    fs.append(Failure(sig("solutions-assert"), "solutions raised: an archived test does not cover its goal"))
                continue
            keys = [g for g, _ in o["cov"]]
            if keys != o["covered_goals"]:
                fs.append(Failure(sig("covered-goals"), "covered_goals differs from the keys of the archive"))
            if keys[:len(prev_cov)] != prev_cov:
                fs.append(Failure(sig("covered-shrinks"), f"covered goals {prev_cov} became {keys}"))
            if o["obj"][:len(prev_obj)] != prev_obj:
                fs.append(Failure(sig("objectives-shrink"), f"objectives {prev_obj} became {o['obj']}"))
            if o["unc"] != [g for g in o["obj"] if g not in keys] or len(set(o["obj"])) != len(o["obj"]) \
                    or not set(keys) <= set(o["obj"]) or len(set(keys)) != len(keys):
                fs.append(Failure(sig("partition"), f"covered {keys} / uncovered {o['unc']} do not partition {o['obj']}"))
            for g, sid in o["cov"]:
                if g not in by_id[sid]["covers"]:
                    fs.append(Failure(sig("archived-not-covering"), f"goal {g} archived with solution {sid} that does not cover it"))
            if "cur" in o and not set(o["cur"]) <= set(o["unc"]):
                fs.append(Failure(sig("goals-manager"), f"current goals {o['cur']} not within uncovered {o['unc']}"))
            prev_cov, prev_obj = keys, o["obj"]
        current = {}
        for g, old, new in io["log"]:
            if current.get(g) != old:
                fs.append(Failure(sig("log"), "recorded old value differs from the tracked one"))
            n = by_id[new]
            if g not in n["covers"]:
                fs.append(Failure(sig("insert-not-covering"), f"goal {g} <- solution {new} that does not cover it"))
            if old is not None:
                o_ = by_id[old]
                if not ((self._err(o_["res"]) and self._clean(n["res"])) or n["size"] < o_["size"]):
                    fs.append(Failure(sig("replacement-rule"),
                                      f"goal {g}: solution {o_} replaced by {n}: neither (old erroneous and new "
                                      f"clean) nor strictly shorter"))
            current[g] = new
        if io["notified"] != prev_cov or len(set(io["notified"])) != len(io["notified"]):
            fs.append(Failure(sig("callbacks"), f"on_target_covered fired for {io['notified']}, covered {prev_cov}"))
        return fs[:3]

    def _oracle_mio(self, case, io):
        fs = []
        sig = lambda cls: {"archive": "mio", "class": cls}  # noqa: E731
        by_id = {s["id"]: s for s in case["pool"]}

        def res_of(sid):
            s = by_id[sid]
            if case["kind"] == "mio":
                return [s["timeout"], s["excPos"] is not None] if s["hasResult"] else None
            return s["res"]

        def check_pop(p, where):
            hs = [h for h, _ in p["sols"]]
            if len(hs) > p["cap"]:
                fs.append(Failure(sig("capacity"), f"{where}: {len(hs)} solutions, capacity {p['cap']}"))
            if hs != sorted(hs, reverse=True):
                fs.append(Failure(sig("sorted"), f"{where}: h values not sorted descending"))
            if H_ONE in hs and not p["cov"]:
                fs.append(Failure(sig("exactly-one"), f"{where}: holds a covering solution but is not covered"))
            if p["cov"] and not (len(hs) == 1 and hs[0] == H_ONE and p["best"] == p["sols"][0][1][0]):
                fs.append(Failure(sig("exactly-one"), f"{where}: covered target does not hold exactly one covering solution"))

        for e in io["events"]:
            b, a = e["before"], e["after"]
            valid = 0.0 <= e["h"] <= 1.0
            if e["err"] is not None:
                if not (e["err"] == "AssertionError" and not valid) and not (e["err"] == "IndexError" and b["cap"] == 0):
                    fs.append(Failure(sig("add-raises"), f"add_solution(h={e['h']}) raised {e['err']} on {b}"))
                continue
            check_pop(a, "after add_solution")
            if b["cov"]:
                if not a["cov"]:
                    fs.append(Failure(sig("covered-lost"), "add_solution uncovered a covered target"))
                elif a["sols"] != b["sols"]:
                    (_, (oid, osize)), (nh, (nid, nsize)) = b["sols"][0], a["sols"][0]
                    ok = nh == H_ONE and e["h"] == 1.0 and [nid, nsize] == e["cand"] and (
                        (self._err(res_of(oid)) and self._clean(res_of(nid))) or nsize < osize)
                    if not ok:
                        fs.append(Failure(sig("replacement-rule"),
                                          f"covered target: solution {oid} (size {osize}, result {res_of(oid)}) replaced "
                                          f"by {nid} (size {nsize}, result {res_of(nid)}): neither (old erroneous and "
                                          f"new clean) nor strictly shorter"))
            if e["h"] == 1.0 and not a["cov"]:
                fs.append(Failure(sig("cover-not-recorded"), "h == 1.0 offered, target not covered afterwards"))
        if case["kind"] == "pop":
            was = False
            for o in io["outs"]:
                check_pop(o, "population")
                if was and not o["cov"]:
                    fs.append(Failure(sig("covered-lost"), "a covered population became uncovered"))
                was = o["cov"]
        else:
            was = {}
            for o in io["outs"]:
                cov_now = []
                for p in o["pops"]:
                    check_pop(p, f"target {p['g']}")
                    if was.get(p["g"]) and not p["cov"]:
                        fs.append(Failure(sig("covered-lost"), f"target {p['g']} was covered, is not any more"))
                    was[p["g"]] = p["cov"]
                    if p["cov"]:
                        cov_now.append(p["g"])
                if sorted(o["notified"]) != sorted(cov_now) or o["ncov"] != len(cov_now):
                    fs.append(Failure(sig("callbacks"), f"on_target_covered fired for {o['notified']}, covered {cov_now}"))
                best = list(dict.fromkeys(p["best"] for p in o["pops"] if p["cov"]))
                if o["solutions"] != best:
                    fs.append(Failure(sig("solutions"), f"solutions {o['solutions']} != best of covered targets {best}"))
        return fs[:3]

    def classify(self, case, io):
        k = case["kind"]
        if k in ("cov", "gm"):
            if any(old is not None for _, old, _ in io["log"]) or (io["log"] and k == "gm"):
                return vcommon.jdump(case)
            return None
        if any(e["err"] is None and (e["before"]["cov"] or len(e["before"]["sols"]) >= max(e["before"]["cap"], 1))
               for e in io["events"]):
            return vcommon.jdump(case)
        return None

    # -- real search runs ----------------------------------------------------------------------
    # local search applied to every statement of every archived test, budget in iterations only (the per-call
    # wall-clock limit of LocalSearchTimer is moved out of reach), small population so that goals stay open
    LS_ARGS = ["--local_search", "True", "--local_search_probability", "1.0", "--local_search_time", "100000000",
               "--population", "6", "--min_initial_tests", "1", "--max_initial_tests", "2",
               "--none_weight", "0", "--any_weight", "0", "--use_random_object_for_call", "0.0"]

    def _one_run(self, tmp, idx, algorithm, module, seed, iterations, extra=()):
        out = os.path.join(tmp, f"out{idx}")
        os.makedirs(out, exist_ok=True)
        report = os.path.join(tmp, f"report{idx}.json")
        env = dict(os.environ, C13_SRC=str(vcommon.REPO / "src"), C13_REPORT=report,
                   PYNGUIN_DANGER_AWARE="1", PYTHONHASHSEED="0")
        cmd = [vcommon.PY, os.path.join(tmp, "child.py"), "--project-path", os.path.join(tmp, "proj"),
               "--module-name", module, "--output-path", out, "--algorithm", algorithm,
               "--maximum-iterations", str(iterations), "--seed", str(seed),
               "--use-master-worker", "False", "--assertion-generation", "NONE", *extra]
        r = subprocess.run(cmd, env=env, capture_output=True, text=True, timeout=600, cwd=tmp)
        if not os.path.exists(report):
            raise RuntimeError(f"pipeline run {algorithm}/{module}/seed {seed} produced no report "
                               f"(rc={r.returncode}): {r.stderr[-1500:]}")
        with open(report) as f:
            rep = json.load(f)
        rep.update(algorithm=algorithm, module=module, seed=seed, extra=list(extra))
        if rep.get("crash"):
            raise RuntimeError(f"pipeline run {algorithm}/{module}/seed {seed} crashed: {rep['crash']}")
        return rep

    def extra_checks(self):
        n = int(os.environ.get("VERIF_RUNS", self.runs_quick if self.tier == "quick" else self.runs_thorough))
        combos = [("DYNAMOSA", "tinymod"), ("MIO", "tinymod"), ("MOSA", "tinycls"),
                  ("DYNAMOSA", "tinycls"), ("MIO", "tinycls"), ("MOSA", "tinymod")]
        jobs = []
        for i in range(n):
            alg, mod = combos[i % len(combos)]
            iters = {"DYNAMOSA": 12, "MOSA": 12, "MIO": 80}[alg]
            jobs.append((i, alg, mod, self.seed * 1000 + i // len(combos) + 1, iters, ()))
        n_ls = int(os.environ.get("VERIF_LS_RUNS", self.ls_runs_quick if self.tier == "quick" else self.ls_runs_thorough))
        for k in range(n_ls):
            jobs.append((n + k, "DYNAMOSA", "cmpmod", self.seed * 1000 + k + 1, 6, tuple(self.LS_ARGS)))
        tmp = tempfile.mkdtemp(prefix="c13-")
        fs, stats = [], {"runs": 0, "iterations": 0, "events": 0, "replacements": 0, "reexecutions": 0,
                         "mio_add_calls": 0, "archived_erroneous": 0, "covered_final": 0,
                         "local_search_calls": 0, "local_search_changed_tests": 0, "snapshot_checks": 0}
        try:
            os.makedirs(os.path.join(tmp, "proj"))
            for name, src in (("tinymod", TINYMOD), ("tinycls", TINYCLS), ("cmpmod", CMPMOD)):
                with open(os.path.join(tmp, "proj", name + ".py"), "w") as f:
                    f.write(textwrap.dedent(src).lstrip())
            with open(os.path.join(tmp, "child.py"), "w") as f:
                f.write(CHILD)
            workers = 3 if self.tier == "quick" else 8
            with concurrent.futures.ThreadPoolExecutor(max_workers=workers) as ex:
                reps = list(ex.map(lambda j: self._one_run(tmp, *j), jobs))
            for rep in reps:
                stats["runs"] += 1
                stats["iterations"] += rep["iterations"]
                stats["events"] += rep["events"]
                stats["replacements"] += rep["replacements"]
                stats["reexecutions"] += rep["reexec"]
                stats["mio_add_calls"] += rep["mio_adds"]
                stats["archived_erroneous"] += rep["err_archived"]
                stats["covered_final"] += rep["covered_final"]
                stats["local_search_calls"] += rep["ls_calls"]
                stats["local_search_changed_tests"] += rep["ls_changed_tests"]
                stats["snapshot_checks"] += rep["snapshot_checks"]
                if rep["extra"]:
                    self.count("run:DYNAMOSA+local-search-every-statement")
                self.count(f"run:{rep['algorithm']}")
                if rep["kind"] is None:
                    raise RuntimeError(f"run {rep['algorithm']}/{rep['module']} never reached the search observer "
                                       f"(rc={rep.get('rc')})")
                seen = set()
                for v in rep["violations"]:
                    if v["class"] in seen:
                        continue
                    seen.add(v["class"])
                    arch = "mio" if rep["kind"] == "mio" else "coverage"
                    cls = v["class"][4:] if v["class"].startswith("mio-") else v["class"]
                    fs.append(Failure({"archive": arch, "class": cls},
                                      f"real {rep['algorithm']} run on {rep['module']} (seed {rep['seed']}): {v['what']}",
                                      case={"run": {k: rep[k] for k in ("algorithm", "module", "seed", "extra")}},
                                      detail=rep["violations"][:5]))
        finally:
            shutil.rmtree(tmp, ignore_errors=True)
        self.extra_coverage["real_runs"] = stats
        self.evaluations += stats["runs"]
        return fs


if __name__ == "__main__":
    run_main(C13)
